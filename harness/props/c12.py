"""C12 — Meta cascades to nested classes with documented priority unless recursive=False."""
from __future__ import annotations

import copy
import datetime as dt
import itertools
import json

from harness.props.c03 import standalone_first_candidates
from harness import common as C
from harness import gen, model, ref
from harness.model import T
from harness.props.c01 import compare_load, load_outcome
from harness.props.c05 import plain_doc
from harness.props import v1streams
from harness.props import c12_hist
from harness.props import c12_tag

SETTINGS = {
    'key_transform_with_dump': ['SNAKE', 'PASCAL'],
    'key_transform_with_load': ['CAMEL', 'NONE'],
    'marshal_date_time_as': ['TIMESTAMP', 'ISO_FORMAT'],
    'skip_defaults': [True, False],
    'skip_if': [{'op': 'is', 'val': None}, {'op': '==', 'val': 0}],
    'raise_on_unknown_json_key': [True, False],
    'tag_key': ['kind', 'type'],
    'auto_assign_tags': [True, False],
}
DUMP_KEYS = ['key_transform_with_dump', 'marshal_date_time_as', 'skip_defaults', 'skip_if', 'skip_defaults_if']
LOAD_KEYS = ['key_transform_with_load', 'raise_on_unknown_json_key']
BOTH_KEYS = ['tag_key', 'auto_assign_tags', 'tag', 'recursive']
SHAPES = ['direct', 'optional', 'list', 'dictval', 'tuple', 'two-levels', 'list-of-optional']


def nested_cls(meta, wizard):
    fields = [{'name': 'when_at'}, {'name': 'opt_val', 'dflt': ['lit', None], 'factory': False},
              {'name': 'num_count', 'dflt': ['lit', 0], 'factory': False}]
    ftys = [['when_at', T('datetime')], ['opt_val', T('optional', T('str'))], ['num_count', T('int')]]
    return {'k': 'cls', 'info': {'name': model.fresh('N'), 'fields': fields, 'wizard': wizard, 'meta': meta}, 'ftys': ftys}


def wrap(shape, n, rng):
    if shape == 'direct':
        return n
    if shape == 'optional':
        return T('optional', n)
    if shape == 'list':
        return T('list', n)
    if shape == 'dictval':
        return T('dict', T('str'), n)
    if shape == 'tuple':
        return T('tuple', T('int'), n)
    if shape == 'list-of-optional':
        return T('list', T('optional', n))
    if shape == 'two-levels':
        mid = {'k': 'cls', 'info': {'name': model.fresh('Mid'), 'fields': [{'name': 'deep_one'}], 'wizard': False, 'meta': None},
               'ftys': [['deep_one', n]]}
        return T('list', mid)
    raise ValueError(shape)


def pick_meta(rng, keys, special=False):
    m = {}
    for k in keys:
        r = rng.random()
        if r < 0.45:
            continue
        m[k] = SETTINGS[k][0 if r < 0.72 else 1]
    return m


def find_nested(d, shape):
    """the dumped nested dict inside the root's dump"""
    v = next(iter(d.values())) if len(d) == 1 else d.get('nested_fld', d.get('nestedFld', d.get('NestedFld')))
    if shape in ('direct', 'optional'):
        return v
    if shape in ('list', 'list-of-optional'):
        return v[0]
    if shape == 'dictval':
        return v['k']
    if shape == 'tuple':
        return v[1]
    if shape == 'two-levels':
        inner = v[0]
        return next(iter(inner.values()))
    raise ValueError(shape)


def run(ctx: C.Ctx):
    v1streams.run_streams(ctx, run_default, run_v1)


def run_default(ctx: C.Ctx):
    from dataclass_wizard import fromdict, asdict
    from dataclass_wizard.errors import UnknownKeysError
    rng = ctx.rng
    gen.SUBS = False
    ctx.rule = ('root / nested Meta over the mergeable settings lattice (each of 7 settings in {unset, A, B} on each side; quick: random, '
                'thorough: denser) × special attributes tag / recursive on the root × nesting shape (direct, Optional, list, dict value, '
                'tuple, two levels, list of Optional) × root declared with an inner Meta or with LoadMeta/DumpMeta-style bind_to × nested '
                'with inner Meta / bound Meta / none: dump of the nested part vs the documented effective(m_n, m_r, recursive) encoding, '
                'unknown-key policy on load, and both vs the Lean model; root Meta declared with the class or bound in two steps (DumpMeta / '
                'LoadMeta) in four orders around the first dump and the first load. LOAD-KEY FAMILY: root / nested key_transform_with_load in '
                '{unset, CAMEL, PASCAL, SNAKE, LISP, NONE} × raise_on_unknown_json_key × recursive × shape × nested field names in snake / camel / '
                'Pascal style × document keys in snake / camel / Pascal / lisp / upper / exact style × history of the root (Meta declared / LoadMeta '
                'bound late / root dumped under a DumpMeta of its own before the load settings are bound): the nested part loaded through the root must '
                'give what a twin class declaring the documented effective Meta itself gives for that part (values or kind of rejection). '
                'Non-trivial = distinct (m_r, m_n, recursive, shape).')
    n = ctx.quick(500, 6000)
    reqs, pend = [], []
    dreqs, dpend = [], []
    keys = list(SETTINGS)
    for i in range(n):
        if ctx.done(i):
            break
        shape = rng.choice(SHAPES)
        m_r = pick_meta(rng, keys)
        m_n = pick_meta(rng, keys) if rng.random() < 0.7 else None
        recursive = rng.choice([None, None, True, False])
        if recursive is not None:
            m_r['recursive'] = recursive
        if rng.random() < 0.25:
            m_r['tag'] = 'roottag'
        if m_n is not None and rng.random() < 0.2:
            m_n['tag'] = 'ntag'
        if m_n is not None and rng.random() < 0.2:
            m_n['recursive'] = rng.choice([True, False])
        nwiz = rng.random() < 0.5
        rwiz = rng.random() < 0.5
        ncls = nested_cls(m_n, nwiz)
        root = {'k': 'cls', 'info': {'name': model.fresh('R'), 'fields': [{'name': 'nested_fld'}], 'wizard': rwiz, 'meta': m_r or None},
                'ftys': [['nested_fld', wrap(shape, ncls, rng)]]}
        # ---- binding history of the root's Meta: declared with the class (inner Meta / one bind_to, as rendered by the class model), or
        # bound in two steps — DumpMeta(dump settings) and LoadMeta(load settings), the settings that matter on both sides going with the
        # first step — in one of the orders  A: D L dump load   B: D dump L load   C: L load D dump   D: L D load dump.
        # Every setting is bound before the first operation it governs, so the documented outcome is that of the declared Meta.
        binding = rng.choice(['declared', 'declared', 'declared', 'A', 'B', 'B', 'C', 'D']) if m_r else 'declared'
        # ---- history: the nested class is dumped on its own (as a main class) before the first dump of the root.  Only in the direction
        # "nested first" and only for classes whose stand-alone use leaves nothing behind that the recorded finding
        # `shared-nested-config-leak` covers (see harness/props/c03.py: standalone_first_candidates).
        pre_alone = rng.random() < 0.35
        if binding == 'B' and m_r.get('auto_assign_tags') and shape == 'two-levels':
            # unchanged-code finding (findings/dump-first-auto-tags-stale-nested-loaders.md): a dump of a root with auto_assign_tags caches the
            # field parsers of the intermediate class, so load settings bound afterwards never reach a class two levels down
            binding = 'A'
        src_root = root
        if binding != 'declared':
            src_root = copy.deepcopy(root)
            src_root['info']['meta'] = None
        try:
            built = model.Built(src_root)
        except Exception as e:
            ctx.count('build_error')
            ctx.notes.setdefault('build_errors', []).append(repr(e)[:300])
            continue
        if binding != 'declared':
            built.infos = {}
            model._collect_infos(root, built.infos)       # the reference side sees the Meta the steps add up to
        try:
            N = built.get(ncls['info']['name'])
            nv = N(when_at=dt.datetime(2021, 3, 4, 5, 6, 7, tzinfo=dt.timezone.utc), opt_val=rng.choice([None, 'x']), num_count=rng.choice([0, 3]))
            inner = {'direct': nv, 'optional': nv, 'list': [nv], 'dictval': {'k': nv}, 'tuple': (1, nv), 'list-of-optional': [nv, None]}.get(shape)
            if shape == 'two-levels':
                Mid = built.get(root['ftys'][0][1]['a'][0]['info']['name'])
                inner = [Mid(deep_one=nv)]
            x = built.root(nested_fld=inner)
            if not ctx.begin_case(i):
                continue
            case = {'ty': root, 'shape': shape, 'binding': binding}
            ctx.seen('cascade:' + shape, case)
            if binding != 'declared':
                ctx.count('binding:' + binding)
            src = dict(src=built.source)
            exp = ref.RefEncoder(built.infos).enc_inst(x, None, None, None, top=True)
            state = {'d': None}
            if pre_alone and binding == 'declared' and ncls['info']['name'] in standalone_first_candidates(root):
                ctx.count('history:nested-alone-first')
                case['history'] = 'nested-alone-first'
                try:
                    d0 = asdict(nv)
                    e0 = ref.RefEncoder(built.infos).enc_inst(nv, None, None, None, top=True)
                    src['src'] += '\nasdict(<nested instance>)   # on its own, before the root'
                    if not ref.same_typed(d0, e0):
                        ctx.fail('cascade:alone', case, f'the nested class dumped on its own gives {d0!r}, its own Meta gives {e0!r}'[:1000], detail=src)
                except Exception as e:
                    ctx.fail('cascade:alone', case, f'asdict of the nested instance on its own raised {e!r}', detail=src)

            def bind(part, first):
                keys = DUMP_KEYS if part == 'D' else LOAD_KEYS
                kw = {k: v for k, v in m_r.items() if k in keys or (first and k in BOTH_KEYS)}
                if not kw:
                    return
                for ck in ('skip_if', 'skip_defaults_if'):
                    if ck in kw:
                        kw[ck] = eval(model.cond_src(kw[ck]), built.mod.__dict__)
                getattr(built.mod, 'DumpMeta' if part == 'D' else 'LoadMeta')(**kw).bind_to(built.root)
                src['src'] += f"\n{'DumpMeta' if part == 'D' else 'LoadMeta'}(**{kw!r}).bind_to({root['info']['name']})"

            def do_dump():
                # ---- dump side
                try:
                    d = asdict(x)
                except Exception as e:
                    ctx.fail('cascade:dump', case, f'asdict raised {e!r}', detail=src)
                    return
                src['src'] += '\nasdict(x)'
                state['d'] = d
                if not ref.same_typed(d, exp):
                    gn, en = None, None
                    try:
                        gn, en = find_nested(d, shape), find_nested(exp, shape)
                    except Exception:
                        pass
                    ctx.fail('cascade:dump', case, f'nested part dumped as {gn!r}, documented effective Meta gives {en!r} (whole: {d!r} vs {exp!r})'[:1200], detail=src)
                st = model.StdTables()
                st.add_py(x)
                dreqs.append({'op': 'dump', 'inst': model.enc_py(x, built), 'std': st.build(), 'exclude': None, 'skip_defaults': None})
                dpend.append((case, {'ok': model.enc_d(d)}))

            def do_load():
                # ---- load side: the dumped document (the documented dump when the load comes first) with an unknown key inside the nested
                # object, spelled per the *effective* dump keys
                d = state['d'] if state['d'] is not None else exp
                base_ok = load_outcome(lambda: fromdict(built.root, json.loads(json.dumps(d))))[0] == 'ok'
                src['src'] += '\nfromdict(Root, ...)'
                if not base_ok:
                    # the dump keys do not reach the fields under the load transform in force: spell the document with the field names
                    # themselves (always accepted) so that the load side of the case is not lost
                    ctx.count('dump_not_loadable_under_load_transform')
                    try:
                        d = plain_doc(x, root, built)
                        base_ok = load_outcome(lambda: fromdict(built.root, json.loads(json.dumps(d))))[0] == 'ok'
                    except Exception:
                        base_ok = False
                    if not base_ok:
                        ctx.count('field_name_doc_not_loadable')
                jd = json.loads(json.dumps(d)) if base_ok else None
                try:
                    tgt = find_nested(jd, shape)
                except Exception:
                    tgt = None
                if isinstance(tgt, dict) and base_ok:
                    tgt['zzz_unknown'] = 1
                    out = load_outcome(lambda: fromdict(built.root, copy.deepcopy(jd)))
                    own = model.own_meta(ncls['info'])
                    cfg = ref.root_config(model.own_meta(root['info']))
                    eff = ref.effective_meta(own, cfg)
                    want_raise = bool(eff.get('raise_on_unknown_json_key'))
                    if want_raise and not (out[0] == 'err' and isinstance(out[1], UnknownKeysError)):
                        ctx.fail('cascade:load-unknown', case, f'effective raise_on_unknown_json_key is True for the nested class, but the load gave {out!r}'[:600], detail=src)
                    if not want_raise and out[0] == 'err' and isinstance(out[1], UnknownKeysError) and out[1].class_name == ncls['info']['name']:
                        ctx.fail('cascade:load-unknown', case, 'effective raise_on_unknown_json_key is not set for the nested class, but its unknown key was rejected', detail=src)
                    st2 = model.StdTables()
                    st2.add_json(jd)
                    reqs.append({'op': 'load', 'ty': model.enc_ty(root), 'doc': model.enc_j(jd), 'std': st2.build()})
                    pend.append((case, out, built))

            steps = {'declared': ['dump', 'load'], 'A': ['D', 'L', 'dump', 'load'], 'B': ['D', 'dump', 'L', 'load'],
                     'C': ['L', 'load', 'D', 'dump'], 'D': ['L', 'D', 'load', 'dump']}[binding]
            first = True
            for step in steps:
                if step in ('D', 'L'):
                    bind(step, first)
                    first = False
                elif step == 'dump':
                    do_dump()
                else:
                    do_load()
        finally:
            built.close()
    run_loadkeys(ctx, n, reqs, pend)
    if ctx.model_available:
        outs = ctx.driver.run(dreqs)
        for (case, impl), o in zip(dpend, outs):
            if 'err' in o and 'r' not in o:
                ctx.agree('cascade:dump-model', case, impl, {'driver_error': o['err']})
                continue
            r = o['r']
            if model.has_miss(r):
                ctx.count('std_miss')
                continue
            ctx.agree('cascade:dump-model', case, impl, {'ok': r['ok']} if 'ok' in r else {'err': r['err']})
        outs = ctx.driver.run(reqs)
        for (case, out, built), o_ in zip(pend, outs):
            compare_load(ctx, 'cascade:load-model', case, out, o_, built)
    # ---- histories over a nested class shared by several roots, Union holders with a Meta of their own, lazily reached holders
    rule = ctx.rule
    c12_hist.run_all(ctx)
    lreqs, lpend = [], []
    c12_tag.run_lazy_load(ctx, lreqs, lpend)
    if ctx.model_available and lreqs:
        for (case, out, built), o_ in zip(lpend, ctx.driver.run(lreqs)):
            compare_load(ctx, 'cascade:lazy-load:load-model', case, out, o_, built)
    ctx.rule = rule + ' ' + c12_hist.RULE + ' ' + c12_tag.RULE


# --------------------------------------------------------------------------- load-side cascade, judged against a twin class
#
# "observed behaviour of the nested part == behaviour under effective(m_n, m_r, recursive)" taken literally: next to the nested class N the
# case declares a twin N2 with the same fields whose OWN Meta is the documented effective Meta of N below this root, and loads the nested
# part of the document with fromdict(N2, part).  Whatever that gives (the values, or the kind of rejection) is what the nested part must
# give when the whole document is loaded through the root.  This needs no reference for the key transforms themselves, so field names and
# document keys may be spelled in any style — in particular in styles that reach their field only *after* the effective transform.

WORDS = [('when', 'at'), ('opt', 'val'), ('num', 'count')]
STYLERS = {
    'snake': lambda ws: '_'.join(ws),
    'camel': lambda ws: ws[0] + ''.join(w.title() for w in ws[1:]),
    'pascal': lambda ws: ''.join(w.title() for w in ws),
    'lisp': lambda ws: '-'.join(ws),
    'upper': lambda ws: '_'.join(ws).upper(),
}
LOAD_TRANSFORMS = ['CAMEL', 'PASCAL', 'SNAKE', 'LISP', 'NONE']


def pick_load_meta(rng, p_unset):
    m = {}
    if rng.random() >= p_unset:
        m['key_transform_with_load'] = rng.choice(LOAD_TRANSFORMS)
    if rng.random() < 0.3:
        m['raise_on_unknown_json_key'] = rng.choice([True, True, False])
    return m


def loadkeys_case(rng):
    fstyle = rng.choice(['snake', 'camel', 'camel', 'pascal'])
    names = [STYLERS[fstyle](ws) for ws in WORDS]
    m_r = pick_load_meta(rng, 0.25)
    recursive = rng.choice([None, None, None, True, False])
    if recursive is not None:
        m_r['recursive'] = recursive
    m_n = pick_load_meta(rng, 0.5) if rng.random() < 0.4 else None
    shape = rng.choice(SHAPES)

    def ncls(name, meta, wizard):
        fields = [{'name': names[0]}, {'name': names[1], 'dflt': ['lit', None], 'factory': False}, {'name': names[2], 'dflt': ['lit', 0], 'factory': False}]
        ftys = [[names[0], T('int')], [names[1], T('optional', T('str'))], [names[2], T('int')]]
        return {'k': 'cls', 'info': {'name': name, 'fields': fields, 'wizard': wizard, 'meta': meta}, 'ftys': ftys}
    n = ncls(model.fresh('N'), m_n, rng.random() < 0.5)
    own = model.own_meta(n['info'])
    eff = ref.effective_meta(own, ref.root_config(m_r))
    m_t = {k: eff[k] for k in ('key_transform_with_load', 'raise_on_unknown_json_key') if k in eff}
    twin = ncls(model.fresh('Twin'), m_t or None, rng.random() < 0.5)
    root = {'k': 'cls', 'info': {'name': model.fresh('R'), 'fields': [{'name': 'nested_fld'}], 'wizard': rng.random() < 0.5, 'meta': m_r or None},
            'ftys': [['nested_fld', wrap(shape, n, rng)]]}
    # history of the root before its first load: Meta declared with the class; or bound late (LoadMeta just before the first load); or the
    # root is first DUMPED under a DumpMeta of its own (auto_assign_tags / dump key transform) and only then gets its load settings
    history = rng.choice(['declared', 'declared', 'bound-late', 'dump-first', 'dump-first']) if m_r else 'declared'
    dump_kw = {}
    if history == 'dump-first':
        if rng.random() < 0.65:
            dump_kw['auto_assign_tags'] = True
        if rng.random() < 0.4:
            dump_kw['key_transform_with_dump'] = rng.choice(['SNAKE', 'PASCAL', 'NONE'])
        if 'recursive' in m_r:
            dump_kw['recursive'] = m_r['recursive']
        if dump_kw.get('auto_assign_tags') and shape == 'two-levels':
            # unchanged-code finding, see findings/dump-first-auto-tags-stale-nested-loaders.md
            history, dump_kw = 'bound-late', {}
    docs = []
    for kstyle in rng.sample(['snake', 'camel', 'pascal', 'lisp', 'upper', 'exact'], 3):
        keys = names if kstyle == 'exact' else [STYLERS[kstyle](ws) for ws in WORDS]
        part = {keys[0]: rng.choice([1, 7])}
        if rng.random() < 0.7:
            part[keys[1]] = rng.choice(['x', None])
        if rng.random() < 0.7:
            part[keys[2]] = rng.choice([0, 4])
        if rng.random() < 0.25:
            part['zzz_unknown'] = 1
        docs.append((kstyle, part))
    return root, n, twin, shape, fstyle, eff, docs, history, dump_kw


def shape_doc(shape, part):
    return {'nested_fld': {'direct': part, 'optional': part, 'list': [part], 'dictval': {'k': part}, 'tuple': [1, part],
                           'list-of-optional': [part, None], 'two-levels': [{'deep_one': part}]}[shape]}


def shape_get(shape, y):
    v = y.nested_fld
    return {'direct': lambda: v, 'optional': lambda: v, 'list': lambda: v[0], 'dictval': lambda: v['k'], 'tuple': lambda: v[1],
            'list-of-optional': lambda: v[0], 'two-levels': lambda: v[0].deep_one}[shape]()


def outcome_kind(out, names):
    """what a load did to the nested part, in terms that do not mention the class: the field values, or the kind of rejection"""
    from dataclass_wizard.errors import UnknownKeysError, MissingFields
    if out[0] == 'ok':
        return ['ok'] + [[type(getattr(out[1], n)).__name__, repr(getattr(out[1], n))] for n in names]
    e = out[1]
    if isinstance(e, UnknownKeysError):
        return ['err', 'UnknownKeysError', v1streams.unknown_keys_of(e)]
    if isinstance(e, MissingFields):
        return ['err', 'MissingFields', sorted(e.missing_fields)]
    return ['err', type(e).__name__]


def run_loadkeys(ctx, first_index, reqs, pend):
    from dataclass_wizard import fromdict
    rng = ctx.rng
    n = ctx.quick(260, 3000)
    for j in range(n):
        i = first_index + j
        if ctx.done(i):
            break
        root, ncls, twin, shape, fstyle, eff, docs, history, dump_kw = loadkeys_case(rng)
        src_root = root
        if history != 'declared':
            src_root = copy.deepcopy(root)
            src_root['info']['meta'] = None
        try:
            built = model.Built(src_root)
            built_t = model.Built(twin)
        except Exception as e:
            ctx.count('build_error')
            ctx.notes.setdefault('build_errors', []).append(repr(e)[:300])
            continue
        try:
            if not ctx.begin_case(i):
                continue
            names = [f['name'] for f in ncls['info']['fields']]
            src = dict(src=built.source + '\n# ---- twin\n' + built_t.source.replace(model.PRELUDE, ''))
            if history != 'declared':
                ctx.count('loadkeys:history:' + history)
                m_r = root['info']['meta']
                rname = root['info']['name']
                if history == 'dump-first':
                    from dataclass_wizard import asdict
                    nv = built.get(ncls['info']['name'])(**{names[0]: 1})
                    inner = {'direct': nv, 'optional': nv, 'list': [nv], 'dictval': {'k': nv}, 'tuple': (1, nv), 'list-of-optional': [nv, None]}.get(shape)
                    if shape == 'two-levels':
                        inner = [built.get(root['ftys'][0][1]['a'][0]['info']['name'])(deep_one=nv)]
                    if dump_kw:
                        built.mod.DumpMeta(**dump_kw).bind_to(built.root)
                        src['src'] += f'\nDumpMeta(**{dump_kw!r}).bind_to({rname})'
                    try:
                        asdict(built.root(nested_fld=inner))
                    except Exception as e:
                        ctx.fail('cascade:loadkeys', {'ty': root, 'shape': shape, 'history': history}, f'asdict of the root raised {e!r}', detail=src)
                    src['src'] += f'\nasdict({rname}(...))'
                load_kw = {k: v for k, v in m_r.items() if k not in dump_kw}
                if load_kw:
                    built.mod.LoadMeta(**load_kw).bind_to(built.root)
                    src['src'] += f'\nLoadMeta(**{load_kw!r}).bind_to({rname})'
            for kstyle, part in docs:
                doc = shape_doc(shape, part)
                case = {'ty': root, 'shape': shape, 'field_style': fstyle, 'key_style': kstyle, 'doc': repr(doc), 'effective': eff,
                        'twin': twin['info']['name'], 'history': history, 'dump_meta': dump_kw}
                ctx.seen('cascade:loadkeys:' + shape, case)
                want = load_outcome(lambda: fromdict(built_t.root, copy.deepcopy(part)))
                out = load_outcome(lambda: fromdict(built.root, copy.deepcopy(doc)))
                got = out if out[0] == 'err' else load_outcome(lambda: shape_get(shape, out[1]))
                kw, kg = outcome_kind(want, names), outcome_kind(got, names)
                ctx.count('loadkeys:' + ('accepted' if kw[0] == 'ok' else 'rejected'))
                if kw != kg:
                    ctx.fail('cascade:loadkeys', case, f'nested part {part!r} (keys in {kstyle} style, fields in {fstyle} style) loaded through the root gives '
                             f'{kg!r}; a class declaring the documented effective Meta {eff!r} itself gives {kw!r}'[:1200], detail=src)
                st = model.StdTables()
                st.add_json(doc)
                reqs.append({'op': 'load', 'ty': model.enc_ty(root), 'doc': model.enc_j(doc), 'std': st.build()})
                pend.append((case, out, built))
        finally:
            built.close()
            built_t.close()


# --------------------------------------------------------------------------- v1 engine

V1_SETTINGS = {
    'v1_on_unknown_key': ['RAISE', 'IGNORE'],
    'v1_key_case': ['CAMEL', 'PASCAL', 'KEBAB', 'AUTO'],
}
LINKS = ['direct', 'direct', 'optional', 'list', 'dictval', 'tuple']


def pick_v1_meta(rng, p_unset=0.5):
    m = {}
    for k, vals in V1_SETTINGS.items():
        if rng.random() < p_unset:
            continue
        m[k] = rng.choice(vals)
    return m


def link_ty(link, n):
    return {'direct': n, 'optional': T('optional', n), 'list': T('list', n), 'dictval': T('dict', T('str'), n),
            'tuple': T('tuple', T('int'), n)}[link]


def link_val(link, v):
    return {'direct': v, 'optional': v, 'list': [v], 'dictval': {'k': v}, 'tuple': (1, v)}[link]


def link_doc(link, d):
    return {'direct': d, 'optional': d, 'list': [d], 'dictval': {'k': d}, 'tuple': [1, d]}[link]


def run_v1(ctx: C.Ctx):
    from dataclass_wizard import fromdict
    from dataclass_wizard.errors import UnknownKeysError, JSONWizardError
    rng = v1streams.sub_rng(ctx)
    gen.SUBS = False
    ctx.rule = ('v1 engine, three levels root → mid → leaf (a quarter: root → leaf): each class with no Meta / an inner Meta / a bound Meta over '
                '{v1_on_unknown_key in unset, RAISE, IGNORE} × {v1_key_case in unset, CAMEL, PASCAL, KEBAB, AUTO}, recursive in {unset, True, False} '
                'on the root, each link one of direct / Optional / list / dict value / tuple; the document is spelled per class with the key case of '
                'effective(own, ROOT) and carries one unknown key at the root, mid or leaf level (or none): the load must accept / reject per '
                'the effective policy of exactly that class (settings an intermediate class sets for itself never reach the leaf) and rebuild the '
                'values; also vs the Lean model of the v1 engine. UNION FAMILY: a class holding Union[X, Y] of dataclasses (tagged or not) one or two '
                'levels below a root Meta over {tag_key, auto_assign_tags, v1_unsafe_parse_dataclass_in_union} × recursive in {unset, True, False}, '
                'documents tagged under `__tag__` / `type` / `kind` / untagged with own tag / class name / a wrong tag: the nested class must behave '
                'like a twin class that declares the documented effective settings itself and is loaded on its own. '
                'Non-trivial = distinct (metas, recursive, links, site).')
    n = ctx.quick(450, 5000)
    reqs, pend = [], []
    for j in range(n):
        i = v1streams.OFFSET + j
        if ctx.done(i):
            break
        nm = v1streams.Namer(j)
        three = rng.random() < 0.75
        m_r = pick_v1_meta(rng)
        m_r['v1'] = True
        recursive = rng.choice([None, None, None, True, False])
        if recursive is not None:
            m_r['recursive'] = recursive
        metas = {}
        for lvl in ('mid', 'leaf'):
            r = rng.random()
            if r < 0.4:
                metas[lvl] = None                      # sets nothing
            else:
                m = pick_v1_meta(rng, p_unset=0.35)
                m['v1'] = True
                metas[lvl] = m
        wiz = {lvl: rng.random() < 0.5 for lvl in ('root', 'mid', 'leaf')}
        l1, l2 = rng.choice(LINKS), rng.choice(LINKS)
        leaf = {'k': 'cls', 'info': {'name': nm('L'), 'fields': [{'name': 'leaf_val'}, {'name': 'opt_txt', 'dflt': ['lit', 'dflt'], 'factory': False}],
                                     'wizard': wiz['leaf'], 'meta': metas['leaf']},
                'ftys': [['leaf_val', T('int')], ['opt_txt', T('str')]]}
        if three:
            mid = {'k': 'cls', 'info': {'name': nm('M'), 'fields': [{'name': 'mid_num'}, {'name': 'the_leaf'}], 'wizard': wiz['mid'], 'meta': metas['mid']},
                   'ftys': [['mid_num', T('int')], ['the_leaf', link_ty(l2, leaf)]]}
            below = mid
        else:
            below = leaf
        root = {'k': 'cls', 'info': {'name': nm('R'), 'fields': [{'name': 'the_child'}, {'name': 'root_num', 'dflt': ['lit', 0], 'factory': False}],
                                     'wizard': wiz['root'], 'meta': m_r},
                'ftys': [['the_child', link_ty(l1, below)], ['root_num', T('int')]]}
        site = rng.choice(['none', 'root', 'mid', 'leaf', 'leaf', 'leaf'] if three else ['none', 'root', 'leaf', 'leaf'])
        vals = dict(leaf_val=rng.choice([3, -1]), opt_txt=rng.choice(['x', 'dflt']), mid_num=rng.choice([1, 2]), root_num=rng.choice([0, 5]))
        omit_opt = rng.random() < 0.3
        try:
            built = model.Built(root)
        except Exception as e:
            ctx.count('build_error')
            ctx.notes.setdefault('build_errors', []).append(repr(e)[:300])
            continue
        try:
            if not ctx.begin_case(i):
                continue
            eff = {'root': v1streams.effective(m_r, None), 'mid': v1streams.effective(metas['mid'], m_r), 'leaf': v1streams.effective(metas['leaf'], m_r)}
            kc = {lvl: eff[lvl].get('v1_key_case') for lvl in eff}
            L, R = built.get(leaf['info']['name']), built.root
            lv = L(leaf_val=vals['leaf_val']) if omit_opt else L(leaf_val=vals['leaf_val'], opt_txt=vals['opt_txt'])
            ld = {v1streams.key_for('leaf_val', kc['leaf']): vals['leaf_val']}
            if not omit_opt:
                ld[v1streams.key_for('opt_txt', kc['leaf'])] = vals['opt_txt']
            if site == 'leaf':
                ld['zzz_unknown'] = 1
            if three:
                M = built.get(mid['info']['name'])
                bv = M(mid_num=vals['mid_num'], the_leaf=link_val(l2, lv))
                bd = {v1streams.key_for('mid_num', kc['mid']): vals['mid_num'], v1streams.key_for('the_leaf', kc['mid']): link_doc(l2, ld)}
                if site == 'mid':
                    bd['zzz_unknown'] = 1
            else:
                bv, bd = lv, ld
            want = R(the_child=link_val(l1, bv), root_num=vals['root_num'])
            doc = {v1streams.key_for('the_child', kc['root']): link_doc(l1, bd), v1streams.key_for('root_num', kc['root']): vals['root_num']}
            if site == 'root':
                doc['zzz_unknown'] = 1
            doc = json.loads(json.dumps(doc))
            case = {'ty': root, 'doc': repr(doc)[:500], 'links': [l1, l2] if three else [l1], 'site': site, 'engine': 'v1'}
            ctx.seen('cascade:v1:' + ('3' if three else '2'), case)
            src = dict(src=built.source)
            out = load_outcome(lambda: fromdict(R, copy.deepcopy(doc)))
            names = {'root': root['info']['name'], 'mid': mid['info']['name'] if three else None, 'leaf': leaf['info']['name']}
            want_raise = site != 'none' and eff[site].get('v1_on_unknown_key') == 'RAISE'
            descr = f'effective settings root={eff["root"]}, mid={eff["mid"] if three else None}, leaf={eff["leaf"]}'
            if want_raise:
                if out[0] == 'ok':
                    ctx.fail('cascade:v1:unknown', case, f'unknown key at the {site} level, whose effective policy is RAISE, was accepted ({descr})', detail=src)
                elif not isinstance(out[1], UnknownKeysError) or out[1].class_name != names[site]:
                    ctx.fail('cascade:v1:unknown', case, f'unknown key at the {site} level (class {names[site]}, effective policy RAISE): expected its '
                             f'UnknownKeysError, got {type(out[1]).__name__} for class {getattr(out[1], "class_name", None)!r}: {str(out[1])[:200]} ({descr})', detail=src)
            elif out[0] == 'err':
                e = out[1]
                who = [lvl for lvl, nme in names.items() if nme == getattr(e, 'class_name', None)]
                ctx.fail('cascade:v1:load', case, f'document spelled and filled per merge(own, ROOT) was rejected: {type(e).__name__} for class '
                         f'{getattr(e, "class_name", None)!r} ({"/".join(who) or "?"} level): {str(e)[:200]} ({descr})', detail=src)
            elif not ref.same_typed(out[1], want):
                ctx.fail('cascade:v1:load', case, f'loaded {out[1]!r}, expected {want!r} ({descr})'[:1000], detail=src)
            st = model.StdTables()
            st.add_json(doc)
            reqs.append({'op': 'loadv1', 'ty': model.enc_ty(root), 'doc': model.enc_j(doc), 'std': st.build()})
            pend.append((case, out, built))
        finally:
            built.close()
    run_v1_unions(ctx, rng, n, reqs, pend)
    # ---- one nested class shared by several v1 roots, in one history (generator of its own: the sequences above are untouched)
    rule = ctx.rule
    c12_hist.run_shared_v1(ctx, v1streams.sub_rng(ctx, 'v1-shared'))
    ctx.rule = rule + ' ' + c12_hist.RULE_V1
    # ---- a nested class with a tag / tag key / unknown-key policy of its own (generator of its own)
    c12_tag.run_tagged_v1(ctx, v1streams.sub_rng(ctx, 'v1-tagged'), reqs, pend)
    ctx.rule += ' ' + c12_tag.RULE_V1
    if ctx.model_available:
        outs = ctx.driver.run(reqs)
        for (case, out, built), o_ in zip(pend, outs):
            compare_load(ctx, 'cascade:v1:load-model', case, out, o_, built)


# --------------------------------------------------------------------------- v1: settings read by the type hooks of a nested class
#
# tag_key, auto_assign_tags and v1_unsafe_parse_dataclass_in_union are not consumed by the class function itself but by the code generated
# for a Union field *inside* the class.  The family nests a class H holding `u: Union[X, Y]` (X, Y dataclasses, with or without tags of
# their own) one or two levels below a root whose Meta sets some of the three, with recursive in {unset, True, False}, and judges the
# nested H against a twin class W declaring the documented effective(own, ROOT) settings as its own Meta and loaded on its own (the
# twin lives in a module of its own with identically named member classes, because an auto-assigned tag is the member's __name__).

UNION_KEYS = ['tag_key', 'auto_assign_tags', 'v1_unsafe_parse_dataclass_in_union']


def pick_union_meta(rng, p=(0.5, 0.35, 0.25)):
    m = {}
    if rng.random() < p[0]:
        m['tag_key'] = rng.choice(['type', 'kind'])
    if rng.random() < p[1]:
        m['auto_assign_tags'] = True
    if rng.random() < p[2]:
        m['v1_unsafe_parse_dataclass_in_union'] = True
    return m


def unlink(link, v):
    return v if link in ('direct', 'optional') else v[0] if link == 'list' else v['k'] if link == 'dictval' else v[1]


def union_outcome(out, get):
    if out[0] == 'ok':
        try:
            h = get(out[1])
            u = h.u
            return ['ok', type(u).__name__, sorted((k, repr(v)) for k, v in vars(u).items()), h.leaf_val]
        except Exception as e:
            return ['ok?', repr(e)]
    return ['err', type(out[1]).__name__]


def run_v1_unions(ctx, rng, first_j, reqs, pend):
    from dataclass_wizard import fromdict
    n = ctx.quick(200, 2500)
    for jj in range(n):
        j = first_j + jj
        i = v1streams.OFFSET + j
        if ctx.done(i):
            break
        nm = v1streams.Namer(j)
        m_r = pick_union_meta(rng)
        m_r['v1'] = True
        recursive = rng.choice([None, None, True, False, False])
        if recursive is not None:
            m_r['recursive'] = recursive
        # H sets none of the three settings itself when it is nested: see findings/v1-nested-own-union-settings-ignored.md
        m_h = {'v1': True} if rng.random() < 0.3 else None
        m_mid = dict(pick_union_meta(rng), v1=True) if rng.random() < 0.4 else None     # an intermediate class's settings never reach H
        tagged = rng.random() < 0.6

        def member(prefix, fname, tag):
            return {'k': 'cls', 'info': {'name': nm(prefix), 'fields': [{'name': fname}], 'wizard': False, 'meta': {'tag': tag} if tagged else None},
                    'ftys': [[fname, T('int')]]}
        X, Y = member('X', 'a', 'x'), member('Y', 'b', 'y')
        if rng.random() < 0.5:
            X, Y = Y, X
        hold = {'k': 'cls', 'info': {'name': nm('H'), 'fields': [{'name': 'u'}, {'name': 'leaf_val', 'dflt': ['lit', 0], 'factory': False}],
                                     'wizard': rng.random() < 0.5, 'meta': m_h},
                'ftys': [['u', T('union', X, Y)], ['leaf_val', T('int')]]}
        eff = v1streams.effective(m_h, m_r)
        twin = copy.deepcopy(hold)
        twin['info'].update(name=nm('W'), wizard=False, meta=dict({k: eff[k] for k in UNION_KEYS if k in eff}, v1=True))
        three = rng.random() < 0.5
        l1, l2 = rng.choice(LINKS), rng.choice(LINKS)
        below = hold
        if three:
            below = {'k': 'cls', 'info': {'name': nm('M'), 'fields': [{'name': 'the_leaf'}], 'wizard': rng.random() < 0.5, 'meta': m_mid},
                     'ftys': [['the_leaf', link_ty(l2, hold)]]}
        root = {'k': 'cls', 'info': {'name': nm('R'), 'fields': [{'name': 'the_child'}], 'wizard': rng.random() < 0.5, 'meta': m_r},
                'ftys': [['the_child', link_ty(l1, below)]]}
        docs = []
        for _ in range(3):
            mem = rng.choice([X, Y])
            ud = {mem['info']['fields'][0]['name']: rng.choice([1, 5])}
            tk = rng.choice(['__tag__', '__tag__', 'type', 'kind', None])
            if tk is not None:
                tv = rng.choice([mem['info']['meta']['tag'] if tagged else mem['info']['name'], mem['info']['name'], 'nope'])
                ud = dict([(tk, tv)] + list(ud.items())) if rng.random() < 0.5 else dict(list(ud.items()) + [(tk, tv)])
            docs.append({'u': ud, 'leaf_val': rng.choice([0, 3])})
        try:
            built = model.Built(root)
            built_t = model.Built(twin)
        except Exception as e:
            ctx.count('build_error')
            ctx.notes.setdefault('build_errors', []).append(repr(e)[:300])
            continue
        try:
            if not ctx.begin_case(i):
                continue
            src = dict(src=built.source + '\n# ---- twin (module of its own)\n' + built_t.source.replace(model.PRELUDE, ''))

            def get(y):
                v = y.the_child
                v = unlink(l1, v)
                if three:
                    v = v.the_leaf
                    v = unlink(l2, v)
                return v
            for hd in docs:
                doc = {'the_child': link_doc(l1, {'the_leaf': link_doc(l2, hd)} if three else hd)}
                doc = json.loads(json.dumps(doc))
                case = {'ty': root, 'doc': repr(doc)[:500], 'links': [l1, l2] if three else [l1], 'engine': 'v1', 'effective': eff,
                        'twin': twin['info']['name'], 'members_tagged': tagged}
                ctx.seen('cascade:v1:union:' + ('3' if three else '2'), case)
                want = load_outcome(lambda: fromdict(built_t.root, copy.deepcopy(hd)))
                out = load_outcome(lambda: fromdict(built.root, copy.deepcopy(doc)))
                kw, kg = union_outcome(want, lambda y: y), union_outcome(out, get)
                ctx.count('v1:union:' + kw[0])
                if kw != kg:
                    ctx.fail('cascade:v1:union', case, f'the nested class with the Union field, given {hd!r}, behaves as {kg!r} below this root; a class declaring the '
                             f'documented effective settings {eff!r} itself behaves as {kw!r} (root Meta {m_r!r}, own Meta {m_h!r})'[:1200], detail=src)
        finally:
            built.close()
            built_t.close()
