"""C12 — Meta cascades to nested classes with documented priority unless recursive=False."""
from __future__ import annotations

import copy
import datetime as dt
import itertools
import json

from harness import common as C
from harness import gen, model, ref
from harness.model import T
from harness.props.c01 import compare_load, load_outcome

SETTINGS = {
    'key_transform_with_dump': ['SNAKE', 'PASCAL'],
    'key_transform_with_load': ['CAMEL', 'NONE'],
    'marshal_date_time_as': ['TIMESTAMP', 'ISO_FORMAT'],
    'skip_defaults': [True, False],
    'skip_if': [{'op': 'is', 'val': None}, {'op': '==', 'val': 0}],
    'raise_on_unknown_json_key': [True, False],
    'tag_key': ['kind', 'type'],
}
SHAPES = ['direct', 'optional', 'list', 'dictval', 'tuple', 'two-levels', 'list-of-optional']


def nested_cls(meta, wizard):
    fields = [{'name': 'when_at'}, {'name': 'opt_val', 'dflt': ['lit', None], 'factory': False},
              {'name': 'num_count', 'dflt': ['lit', 0], 'factory': False}]
    ftys = [['when_at', T('datetime')], ['opt_val', T('optional', T('str'))], ['num_count', T('int')]]
    return {'k': 'cls', 'info': {'name': model.fresh('N'), 'fields': fields, 'wizard': wizard, 'meta': meta}, 'ftys': ftys}


def wrap(shape, n, rng):
    if shape == 'direct':
        return n
    if shape == 'optional':
        return T('optional', n)
    if shape == 'list':
        return T('list', n)
    if shape == 'dictval':
        return T('dict', T('str'), n)
    if shape == 'tuple':
        return T('tuple', T('int'), n)
    if shape == 'list-of-optional':
        return T('list', T('optional', n))
    if shape == 'two-levels':
        mid = {'k': 'cls', 'info': {'name': model.fresh('Mid'), 'fields': [{'name': 'deep_one'}], 'wizard': False, 'meta': None},
               'ftys': [['deep_one', n]]}
        return T('list', mid)
    raise ValueError(shape)


def pick_meta(rng, keys, special=False):
    m = {}
    for k in keys:
        r = rng.random()
        if r < 0.45:
            continue
        m[k] = SETTINGS[k][0 if r < 0.72 else 1]
    return m


def find_nested(d, shape):
    """the dumped nested dict inside the root's dump"""
    v = next(iter(d.values())) if len(d) == 1 else d.get('nested_fld', d.get('nestedFld', d.get('NestedFld')))
    if shape in ('direct', 'optional'):
        return v
    if shape in ('list', 'list-of-optional'):
        return v[0]
    if shape == 'dictval':
        return v['k']
    if shape == 'tuple':
        return v[1]
    if shape == 'two-levels':
        inner = v[0]
        return next(iter(inner.values()))
    raise ValueError(shape)


def run(ctx: C.Ctx):
    from dataclass_wizard import fromdict, asdict
    from dataclass_wizard.errors import UnknownKeysError
    rng = ctx.rng
    gen.SUBS = False
    ctx.rule = ('root / nested Meta over the mergeable settings lattice (each of 7 settings in {unset, A, B} on each side; quick: random, '
                'thorough: denser) × special attributes tag / recursive on the root × nesting shape (direct, Optional, list, dict value, '
                'tuple, two levels, list of Optional) × root declared with an inner Meta or with LoadMeta/DumpMeta-style bind_to × nested '
                'with inner Meta / bound Meta / none: dump of the nested part vs the documented effective(m_n, m_r, recursive) encoding, '
                'unknown-key policy on load, and both vs the Lean model. Non-trivial = distinct (m_r, m_n, recursive, shape).')
    n = ctx.quick(500, 6000)
    reqs, pend = [], []
    dreqs, dpend = [], []
    keys = list(SETTINGS)
    for i in range(n):
        if ctx.done(i):
            break
        shape = rng.choice(SHAPES)
        m_r = pick_meta(rng, keys)
        m_n = pick_meta(rng, keys) if rng.random() < 0.7 else None
        recursive = rng.choice([None, None, True, False])
        if recursive is not None:
            m_r['recursive'] = recursive
        if rng.random() < 0.25:
            m_r['tag'] = 'roottag'
        if m_n is not None and rng.random() < 0.2:
            m_n['tag'] = 'ntag'
        if m_n is not None and rng.random() < 0.2:
            m_n['recursive'] = rng.choice([True, False])
        nwiz = rng.random() < 0.5
        rwiz = rng.random() < 0.5
        ncls = nested_cls(m_n, nwiz)
        root = {'k': 'cls', 'info': {'name': model.fresh('R'), 'fields': [{'name': 'nested_fld'}], 'wizard': rwiz, 'meta': m_r or None},
                'ftys': [['nested_fld', wrap(shape, ncls, rng)]]}
        try:
            built = model.Built(root)
        except Exception as e:
            ctx.count('build_error')
            ctx.notes.setdefault('build_errors', []).append(repr(e)[:300])
            continue
        try:
            N = built.get(ncls['info']['name'])
            nv = N(when_at=dt.datetime(2021, 3, 4, 5, 6, 7, tzinfo=dt.timezone.utc), opt_val=rng.choice([None, 'x']), num_count=rng.choice([0, 3]))
            inner = {'direct': nv, 'optional': nv, 'list': [nv], 'dictval': {'k': nv}, 'tuple': (1, nv), 'list-of-optional': [nv, None]}.get(shape)
            if shape == 'two-levels':
                Mid = built.get(root['ftys'][0][1]['a'][0]['info']['name'])
                inner = [Mid(deep_one=nv)]
            x = built.root(nested_fld=inner)
            if not ctx.begin_case(i):
                continue
            case = {'ty': root, 'shape': shape}
            ctx.seen('cascade:' + shape, case)
            src = dict(src=built.source)
            # ---- dump side
            try:
                d = asdict(x)
            except Exception as e:
                ctx.fail('cascade:dump', case, f'asdict raised {e!r}', detail=src)
                continue
            exp = ref.RefEncoder(built.infos).enc_inst(x, None, None, None, top=True)
            if not ref.same_typed(d, exp):
                gn, en = None, None
                try:
                    gn, en = find_nested(d, shape), find_nested(exp, shape)
                except Exception:
                    pass
                ctx.fail('cascade:dump', case, f'nested part dumped as {gn!r}, documented effective Meta gives {en!r} (whole: {d!r} vs {exp!r})'[:1200], detail=src)
            st = model.StdTables()
            st.add_py(x)
            dreqs.append({'op': 'dump', 'inst': model.enc_py(x, built), 'std': st.build(), 'exclude': None, 'skip_defaults': None})
            dpend.append((case, {'ok': model.enc_d(d)}))
            # ---- load side: the dumped document with an unknown key inside the nested object, spelled per the *effective* dump keys
            jd = json.loads(json.dumps(d))
            try:
                tgt = find_nested(jd, shape)
            except Exception:
                tgt = None
            base_ok = load_outcome(lambda: fromdict(built.root, json.loads(json.dumps(d))))[0] == 'ok'
            if not base_ok:
                ctx.count('dump_not_loadable_under_load_transform')
            if isinstance(tgt, dict) and base_ok:
                tgt['zzz_unknown'] = 1
                out = load_outcome(lambda: fromdict(built.root, copy.deepcopy(jd)))
                own = model.own_meta(ncls['info'])
                cfg = ref.root_config(model.own_meta(root['info']))
                eff = ref.effective_meta(own, cfg)
                want_raise = bool(eff.get('raise_on_unknown_json_key'))
                if want_raise and not (out[0] == 'err' and isinstance(out[1], UnknownKeysError)):
                    ctx.fail('cascade:load-unknown', case, f'effective raise_on_unknown_json_key is True for the nested class, but the load gave {out!r}'[:600], detail=src)
                if not want_raise and out[0] == 'err' and isinstance(out[1], UnknownKeysError) and out[1].class_name == ncls['info']['name']:
                    ctx.fail('cascade:load-unknown', case, 'effective raise_on_unknown_json_key is not set for the nested class, but its unknown key was rejected', detail=src)
                st2 = model.StdTables()
                st2.add_json(jd)
                reqs.append({'op': 'load', 'ty': model.enc_ty(root), 'doc': model.enc_j(jd), 'std': st2.build()})
                pend.append((case, out, built))
        finally:
            built.close()
    if ctx.model_available:
        outs = ctx.driver.run(dreqs)
        for (case, impl), o in zip(dpend, outs):
            if 'err' in o and 'r' not in o:
                ctx.agree('cascade:dump-model', case, impl, {'driver_error': o['err']})
                continue
            r = o['r']
            if model.has_miss(r):
                ctx.count('std_miss')
                continue
            ctx.agree('cascade:dump-model', case, impl, {'ok': r['ok']} if 'ok' in r else {'err': r['err']})
        outs = ctx.driver.run(reqs)
        for (case, out, built), o_ in zip(pend, outs):
            compare_load(ctx, 'cascade:load-model', case, out, o_, built)
