"""C12 — Meta cascades to nested classes with documented priority unless recursive=False."""
from __future__ import annotations

import copy
import datetime as dt
import itertools
import json

from harness import common as C
from harness import gen, model, ref
from harness.model import T
from harness.props.c01 import compare_load, load_outcome
from harness.props import v1streams

SETTINGS = {
    'key_transform_with_dump': ['SNAKE', 'PASCAL'],
    'key_transform_with_load': ['CAMEL', 'NONE'],
    'marshal_date_time_as': ['TIMESTAMP', 'ISO_FORMAT'],
    'skip_defaults': [True, False],
    'skip_if': [{'op': 'is', 'val': None}, {'op': '==', 'val': 0}],
    'raise_on_unknown_json_key': [True, False],
    'tag_key': ['kind', 'type'],
}
SHAPES = ['direct', 'optional', 'list', 'dictval', 'tuple', 'two-levels', 'list-of-optional']


def nested_cls(meta, wizard):
    fields = [{'name': 'when_at'}, {'name': 'opt_val', 'dflt': ['lit', None], 'factory': False},
              {'name': 'num_count', 'dflt': ['lit', 0], 'factory': False}]
    ftys = [['when_at', T('datetime')], ['opt_val', T('optional', T('str'))], ['num_count', T('int')]]
    return {'k': 'cls', 'info': {'name': model.fresh('N'), 'fields': fields, 'wizard': wizard, 'meta': meta}, 'ftys': ftys}


def wrap(shape, n, rng):
    if shape == 'direct':
        return n
    if shape == 'optional':
        return T('optional', n)
    if shape == 'list':
        return T('list', n)
    if shape == 'dictval':
        return T('dict', T('str'), n)
    if shape == 'tuple':
        return T('tuple', T('int'), n)
    if shape == 'list-of-optional':
        return T('list', T('optional', n))
    if shape == 'two-levels':
        mid = {'k': 'cls', 'info': {'name': model.fresh('Mid'), 'fields': [{'name': 'deep_one'}], 'wizard': False, 'meta': None},
               'ftys': [['deep_one', n]]}
        return T('list', mid)
    raise ValueError(shape)


def pick_meta(rng, keys, special=False):
    m = {}
    for k in keys:
        r = rng.random()
        if r < 0.45:
            continue
        m[k] = SETTINGS[k][0 if r < 0.72 else 1]
    return m


def find_nested(d, shape):
    """the dumped nested dict inside the root's dump"""
    v = next(iter(d.values())) if len(d) == 1 else d.get('nested_fld', d.get('nestedFld', d.get('NestedFld')))
    if shape in ('direct', 'optional'):
        return v
    if shape in ('list', 'list-of-optional'):
        return v[0]
    if shape == 'dictval':
        return v['k']
    if shape == 'tuple':
        return v[1]
    if shape == 'two-levels':
        inner = v[0]
        return next(iter(inner.values()))
    raise ValueError(shape)


def run(ctx: C.Ctx):
    v1streams.run_streams(ctx, run_default, run_v1)


def run_default(ctx: C.Ctx):
    from dataclass_wizard import fromdict, asdict
    from dataclass_wizard.errors import UnknownKeysError
    rng = ctx.rng
    gen.SUBS = False
    ctx.rule = ('root / nested Meta over the mergeable settings lattice (each of 7 settings in {unset, A, B} on each side; quick: random, '
                'thorough: denser) × special attributes tag / recursive on the root × nesting shape (direct, Optional, list, dict value, '
                'tuple, two levels, list of Optional) × root declared with an inner Meta or with LoadMeta/DumpMeta-style bind_to × nested '
                'with inner Meta / bound Meta / none: dump of the nested part vs the documented effective(m_n, m_r, recursive) encoding, '
                'unknown-key policy on load, and both vs the Lean model. Non-trivial = distinct (m_r, m_n, recursive, shape).')
    n = ctx.quick(500, 6000)
    reqs, pend = [], []
    dreqs, dpend = [], []
    keys = list(SETTINGS)
    for i in range(n):
        if ctx.done(i):
            break
        shape = rng.choice(SHAPES)
        m_r = pick_meta(rng, keys)
        m_n = pick_meta(rng, keys) if rng.random() < 0.7 else None
        recursive = rng.choice([None, None, True, False])
        if recursive is not None:
            m_r['recursive'] = recursive
        if rng.random() < 0.25:
            m_r['tag'] = 'roottag'
        if m_n is not None and rng.random() < 0.2:
            m_n['tag'] = 'ntag'
        if m_n is not None and rng.random() < 0.2:
            m_n['recursive'] = rng.choice([True, False])
        nwiz = rng.random() < 0.5
        rwiz = rng.random() < 0.5
        ncls = nested_cls(m_n, nwiz)
        root = {'k': 'cls', 'info': {'name': model.fresh('R'), 'fields': [{'name': 'nested_fld'}], 'wizard': rwiz, 'meta': m_r or None},
                'ftys': [['nested_fld', wrap(shape, ncls, rng)]]}
        try:
            built = model.Built(root)
        except Exception as e:
            ctx.count('build_error')
            ctx.notes.setdefault('build_errors', []).append(repr(e)[:300])
            continue
        try:
            N = built.get(ncls['info']['name'])
            nv = N(when_at=dt.datetime(2021, 3, 4, 5, 6, 7, tzinfo=dt.timezone.utc), opt_val=rng.choice([None, 'x']), num_count=rng.choice([0, 3]))
            inner = {'direct': nv, 'optional': nv, 'list': [nv], 'dictval': {'k': nv}, 'tuple': (1, nv), 'list-of-optional': [nv, None]}.get(shape)
            if shape == 'two-levels':
                Mid = built.get(root['ftys'][0][1]['a'][0]['info']['name'])
                inner = [Mid(deep_one=nv)]
            x = built.root(nested_fld=inner)
            if not ctx.begin_case(i):
                continue
            case = {'ty': root, 'shape': shape}
            ctx.seen('cascade:' + shape, case)
            src = dict(src=built.source)
            # ---- dump side
            try:
                d = asdict(x)
            except Exception as e:
                ctx.fail('cascade:dump', case, f'asdict raised {e!r}', detail=src)
                continue
            exp = ref.RefEncoder(built.infos).enc_inst(x, None, None, None, top=True)
            if not ref.same_typed(d, exp):
                gn, en = None, None
                try:
                    gn, en = find_nested(d, shape), find_nested(exp, shape)
                except Exception:
                    pass
                ctx.fail('cascade:dump', case, f'nested part dumped as {gn!r}, documented effective Meta gives {en!r} (whole: {d!r} vs {exp!r})'[:1200], detail=src)
            st = model.StdTables()
            st.add_py(x)
            dreqs.append({'op': 'dump', 'inst': model.enc_py(x, built), 'std': st.build(), 'exclude': None, 'skip_defaults': None})
            dpend.append((case, {'ok': model.enc_d(d)}))
            # ---- load side: the dumped document with an unknown key inside the nested object, spelled per the *effective* dump keys
            jd = json.loads(json.dumps(d))
            try:
                tgt = find_nested(jd, shape)
            except Exception:
                tgt = None
            base_ok = load_outcome(lambda: fromdict(built.root, json.loads(json.dumps(d))))[0] == 'ok'
            if not base_ok:
                ctx.count('dump_not_loadable_under_load_transform')
            if isinstance(tgt, dict) and base_ok:
                tgt['zzz_unknown'] = 1
                out = load_outcome(lambda: fromdict(built.root, copy.deepcopy(jd)))
                own = model.own_meta(ncls['info'])
                cfg = ref.root_config(model.own_meta(root['info']))
                eff = ref.effective_meta(own, cfg)
                want_raise = bool(eff.get('raise_on_unknown_json_key'))
                if want_raise and not (out[0] == 'err' and isinstance(out[1], UnknownKeysError)):
                    ctx.fail('cascade:load-unknown', case, f'effective raise_on_unknown_json_key is True for the nested class, but the load gave {out!r}'[:600], detail=src)
                if not want_raise and out[0] == 'err' and isinstance(out[1], UnknownKeysError) and out[1].class_name == ncls['info']['name']:
                    ctx.fail('cascade:load-unknown', case, 'effective raise_on_unknown_json_key is not set for the nested class, but its unknown key was rejected', detail=src)
                st2 = model.StdTables()
                st2.add_json(jd)
                reqs.append({'op': 'load', 'ty': model.enc_ty(root), 'doc': model.enc_j(jd), 'std': st2.build()})
                pend.append((case, out, built))
        finally:
            built.close()
    if ctx.model_available:
        outs = ctx.driver.run(dreqs)
        for (case, impl), o in zip(dpend, outs):
            if 'err' in o and 'r' not in o:
                ctx.agree('cascade:dump-model', case, impl, {'driver_error': o['err']})
                continue
            r = o['r']
            if model.has_miss(r):
                ctx.count('std_miss')
                continue
            ctx.agree('cascade:dump-model', case, impl, {'ok': r['ok']} if 'ok' in r else {'err': r['err']})
        outs = ctx.driver.run(reqs)
        for (case, out, built), o_ in zip(pend, outs):
            compare_load(ctx, 'cascade:load-model', case, out, o_, built)


# --------------------------------------------------------------------------- v1 engine

V1_SETTINGS = {
    'v1_on_unknown_key': ['RAISE', 'IGNORE'],
    'v1_key_case': ['CAMEL', 'PASCAL', 'KEBAB', 'AUTO'],
}
LINKS = ['direct', 'direct', 'optional', 'list', 'dictval', 'tuple']


def pick_v1_meta(rng, p_unset=0.5):
    m = {}
    for k, vals in V1_SETTINGS.items():
        if rng.random() < p_unset:
            continue
        m[k] = rng.choice(vals)
    return m


def link_ty(link, n):
    return {'direct': n, 'optional': T('optional', n), 'list': T('list', n), 'dictval': T('dict', T('str'), n),
            'tuple': T('tuple', T('int'), n)}[link]


def link_val(link, v):
    return {'direct': v, 'optional': v, 'list': [v], 'dictval': {'k': v}, 'tuple': (1, v)}[link]


def link_doc(link, d):
    return {'direct': d, 'optional': d, 'list': [d], 'dictval': {'k': d}, 'tuple': [1, d]}[link]


def run_v1(ctx: C.Ctx):
    from dataclass_wizard import fromdict
    from dataclass_wizard.errors import UnknownKeysError, JSONWizardError
    rng = v1streams.sub_rng(ctx)
    gen.SUBS = False
    ctx.rule = ('v1 engine, three levels root → mid → leaf (a quarter: root → leaf): each class with no Meta / an inner Meta / a bound Meta over '
                '{v1_on_unknown_key in unset, RAISE, IGNORE} × {v1_key_case in unset, CAMEL, PASCAL, KEBAB, AUTO}, recursive in {unset, True, False} '
                'on the root, each link one of direct / Optional / list / dict value / tuple; the document is spelled per class with the key case of '
                'effective(own, ROOT) and carries one unknown key at the root, mid or leaf level (or none): the load must accept / reject per '
                'the effective policy of exactly that class (settings an intermediate class sets for itself never reach the leaf) and rebuild the '
                'values; also vs the Lean model of the v1 engine. Non-trivial = distinct (metas, recursive, links, site).')
    n = ctx.quick(450, 5000)
    reqs, pend = [], []
    for j in range(n):
        i = v1streams.OFFSET + j
        if ctx.done(i):
            break
        nm = v1streams.Namer(j)
        three = rng.random() < 0.75
        m_r = pick_v1_meta(rng)
        m_r['v1'] = True
        recursive = rng.choice([None, None, None, True, False])
        if recursive is not None:
            m_r['recursive'] = recursive
        metas = {}
        for lvl in ('mid', 'leaf'):
            r = rng.random()
            if r < 0.4:
                metas[lvl] = None                      # sets nothing
            else:
                m = pick_v1_meta(rng, p_unset=0.35)
                m['v1'] = True
                metas[lvl] = m
        wiz = {lvl: rng.random() < 0.5 for lvl in ('root', 'mid', 'leaf')}
        l1, l2 = rng.choice(LINKS), rng.choice(LINKS)
        leaf = {'k': 'cls', 'info': {'name': nm('L'), 'fields': [{'name': 'leaf_val'}, {'name': 'opt_txt', 'dflt': ['lit', 'dflt'], 'factory': False}],
                                     'wizard': wiz['leaf'], 'meta': metas['leaf']},
                'ftys': [['leaf_val', T('int')], ['opt_txt', T('str')]]}
        if three:
            mid = {'k': 'cls', 'info': {'name': nm('M'), 'fields': [{'name': 'mid_num'}, {'name': 'the_leaf'}], 'wizard': wiz['mid'], 'meta': metas['mid']},
                   'ftys': [['mid_num', T('int')], ['the_leaf', link_ty(l2, leaf)]]}
            below = mid
        else:
            below = leaf
        root = {'k': 'cls', 'info': {'name': nm('R'), 'fields': [{'name': 'the_child'}, {'name': 'root_num', 'dflt': ['lit', 0], 'factory': False}],
                                     'wizard': wiz['root'], 'meta': m_r},
                'ftys': [['the_child', link_ty(l1, below)], ['root_num', T('int')]]}
        site = rng.choice(['none', 'root', 'mid', 'leaf', 'leaf', 'leaf'] if three else ['none', 'root', 'leaf', 'leaf'])
        vals = dict(leaf_val=rng.choice([3, -1]), opt_txt=rng.choice(['x', 'dflt']), mid_num=rng.choice([1, 2]), root_num=rng.choice([0, 5]))
        omit_opt = rng.random() < 0.3
        try:
            built = model.Built(root)
        except Exception as e:
            ctx.count('build_error')
            ctx.notes.setdefault('build_errors', []).append(repr(e)[:300])
            continue
        try:
            if not ctx.begin_case(i):
                continue
            eff = {'root': v1streams.effective(m_r, None), 'mid': v1streams.effective(metas['mid'], m_r), 'leaf': v1streams.effective(metas['leaf'], m_r)}
            kc = {lvl: eff[lvl].get('v1_key_case') for lvl in eff}
            L, R = built.get(leaf['info']['name']), built.root
            lv = L(leaf_val=vals['leaf_val']) if omit_opt else L(leaf_val=vals['leaf_val'], opt_txt=vals['opt_txt'])
            ld = {v1streams.key_for('leaf_val', kc['leaf']): vals['leaf_val']}
            if not omit_opt:
                ld[v1streams.key_for('opt_txt', kc['leaf'])] = vals['opt_txt']
            if site == 'leaf':
                ld['zzz_unknown'] = 1
            if three:
                M = built.get(mid['info']['name'])
                bv = M(mid_num=vals['mid_num'], the_leaf=link_val(l2, lv))
                bd = {v1streams.key_for('mid_num', kc['mid']): vals['mid_num'], v1streams.key_for('the_leaf', kc['mid']): link_doc(l2, ld)}
                if site == 'mid':
                    bd['zzz_unknown'] = 1
            else:
                bv, bd = lv, ld
            want = R(the_child=link_val(l1, bv), root_num=vals['root_num'])
            doc = {v1streams.key_for('the_child', kc['root']): link_doc(l1, bd), v1streams.key_for('root_num', kc['root']): vals['root_num']}
            if site == 'root':
                doc['zzz_unknown'] = 1
            doc = json.loads(json.dumps(doc))
            case = {'ty': root, 'doc': repr(doc)[:500], 'links': [l1, l2] if three else [l1], 'site': site, 'engine': 'v1'}
            ctx.seen('cascade:v1:' + ('3' if three else '2'), case)
            src = dict(src=built.source)
            out = load_outcome(lambda: fromdict(R, copy.deepcopy(doc)))
            names = {'root': root['info']['name'], 'mid': mid['info']['name'] if three else None, 'leaf': leaf['info']['name']}
            want_raise = site != 'none' and eff[site].get('v1_on_unknown_key') == 'RAISE'
            descr = f'effective settings root={eff["root"]}, mid={eff["mid"] if three else None}, leaf={eff["leaf"]}'
            if want_raise:
                if out[0] == 'ok':
                    ctx.fail('cascade:v1:unknown', case, f'unknown key at the {site} level, whose effective policy is RAISE, was accepted ({descr})', detail=src)
                elif not isinstance(out[1], UnknownKeysError) or out[1].class_name != names[site]:
                    ctx.fail('cascade:v1:unknown', case, f'unknown key at the {site} level (class {names[site]}, effective policy RAISE): expected its '
                             f'UnknownKeysError, got {type(out[1]).__name__} for class {getattr(out[1], "class_name", None)!r}: {str(out[1])[:200]} ({descr})', detail=src)
            elif out[0] == 'err':
                e = out[1]
                who = [lvl for lvl, nme in names.items() if nme == getattr(e, 'class_name', None)]
                ctx.fail('cascade:v1:load', case, f'document spelled and filled per merge(own, ROOT) was rejected: {type(e).__name__} for class '
                         f'{getattr(e, "class_name", None)!r} ({"/".join(who) or "?"} level): {str(e)[:200]} ({descr})', detail=src)
            elif not ref.same_typed(out[1], want):
                ctx.fail('cascade:v1:load', case, f'loaded {out[1]!r}, expected {want!r} ({descr})'[:1000], detail=src)
            st = model.StdTables()
            st.add_json(doc)
            reqs.append({'op': 'loadv1', 'ty': model.enc_ty(root), 'doc': model.enc_j(doc), 'std': st.build()})
            pend.append((case, out, built))
        finally:
            built.close()
    if ctx.model_available:
        outs = ctx.driver.run(reqs)
        for (case, out, built), o_ in zip(pend, outs):
            compare_load(ctx, 'cascade:v1:load-model', case, out, o_, built)
