"""C08 part E — the same clauses under other interpreter settings.

Parts A–D run inside the check's own interpreter (default flags).  How the process was started is an input of the
library too: `python -O` / `-OO` (assert statements and docstrings are stripped), `-X dev`, `-X utf8`, another hash seed.
None of them is mentioned anywhere in the documentation of the key mappings, so every clause of C08 has to hold the same
way.  For each setting a child interpreter is started with those flags / that environment; it draws its own seeded stream
of part-B class models x documents (both engines), part-C nested histories and canonical names x casings, judges them by
the same documentation reference and reports the failures (one JSON line each) to the parent, which records them with the
setting as part of the failing input.  Oracle only (the Lean driver is not consulted from the children; the class models
and the judges are those whose correspondence parts B / C check).

    python [flags] -m harness.props.c08_proc <seed> <tier> <setting index> [<only case index>]       (child)
"""
from __future__ import annotations

import json
import os
import random
import subprocess
import sys

SETTINGS = [    # (label, interpreter flags, environment)
    ('-O', ['-O'], {}),
    ('-OO', ['-OO'], {}),
    ('-X dev', ['-X', 'dev'], {}),
    ('-X utf8, PYTHONHASHSEED=1', ['-X', 'utf8'], {'PYTHONHASHSEED': '1'}),
]
BASE, STRIDE = 500000, 20000
N_CLS = (220, 2200)        # part-B classes per setting (quick, thorough)
N_NEST = (80, 800)
N_NAMES = (150, 1500)


def start(ctx):
    """start the children (they run next to parts A-D of the parent); `collect` records what they report"""
    from harness import common as C
    here = str(C.VERIF)
    procs = []
    for k, (label, flags, env) in enumerate(SETTINGS):
        only = None
        if ctx.only is not None:
            if not (BASE + k * STRIDE <= ctx.only < BASE + (k + 1) * STRIDE):
                continue
            only = ctx.only - BASE - k * STRIDE
        cmd = [sys.executable, *flags, '-m', 'harness.props.c08_proc', str(ctx.seed), ctx.tier, str(k)] + ([str(only)] if only is not None else [])
        e = dict(os.environ, VERIF_REPO=str(C.REPO), PYTHONDONTWRITEBYTECODE='1', **env)
        e.pop('PYTHONOPTIMIZE', None)
        procs.append((k, label, subprocess.Popen(cmd, cwd=here, env=e, stdout=subprocess.PIPE, stderr=subprocess.PIPE, text=True)))
    return procs


def collect(ctx, procs):
    ctx.rule += (' | interpreter settings: for each of ' + ', '.join('python ' + s[0] for s in SETTINGS) + ' a child interpreter draws its own '
                 'stream of end-to-end class models x documents (both engines), nested histories and canonical names x casings and judges '
                 'them by the same documentation reference; the setting is part of the failing input.')
    for k, label, p in procs:
        try:
            out, err = p.communicate(timeout=600)
        except subprocess.TimeoutExpired:
            p.kill()
            ctx.notes.setdefault('proc_errors', []).append(f'python {label}: child timed out')
            ctx.count('proc:child_error')
            continue
        got_end = False
        for line in out.splitlines():
            if not line.startswith('{'):
                continue
            o = json.loads(line)
            if 'end' in o:
                got_end = True
                for kind, n in o['end'].items():
                    ctx.count(f'proc[{label}]:{kind}', n)
                ctx.evaluations += o['evaluations']
                for h in o['hashes']:
                    ctx.hashes_nontrivial.add(h)
                continue
            ctx.current = BASE + k * STRIDE + o['ci']
            ctx.fail(f'oracle:proc[{label}]:' + o['kind'].replace('oracle:', ''), dict(o['case'], interpreter=label),
                     f'under `python {label}`: ' + o['what'], key=o.get('key'), detail=o.get('detail'))
        if p.returncode != 0 or not got_end:
            # a child that cannot run is a broken check, never a silent pass
            ctx.count('proc:child_error')
            ctx.notes.setdefault('proc_errors', []).append(f'python {label}: exit {p.returncode}: {err[-600:]}')
            raise RuntimeError(f'C08 child interpreter `python {label}` did not complete: exit {p.returncode}\n{err[-1500:]}')


# --------------------------------------------------------------------------------------------------------------- child

def _child(seed, tier, k, only):
    here = os.path.dirname(os.path.dirname(os.path.dirname(os.path.abspath(__file__))))
    if here not in sys.path:
        sys.path.insert(0, here)
    from harness import common as C
    dw = C.setup_repo_path()
    f = os.path.realpath(dw.__file__)
    if not f.startswith(os.path.realpath(str(C.REPO)) + os.sep):          # (setup_repo_path says so with an assert statement)
        raise RuntimeError(f'dataclass_wizard imported from {f}')
    import logging
    logging.getLogger('dataclass_wizard').setLevel(logging.ERROR)
    from harness.props import c08, c08_e2e as E, c08_nest as N
    label = SETTINGS[k][0]
    q = 0 if tier == 'quick' else 1
    ctx = C.Ctx('C08', tier, seed)
    ctx.model_available = False
    rng = random.Random(f'C08:{seed}:proc:{k}')
    sent = [0]

    def flush(ci):
        for fl in ctx.failures[sent[0]:]:
            print(json.dumps({'ci': ci, 'kind': fl['kind'], 'case': fl['case'], 'what': fl['what'], 'key': fl.get('key'), 'detail': fl.get('detail')},
                             ensure_ascii=True, default=repr), flush=True)
        sent[0] = len(ctx.failures)

    ci = 0
    # ---- part B models
    for j in range(N_CLS[q]):
        engine = 'default' if j % 2 == 0 else 'v1'
        try:
            cm = E.gen_class(rng, engine)
        except IndexError:
            ci += 1
            continue
        docs = E.gen_docs(cm, rng, 6)
        vals = {f['name']: 1000 + 10 * n + rng.randint(0, 9) for n, f in enumerate(cm['fields'])}
        if only is None or only == ci:
            E.evaluate(ctx, cm, docs, vals, [], [])
            flush(ci)
        ci += 1
    # ---- part C histories
    for j in range(N_NEST[q]):
        try:
            sc = N.gen_scenario(rng, 'v1' if j % 2 == 0 else 'default')
        except IndexError:
            ci += 1
            continue
        if only is None or only == ci:
            sc_enc = dict(sc, docs=[E.enc_doc(d) for d in sc['docs']])

            def fail(si, what, src, sc=sc, sc_enc=sc_enc):
                ctx.fail(f'nest:{sc["cm"]["engine"]}', {'scenario': sc_enc, 'step': si}, what, detail=src)
            try:
                N.run_history(sc, fail, seen=lambda kd, si, sc_enc=sc_enc: ctx.seen(kd, [sc_enc, si]))
            except Exception as e:                     # noqa
                ctx.count('nest:build_error')
            flush(ci)
        ci += 1
    # ---- string level: canonical names in every casing
    from dataclass_wizard.utils.string_conv import to_snake_case, possible_json_keys
    for j in range(N_NAMES[q]):
        ws = c08.words(rng)
        if only is None or only == ci:
            name = '_'.join(ws)
            for cname, cf in c08.CASINGS.items():
                key = cf(ws)
                ctx.seen('casing', [name, cname])
                got = to_snake_case(key)
                if got.lower() != name:
                    ctx.fail('casing', dict(name=name, casing=cname, key=key), f'to_snake_case({key!r}) = {got!r}, does not reach field {name!r}')
            cands = set(possible_json_keys(name)) | {name}
            for cname in ('camel', 'pascal', 'kebab', 'upper_kebab', 'upper_snake', 'snake'):
                key = c08.CASINGS[cname](ws)
                if key not in cands:
                    ctx.fail('auto-keys', dict(name=name, casing=cname, key=key), f'possible_json_keys({name!r}) misses the {cname} spelling {key!r}')
            flush(ci)
        ci += 1
    print(json.dumps({'end': ctx.kind_counts, 'evaluations': ctx.evaluations, 'hashes': sorted(C.case_hash([label, h]) for h in ctx.hashes_nontrivial)}), flush=True)


if __name__ == '__main__':
    _child(int(sys.argv[1]), sys.argv[2], int(sys.argv[3]), int(sys.argv[4]) if len(sys.argv) > 4 else None)
