"""Shared helpers of the v1-engine streams of C09, C10, C12, C13 and C14.

A check module with two streams runs the (unchanged) default-engine stream first and the v1 stream second.
The v1 stream draws from its own generator, derived from (property, seed) exactly like `ctx.rng`, so that
  * the case sequence of the default stream (and every replay file that names one of its indices) is untouched,
  * the v1 sequence does not depend on how far the default stream got before a time budget ended it.
Case indices of the v1 stream start at OFFSET; a replay of such an index skips the default stream.
"""
from __future__ import annotations

import random
import time

OFFSET = 10_000_000


RUN_TAG = ''


def sub_rng(ctx, tag='v1'):
    global RUN_TAG
    # a second run in the same process (the failing-input search uses other seeds) must not define classes under the names
    # of the first: the library keys META_INITIALIZER by __qualname__ (known finding meta-initializer-by-qualname)
    RUN_TAG = '' if ctx.seed == 1 and not ctx.search else f's{ctx.seed}'
    return random.Random(f'{ctx.prop_id}:{ctx.seed}:{tag}')


class Namer:
    """class names that depend on the case index (and the run's seed) only (identical in a replay that skips other cases)"""

    def __init__(self, i):
        self.i, self.n = i, 0

    def __call__(self, prefix='K'):
        self.n += 1
        return f'{prefix}{self.i}v{self.n}{RUN_TAG}'


def run_streams(ctx, default_stream, v1_stream, share=0.5):
    """default stream, then v1 stream; under a time budget (failing-input search) each gets its share"""
    only = ctx.only
    rule = []
    if only is None or only < OFFSET:
        full = ctx.deadline
        if full is not None:
            ctx.deadline = time.time() + max(0.0, full - time.time()) * share
        try:
            default_stream(ctx)
        finally:
            ctx.deadline = full
        rule.append(ctx.rule)
    if only is None or only >= OFFSET:
        ctx.rule = ''
        v1_stream(ctx)
        rule.append('V1 STREAM: ' + ctx.rule)
    ctx.rule = ' || '.join(r for r in rule if r)


# --------------------------------------------------------------------------- the documented v1 cascade (reference side)

V1_MERGEABLE = ['v1', 'v1_key_case', 'v1_on_unknown_key', 'tag_key', 'auto_assign_tags', 'key_transform_with_dump',
                'v1_unsafe_parse_dataclass_in_union']
V1_SPECIAL = ['tag', 'recursive']


def effective(own, root):
    """effective settings of a nested class under a root Meta: own settings win, other mergeable ones come from the ROOT
    (unless the root says recursive=False), tag / recursive are never inherited"""
    own = {k: v for k, v in (own or {}).items() if v is not None}
    cfg = {} if (root is None or root.get('recursive') is False) else {k: v for k, v in root.items() if v is not None}
    eff = {}
    for k in V1_MERGEABLE:
        if k in own:
            eff[k] = own[k]
        elif k in cfg:
            eff[k] = cfg[k]
    for k in V1_SPECIAL:
        if k in own:
            eff[k] = own[k]
    return eff


def camel(n):
    parts = [p for p in n.replace('-', '_').split('_') if p]
    return parts[0].lower() + ''.join(p.title() for p in parts[1:]) if parts else n


def pascal(n):
    return ''.join(p.title() for p in n.replace('-', '_').split('_') if p)


def kebab(n):
    return n.replace('_', '-').lower()


def key_for(field, key_case):
    """the document key a v1 class expects for `field` (snake_case field names only)"""
    if key_case in (None, 'SNAKE', 'S', 'AUTO', 'A'):
        return field
    if key_case in ('CAMEL', 'C'):
        return camel(field)
    if key_case in ('PASCAL', 'P'):
        return pascal(field)
    if key_case in ('KEBAB', 'K'):
        return kebab(field)
    raise ValueError(key_case)


def unknown_keys_of(e):
    k = e.unknown_keys
    return sorted([k] if isinstance(k, str) else list(k))
