"""C15: the generator of the default-engine `cls_fromdict` as *text*.

`DW/Model/GenLoad.lean` writes the source `loaders.load_func_for_dataclass` generates: the body, the ordered closure keys and the
globals.  This stream builds seeded dataclasses over everything that generator looks at (`_pre_from_dict`, a CatchAll field with /
without default, `raise_on_unknown_json_key`, fields with JSON paths — required, defaulted, default_factory; str / int / bool path
parts —, every constructor field having a path or not, a tag / tag key next to a CatchAll field, field names equal to the template's
own variables), captures what the library generates and compares byte for byte.  Every statement of the model carries the names it
reads and binds; they are compared with Python's `ast` reading of the corresponding source line.  The function is then run on
documents that drive it through its branches (known / unknown / differently cased keys, None, a list, junk values): a NameError /
UnboundLocalError is a violation of "refers only to names it binds", and that outcome is compared with the model's scoping verdict
(theorem `C15_genload_well_scoped`).
"""
from __future__ import annotations

import ast
import dataclasses
import random

from .. import common as C, gencap

BASE = 200000
NAMES = ['a', 'b', 'my_field', 'other_value', 'x1', 'z', 'the_id']
HOSTILE = ['o', 'field', 'json_key', 'py_field', 'init_kwargs', 'catch_all', 'e', 'cls', 'py_case', 'field_to_parser', 'json_to_field',
           'ExplicitNull', 'safe_get', 'unknown_keys', 'known_keys', 'LOG', 'cls_fields', 'dict', 'isinstance', 'TypeError', 'é',
           '_default_a', 'MissingFields', 'ParseError']
TEXTS = ["it's", 'say "hi"', 'a\\b', 'k-1', 'x y', 'é', '{o}', '#', 'kind']


def path_spec(rng):
    parts, text = [], ''
    for j in range(rng.randint(1, 3)):
        r = rng.random()
        if r < 0.55 or j == 0:
            w = rng.choice(['a', 'b', 'key', 'inner', 'x_y', 'data'])
            text += ('.' if text else '') + w
            parts.append(w)
        elif r < 0.75:
            n = rng.choice([0, 1, 2, 10, -1])
            text += f'[{n}]'
            parts.append(n)
        elif r < 0.9:
            w = rng.choice(['x y', 'a.b', 'é', 'k-1', '#', "it's"])
            q = '"' if "'" in w else rng.choice('\'"')
            text += f'[{q}{w}{q}]'
            parts.append(w)
        else:
            b = rng.choice([True, False])
            text += '[true]' if b else '[false]'
            parts.append(b)
    return text, parts


def make_case(rng):
    from dataclass_wizard import path_field, CatchAll
    hostile = rng.random() < 0.3
    pool = (HOSTILE if hostile else NAMES)[:]
    rng.shuffle(pool)
    n_plain = rng.choice([0, 0, 1, 2, 3])
    n_path = rng.choice([0, 0, 1, 1, 2, 3])
    if n_plain + n_path == 0:
        n_plain = 1
    names = pool[:n_plain + n_path + 1]
    specs, paths = [], []
    req, opt = [], []
    for i in range(n_path):
        name = names[i]
        text, parts = path_spec(rng)
        kind = rng.choice(['none', 'value', 'factory'])
        if kind == 'none':
            fld = path_field(text if rng.random() < 0.7 else list(parts))
            req.append((name, int, fld))
        elif kind == 'value':
            fld = path_field(text, default=rng.choice([0, 'd', None]))
            opt.append((name, int, fld))
        else:
            fld = path_field(text, default_factory=list)
            opt.append((name, list, fld))
        paths.append({'field': name, 'path': parts, 'dflt': kind, 'req': kind == 'none'})
    for i in range(n_plain):
        name = names[n_path + i]
        if rng.random() < 0.5:
            req.append((name, int, dataclasses.field()))
        else:
            opt.append((name, int, dataclasses.field(default=rng.choice([0, 1]))))
    catch = None
    r = rng.random()
    if r < 0.4:
        cname = names[-1]
        if rng.random() < 0.5:
            opt.append((cname, CatchAll, dataclasses.field(default=None)))
            catch = [cname, True]
        else:
            req.append((cname, CatchAll, dataclasses.field()))
            catch = [cname, False]
    specs = req + opt
    # the path lines come in the order of the fields of the class
    order = [n for n, _t, _f in specs]
    paths.sort(key=lambda p: order.index(p['field']))
    meta = {}
    if rng.random() < 0.4:
        meta['raise_on_unknown_json_key'] = True
    if rng.random() < 0.3:
        meta['tag'] = rng.choice(['T', "it's"])
        if rng.random() < 0.5:
            meta['tag_key'] = rng.choice(TEXTS)
    pre = rng.random() < 0.2
    n_init = len([1 for _n, _t, f in specs if f.init])
    raise_u = bool(meta.get('raise_on_unknown_json_key'))
    loop = (len(paths) != n_init or raise_u) if paths else True
    known = bool(paths) or ('tag' in meta)
    lin = {'preFromDict': pre, 'catchAll': catch, 'raiseOnUnknown': raise_u,
           'paths': [{'field': p['field'], 'path': p['path'], 'dflt': p['dflt']} for p in paths],
           'loopOverO': loop, 'knownKeys': known}
    return {'specs': specs, 'meta': meta, 'lin': lin, 'pre': pre, 'names': order}


def describe(case):
    return {'lin': case['lin'], 'meta': case['meta'], 'fields': [(n, getattr(t, '__name__', repr(t)), repr(f)[:100]) for n, t, f in case['specs']]}


def nonprintable_of(case):
    texts = [p['field'] for p in case['lin']['paths']] + [x for p in case['lin']['paths'] for x in p['path'] if isinstance(x, str)]
    if case['lin']['catchAll']:
        texts.append(case['lin']['catchAll'][0])
    return sorted({ord(ch) for t in texts for ch in t if ord(ch) >= 127 and not ch.isprintable()})


def build_class(case, idx, seed):
    from dataclass_wizard import LoadMeta
    ns = {}
    if case['pre']:
        ns['_pre_from_dict'] = staticmethod(lambda o: o)
    cls = dataclasses.make_dataclass(f'Gl{seed}_{idx}', case['specs'], namespace=ns)
    if case['meta']:
        LoadMeta(**case['meta']).bind_to(cls)
    return cls


def documents(case, rng):
    docs = [{}, None, [1, 2], 5]
    base = {}
    for n, t, f in case['specs']:
        base[n] = rng.choice([1, 'x', None])
    for p in case['lin']['paths']:
        cur = base
        ok = True
        for part in p['path'][:-1]:
            nxt = cur.get(part) if isinstance(cur, dict) else None
            if not isinstance(nxt, dict):
                nxt = {}
                if isinstance(cur, dict):
                    cur[part] = nxt
            cur = nxt
        if isinstance(cur, dict):
            cur[p['path'][-1]] = 3
    docs.append(base)
    docs.append(dict(base, unknown_key=1, AnotherOne=[1]))
    docs.append({(k.upper() if isinstance(k, str) else k): v for k, v in base.items()})
    docs.append({k: {'deep': object} for k in base if isinstance(k, str)})
    if 'tag_key' in case['meta'] or 'tag' in case['meta']:
        docs.append(dict(base, **{case['meta'].get('tag_key', '__tag__'): case['meta'].get('tag')}))
    return docs


def names_of_line(text):
    """per simple statement of a physical line: (loads, stores) as sorted lists"""
    src = text.strip()
    out = []
    if src.startswith(('if ', 'elif ', 'for ', 'except', 'try:', 'else:')):
        head = src
        if head.startswith('elif '):
            head = 'if ' + head[5:]
        if head.startswith('except'):
            # `except X as e:` : X is read, e is bound
            rest = head[len('except'):].rstrip(':').strip()
            name, _, alias = rest.partition(' as ')
            return [(sorted({name.strip()}) if name.strip() else [], sorted({alias.strip()}) if alias.strip() else [])]
        if head in ('try:', 'else:'):
            return []
        tree = ast.parse(head + '\n  pass')
        node = tree.body[0]
        if isinstance(node, ast.For):
            loads = {n.id for n in ast.walk(node.iter) if isinstance(n, ast.Name)}
            stores = {n.id for n in ast.walk(node.target) if isinstance(n, ast.Name)}
            return [(sorted(loads), sorted(stores))]
        loads = {n.id for n in ast.walk(node.test) if isinstance(n, ast.Name)}
        return [(sorted(loads), [])]
    if src.startswith('#'):
        return []
    tree = ast.parse('def _f():\n ' + src)
    for st in tree.body[0].body:
        loads = {n.id for n in ast.walk(st) if isinstance(n, ast.Name) and isinstance(n.ctx, ast.Load)}
        stores = {n.id for n in ast.walk(st) if isinstance(n, ast.Name) and isinstance(n.ctx, ast.Store)}
        out.append((sorted(loads), sorted(stores)))
    return out


def model_names(stmts):
    """the same shape from the model's statement list (comments / try: / else: carry no names)"""
    out = []
    for s in stmts:
        if s['kind'] == 'line':
            out.append([(sorted(set(p['reads'])), sorted(set(p['writes']))) for p in s['parts']])
        elif s['kind'] == 'exit':
            out.append([(sorted(set(s['reads'])), [])])
        else:
            out.append([(sorted(set(s['reads'])), sorted(set(s.get('writes', []))))])
    return out


def run_genload(ctx: C.Ctx):
    from dataclass_wizard import fromdict
    if ctx.only is not None and not (BASE <= ctx.only < BASE + 100000):
        return
    ctx.trusted += ['generator model DW/Model/GenLoad.lean: statements carry their text and the names they read / bind (compared with '
                    "Python's ast reading of every source line); the scoping checker is a reading of Python (if / elif / else, for, try / "
                    'except, statements that do not fall through); tied to the code by byte-for-byte comparison of body, closure keys, globals']
    rng = random.Random(f'C15gl:{ctx.seed}')
    n_cases = ctx.quick(300, 5000)
    cap = gencap.Capture()
    cases, reqs = [], []
    with cap.on():
        for i in range(n_cases):
            case = make_case(rng)
            seed_i = rng.random()
            idx = BASE + i
            if ctx.only is not None and idx != ctx.only:
                continue
            case['index'] = idx
            try:
                cls = build_class(case, i, ctx.seed)
            except Exception:     # noqa
                ctx.count('genload:class-not-built')
                continue
            n0 = len(cap.batches)
            errs = []
            for doc in documents(case, random.Random(seed_i)):
                try:
                    fromdict(cls, doc)
                except (NameError, SyntaxError) as e:
                    errs.append(f'{type(e).__name__}: {e}')
                except Exception:    # noqa
                    pass
            fns = [b for b in cap.batches[n0:] if 'cls_fromdict' in b['functions']]
            del cap.batches[n0:]
            case['captured'] = fns[0] if fns else None
            case['run_errors'] = sorted(set(errs))[:3]
            cases.append(case)
            reqs.append({'op': 'genload', 'nonprintable': nonprintable_of(case), 'lin': case['lin']})
    outs = ctx.driver.run(reqs) if ctx.model_available else [None] * len(reqs)
    for case, out in zip(cases, outs):
        ctx.current = case['index']
        d = describe(case)
        lin = case['lin']
        feats = '+'.join(k for k, on in (('pre', lin['preFromDict']), ('catchall', bool(lin['catchAll'])), ('raise', lin['raiseOnUnknown']),
                                         ('paths', bool(lin['paths'])), ('noloop', not lin['loopOverO'])) if on) or 'plain'
        ctx.seen('genload:' + feats, d)
        capd = case['captured']
        if capd is None:
            ctx.count('genload:not-captured')
            continue
        f = capd['functions']['cls_fromdict']
        probs, bound, referenced = gencap.scope_report('cls_fromdict', f, capd['globals'], set(capd['functions']))
        bad = case['run_errors']
        if bad:
            ctx.fail('genload:run', d, 'the generated cls_fromdict refers to a name it does not bind: ' + '; '.join(bad),
                     detail={'code': f['code']})
        elif probs:
            ctx.fail('genload:scope', d, 'generated cls_fromdict: ' + '; '.join(probs)[:300], detail={'code': f['code']})
        if out is None:
            continue
        if 'err' in out:
            ctx.agree('genload', d, {'code': f['code']}, {'driver-error': out['err']})
            continue
        r = out['r']
        impl = {'code': f['code'], 'locals': f.get('locals_ordered'), 'globals': sorted(capd['globals'])}
        mdl = {'code': r['code'], 'locals': r['locals'], 'globals': sorted(r['globals'])}
        if not ctx.agree('genload:text', d, impl, mdl):
            continue
        # the names the model declares for every statement vs Python's reading of the source line
        src_names = [x for x in (names_of_line(line) for line in f['code'].split('\n')) if x]
        ctx.agree('genload:names', d, src_names, model_names(r['stmts']))
        ctx.agree('genload:verdict', d, {'wellScoped': not bad and not probs}, {'wellScoped': r['wellScoped']})
    ctx.notes['genload_cases'] = len(cases)
