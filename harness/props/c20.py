"""C20 — concurrent first use and concurrent calls give the sequential results.

Oracle: for every scenario (2..4 threads, each one library call over shared, freshly defined classes) and every explored
schedule, the tuple of per-call outcomes (and of the follow-up calls made afterwards) is one a sequential order
produces.  Schedules: every single pre-emption "A runs k events, the others run to completion, A resumes" at (quick)
the first and last occurrence of every distinct library / generated-code line A executes plus a stride, (thorough) every
line event; seeded double pre-emptions and multi-thread plans; opcode-granular pre-emption for the short calls.
Generated scenario families (FAMILIES) add schedule kinds of their own: `tables` (two pre-emptions at accesses of a shared
class_helper table), `helper-opcode` (every bytecode of the short helper modules), `setup-lines` (every line of class_helper.py),
`module-lines` (inside the import of a lazily loaded optional module, started from a process that has not imported it).
Correspondence: the Lean interleaving model, run with the discipline flags the translator reads off the source, has a
failing single-pre-emption schedule iff the implementation has one for the scenario anchored at that site.
"""
from __future__ import annotations

import itertools
import json
import os
import time

from harness import common as C
from harness import sched

PRELUDE = '''
from __future__ import annotations
import os
from dataclasses import dataclass, field
from datetime import datetime, date, time, timedelta, timezone
from decimal import Decimal
from typing import *
from uuid import UUID
from dataclass_wizard import *
from dataclass_wizard import fromdict, asdict, JSONWizard, json_field, json_key, LoadMeta, DumpMeta, EnvWizard
from harness.subtypes import *
'''

SCENARIOS = [
    dict(name='first-dump-aliases', site='class_helper.setup_dump_config_for_cls_if_needed', nfields=6, src=PRELUDE + '''
@dataclass
class A(JSONWizard):
    class _(JSONWizard.Meta):
        skip_defaults = False
    first_name: str
    plain_two: int
    second_val: int = json_field('SECOND', all=True, default=2)
    third_val: Annotated[str, json_key('TH3', all=True)] = 'x'
    when_at: datetime = datetime(2020, 1, 2, 3, 4, 5)
    hidden_val: int = json_field('hid', dump=False, default=3)
''', threads=['asdict(A("a", 1, 5, "t"))', 'A("b", 2).to_dict()'], post=['asdict(A("c", 3))', 'A.from_dict({"first_name": "q", "plainTwo": 1, "SECOND": 7}).to_dict()']),

    dict(name='first-dump-skip-if', site='class_helper.setup_dump_config_for_cls_if_needed', nfields=4, src=PRELUDE + '''
@dataclass
class A(JSONWizard):
    class _(JSONWizard.Meta):
        key_transform_with_dump = 'SNAKE'
    first_name: str
    my_str: 'str | None' = skip_if_field(IS(None), default=None)
    other_int: Annotated[int, SkipIf(EQ(0))] = 0
    path_val: int = path_field('x.y', default=4)
''', threads=['asdict(A("a"))', 'asdict(A("b", "s", 3, 9))'], post=['asdict(A("c", None, 0, 1))']),

    dict(name='first-load-same-class', site=None, nfields=0, src=PRELUDE + '''
@dataclass
class In:
    some_key: int
    when_at: datetime

@dataclass
class A(JSONWizard):
    my_field: int
    inner_obj: In
    items_list: list[In] = field(default_factory=list)
    alias_val: str = json_field(('ALIAS', 'alias2'), default='d')
''', threads=['fromdict(A, {"myField": "3", "innerObj": {"someKey": 1, "whenAt": "2020-01-02T03:04:05"}, "ALIAS": "x"})',
              'A.from_dict({"my_field": 4, "inner_obj": {"some_key": "2", "when_at": 86400}, "itemsList": [{"SomeKey": 5, "when-at": "2021-01-01"}], "alias2": "y"})'],
         post=['fromdict(A, {"MyField": 1, "InnerObj": {"some-key": 1, "whenAt": 0}})', 'asdict(A(1, In(2, datetime(2020, 1, 1))))']),

    dict(name='new-key-spelling', site=None, nfields=0, src=PRELUDE + '''
@dataclass
class B:
    retry_count: int
    other_field: str = 'dflt'
    third_one: bool = False
''', pre=['fromdict(B, {"retry_count": 1, "other_field": "x"})'],
         threads=['fromdict(B, {"retryCount": 2, "OtherField": "y", "third-one": "yes"})', 'fromdict(B, {"retryCount": 3, "OtherField": "z", "ThirdOne": 1})'],
         post=['fromdict(B, {"retryCount": 4, "OtherField": "w", "third-one": "true"})'], opcode=True),

    dict(name='new-key-spelling-unknown', site=None, nfields=0, src=PRELUDE + '''
@dataclass
class B(JSONWizard):
    class _(JSONWizard.Meta):
        raise_on_unknown_json_key = True
    retry_count: int
    other_field: str = 'dflt'
''', pre=['fromdict(B, {"retry_count": 1, "other_field": "x"})'],
         threads=['fromdict(B, {"retryCount": 2, "bogusKey": 1})', 'fromdict(B, {"retryCount": 3, "OtherField": "z"})', 'fromdict(B, {"RetryCount": 5, "bogusKey": 2})'],
         post=['fromdict(B, {"retryCount": 4, "OtherField": "w"})'], opcode=True),

    dict(name='new-value-subtype', site='dumpers._asdict_inner', nfields=0, src=PRELUDE + '''
@dataclass
class Cv:
    vals: list
    any_val: Any = None
''', pre=['asdict(Cv([1, "a"]))'],
         threads=['asdict(Cv([SubDateTime(2020, 1, 2, 3, 4, 5)], SubDecimal("1.5")))', 'asdict(Cv([SubDecimal("2.5"), SubUUID(int=5)]))',
                  'asdict(Cv([SubDate(2020, 1, 2), SubTime(1, 2, 3)], SubDateTime(2021, 1, 1)))'],
         post=['asdict(Cv([SubDateTime(2022, 1, 1), SubDecimal("3"), SubUUID(int=6), SubDate(2020, 5, 5), SubTime(4, 5, 6)]))'], opcode=True),

    dict(name='env-first-instantiation', site='environ.lookups.Env.load_environ', nfields=2, env={'MY_VAR': '5', 'OTHER_VAR': 'zed', 'third_one': '1.5'}, src=PRELUDE + '''
class E(EnvWizard):
    my_var: int
    other_var: str = 'd'
    third_one: float = 0.0

class E2(EnvWizard):
    class _(EnvWizard.Meta):
        key_lookup_with_load = 'PASCAL'
    other_var: str
    my_var: int = 0
''', threads=['E().dict()', 'E2().dict()'], post=['E().dict()', 'E2().dict()']),

    dict(name='shared-nested-load-and-dump', site=None, nfields=0, src=PRELUDE + '''
@dataclass
class In:
    some_key: int = 1
    when_at: datetime = datetime(2020, 1, 2)

@dataclass
class A2(JSONWizard):
    inner_obj: In
    my_val: int = 2

@dataclass
class B2(JSONWizard):
    inner_list: list[In]
    other_val: str = 's'
''', threads=['A2.from_dict({"innerObj": {"someKey": "5"}, "myVal": "3"})', 'B2([In(2), In(3)]).to_dict()', 'A2(In(9)).to_dict()'],
         post=['B2.from_dict({"inner_list": [{"some_key": 1}]})', 'asdict(A2(In(1)))']),

    dict(name='v1-first-use', site='class_helper._setup_v1_load_config_for_cls', nfields=4, src=PRELUDE + '''
from dataclass_wizard.v1 import Alias

@dataclass
class V(JSONWizard):
    class _(JSONWizard.Meta):
        v1 = True
        v1_key_case = 'AUTO'
    my_field: int
    other_str: str = Alias('OTHER', default='d')
    when_at: Optional[datetime] = None
    vals_list: list[int] = field(default_factory=list)
''', threads=['V.from_dict({"myField": 3, "OTHER": "x", "valsList": [1, 2]})', 'fromdict(V, {"my_field": 4, "when_at": "2020-01-02T00:00:00"})'],
         post=['V.from_dict({"MyField": 5, "OTHER": "q"})', 'V(1).to_dict()']),

    dict(name='v1-subtypes-and-catchall', site=None, nfields=0, src=PRELUDE + '''
class Money(Decimal):
    pass

class Ratio(float):
    pass

@dataclass
class W(JSONWizard):
    class _(JSONWizard.Meta):
        v1 = True
    amount: Money
    rest: CatchAll
    ratio: Ratio = Ratio(0.5)
    span: timedelta = timedelta(0)

@dataclass
class W2(JSONWizard):
    class _(JSONWizard.Meta):
        v1 = True
    inner: W
    n: int = 0
''', threads=['W.from_dict({"amount": "1.50", "ratio": 2, "zz": 1, "span": "1:00:00"})', 'fromdict(W, {"amount": 2, "extra": [1], "ratio": "0.25"})',
              'W2.from_dict({"inner": {"amount": "3", "k": "v"}, "n": "4"})'],
         post=['W.from_dict({"amount": "9", "ratio": 1, "q": 0}).to_dict()', 'W2.from_dict({"inner": {"amount": "1"}}).to_dict()']),

    dict(name='tagged-union-first-use', site=None, nfields=0, src=PRELUDE + '''
@dataclass
class M1(JSONWizard):
    class _(JSONWizard.Meta):
        tag = 'one'
    val_one: int

@dataclass
class M2(JSONWizard):
    class _(JSONWizard.Meta):
        tag = 'two'
    val_one: int

@dataclass
class R(JSONWizard):
    class _(JSONWizard.Meta):
        tag_key = 'kind'
    member_fld: Union[M1, M2, None]
''', threads=['R.from_dict({"memberFld": {"kind": "two", "valOne": 1}})', 'R(M1(5)).to_dict()', 'R.from_dict({"member_fld": {"kind": "one", "val_one": "7"}})'],
         post=['R(M2(1)).to_dict()', 'R.from_dict({"memberFld": None})']),

    dict(name='load-and-dump-same-class', site=None, nfields=0, src=PRELUDE + '''
@dataclass
class L(JSONWizard):
    class _(JSONWizard.Meta):
        key_transform_with_dump = 'LISP'
        marshal_date_time_as = 'TIMESTAMP'
    some_val: int
    when_at: datetime
    opt_td: Optional[timedelta] = None
''', threads=['L.from_dict({"someVal": "1", "whenAt": "2020-01-02T03:04:05Z"})', 'L(2, datetime(2020, 1, 2, tzinfo=timezone.utc), timedelta(seconds=5)).to_dict()',
              'L.from_json(\'{"some-val": 3, "when-at": 5}\').to_json()', 'asdict(L(4, datetime(2021, 1, 1, tzinfo=timezone.utc)))'],
         post=['L(9, datetime(2020, 1, 2, tzinfo=timezone.utc)).to_dict()']),
]


# ---------------------------------------------------------------------------------------------------------------
# generated scenario families (shapes drawn from the case RNG; `plans` = the schedule kinds explored for them)
_WORDS = ['customer', 'order', 'total', 'retry', 'count', 'device', 'zone', 'label', 'price', 'width', 'owner', 'batch', 'level', 'score']
_MEMBERS = ['Cat', 'Dog', 'Bird', 'Fish', 'Newt']


def _fname(rng, used, parts=2):
    while True:
        n = '_'.join(rng.sample(_WORDS, parts))
        if n not in used:
            used.add(n)
            return n


def _spell(rng, name, avoid=()):
    """a key spelling of field `name` that is not the field name itself"""
    ws = name.split('_')
    forms = [ws[0] + ''.join(w.title() for w in ws[1:]), ''.join(w.title() for w in ws), '-'.join(ws),
             '-'.join(w.title() for w in ws), '_'.join(w.title() for w in ws), ws[0].upper() + '_' + '_'.join(ws[1:]), ' '.join(ws)]
    forms = [f for f in forms if f not in avoid and f != name]
    return rng.choice(forms)


def gen_auto_tag_dump_vs_load(rng, k):
    """first DUMP of a class whose Meta has auto_assign_tags (root with a Union of dataclasses) concurrent with the first
    LOAD of the same class; schedules: two pre-emptions, each placed at an access of one of the shared per-class tables.
    (Shapes kept out: a member class referenced outside the Union before it — findings/auto-tag-reference-before-union.py;
    load settings bound after a first dump — findings/dump-first-auto-tags-stale-nested-loaders.py.)"""
    members = rng.sample(_MEMBERS, rng.randint(2, 3))
    used = set()
    mf = _fname(rng, used)
    uf = _fname(rng, used)
    xf = _fname(rng, used)
    style = ['own', 'base', 'bound'][k % 3]
    src = PRELUDE
    for m in members:
        src += f'\n@dataclass\nclass {m}:\n    {mf}: str\n    other_num: int = 0\n'
    union = 'Union[' + ', '.join(members + (['None'] if rng.random() < 0.4 else [])) + ']'
    body = f'    {uf}: {union}\n    {xf}: int = 0\n'
    if style == 'own':
        src += f'\n@dataclass\nclass R(JSONWizard):\n    class _(JSONWizard.Meta):\n        auto_assign_tags = True\n{body}'
    elif style == 'base':
        src += ('\n@dataclass\nclass Base(JSONWizard):\n    class _(JSONWizard.Meta):\n        auto_assign_tags = True\n'
                f'        tag_key = "kind"\n\n@dataclass\nclass R(Base):\n{body}')
    else:
        src += f'\n@dataclass\nclass R:\n{body}\nDumpMeta(auto_assign_tags=True).bind_to(R)\nLoadMeta(auto_assign_tags=True).bind_to(R)\n'
    tag = 'kind' if style == 'base' else '__tag__'
    a, b = members[0], members[1]
    key_m = _spell(rng, mf)
    dump = f'asdict(R({a}("v{k}"), 3))' if style == 'bound' or rng.random() < 0.5 else f'R({a}("v{k}"), 3).to_dict()'
    doc = f'{{"{uf}": {{"{tag}": "{b}", "{key_m}": "w", "other_num": "4"}}, "{xf}": "5"}}'
    load = f'fromdict(R, {doc})' if style == 'bound' or rng.random() < 0.5 else f'R.from_dict({doc})'
    threads = [dump, load]
    if rng.random() < 0.5:
        threads.reverse()
    post = [f'fromdict(R, {{"{uf}": {{"{tag}": "{a}", "{mf}": "p"}}}})', f'asdict(R({b}("q")))']
    return dict(name=f'auto-tags-first-dump-vs-first-load-{style}', site=None, nfields=0, src=src, threads=threads, post=post,
                plans=('tables', 'multi'), n_multi=20)


HELPER_FILES = ['utils/string_conv.py', 'utils/type_conv.py', 'utils/object_path.py']


def gen_unrelated_classes_new_keys(rng, k):
    """two threads use two UNRELATED classes (no class of one is reachable from the other) whose documents present key
    spellings never seen before, after a warm-up in which a third class met one of those spellings; the only state the
    threads can share lives in the short pure helpers (key-case conversion, value conversion, path access).  Pre-emption at
    every bytecode of the helper modules' frames; the outcome includes a later sequential use of both classes (a poisoned
    memo / key cache shows afterwards).  Modes: both load; both make their first dump under a key transform; one of each."""
    mode = ['load', 'dump', 'mixed'][k % 3]
    used = set()
    f1, f2, f3 = _fname(rng, used), _fname(rng, used), _fname(rng, used)
    g1 = f2 if rng.random() < 0.6 else _fname(rng, used)     # the other class may or may not have a field of the same name
    g2 = _fname(rng, used)
    extras = rng.sample([('flag_x', 'bool', 'False', '"yes"'), ('when_x', 'Optional[datetime]', 'None', '"2021-02-03T04:05:06"'),
                         ('span_x', 'timedelta', 'timedelta(0)', '"90"'), ('ratio_x', 'float', '0.0', '"2.5"'),
                         ('day_x', 'Optional[date]', 'None', '"2020-01-02"')], 2)
    tr = rng.choice(['CAMEL', 'PASCAL', 'LISP', 'SNAKE'])
    meta = f'    class _(JSONWizard.Meta):\n        key_transform_with_dump = {tr!r}\n'
    src = PRELUDE
    src += f'\n@dataclass\nclass W(JSONWizard):\n{meta}    {f1}: int = 0\n'
    src += f'\n@dataclass\nclass P(JSONWizard):\n{meta}    {f1}: int = 0\n    {f2}: int = 0\n    {f3}: str = "s"\n'
    for n, t, d, _v in extras:
        src += f'    {n}: {t} = {d}\n'
    src += f'    deep_x: int = path_field("{g2}.b", default=0)\n'
    src += f'\n@dataclass\nclass Q(JSONWizard):\n{meta}    {g1}: int = 0\n    {g2}: str = "t"\n'
    k1 = _spell(rng, f1)
    k2 = _spell(rng, f2)
    k3 = _spell(rng, f3)
    q1 = _spell(rng, g1, avoid=(k2,))
    q2 = _spell(rng, g2)
    ex = ', '.join(f'"{_spell(rng, n)}": {v}' for n, _t, _d, v in extras)

    def p_doc(i):
        return f'{{"{k1}": "{i}", "{k3}": "z{i}", {ex}, "{g2}": {{"b": "{i + 1}"}}}}'

    def q_doc(i):
        return f'{{"{q1}": "{i}", "{q2}": "y{i}"}}'
    load_p, load_q = f'fromdict(P, {p_doc(5)})', f'Q.from_dict({q_doc(9)})'
    dump_p, dump_q = 'P(1, 2, "a").to_dict()', 'asdict(Q(3, "b"))'
    if mode == 'load':
        pre, threads = [f'fromdict(W, {{"{k1}": 1}})'], [load_p, load_q]
    elif mode == 'dump':
        pre, threads = ['W(1).to_dict()'], [dump_p, dump_q]
    else:
        pre, threads = [f'fromdict(W, {{"{k1}": 1}})', 'W(1).to_dict()'], ([load_p, dump_q] if rng.random() < 0.5 else [dump_p, load_q])
    if rng.random() < 0.5:
        threads.reverse()
    post = [f'fromdict(P, {p_doc(6)})', f'fromdict(Q, {q_doc(7)})', 'asdict(P(4, 5, "c"))', 'Q(6, "d").to_dict()',
            f'fromdict(P, {{"{k2}": 8}})']
    return dict(name=f'unrelated-classes-new-keys-{mode}', site=None, nfields=0, src=src, pre=pre, threads=threads, post=post,
                opcode=True, opcode_files=HELPER_FILES, plans=('helper-opcode',))


def gen_v1_alias_first_use(rng, k):
    """v1 class whose fields carry Alias / AliasPath / Annotated[.., Alias] settings (required and defaulted, load-only,
    several load names): two threads make the very first use concurrently (two loads, or a load and a dump), every document
    presents every aliased key, so a function generated from a half-filled alias table shows in the result.  Schedules:
    a pre-emption at EVERY line event inside class_helper.py (the per-class set-up loops: one partial state per field), not
    only at the first / last occurrence of a line.  (Kept out: two AliasPath fields under one top-level key —
    findings/v1-aliaspath-shared-top-key-count.py; an absent required path — findings/required-path-absent-parse-error.py.)"""
    used = set()
    names = [_fname(rng, used) for _ in range(6)]
    req, dfl = [], []
    docs = [{}, {}, {}]
    ctor = []
    # (kind, required?)
    mode = ['load-load', 'load-dump'][k % 2]
    shapes = [('plain', True), ('alias', True), ('alias', False), ('ann', False), ('path', False), ('loadonly', False)]
    if mode == 'load-dump':
        # an AliasPath field + first dump during the first load: KeyError out of the dump on the unchanged library
        # (findings/v1-aliaspath-first-dump-during-first-load.py) — kept out until it is decided
        shapes = [x for x in shapes if x[0] != 'path'] + [('alias', False)]
    rng.shuffle(shapes)
    if rng.random() < 0.5:
        shapes.append(('alias2', False))
        names.append(_fname(rng, used))
    for i, ((kind, required), n) in enumerate(zip(shapes, names)):
        key = _spell(rng, n).replace(' ', '') + str(i)
        if kind == 'plain':
            line, keys = f'    {n}: int', [n]
        elif kind == 'alias':
            line = f'    {n}: int = Alias({key!r})' if required else f'    {n}: int = Alias({key!r}, default={i})'
            keys = [key]
        elif kind == 'alias2':
            line, keys = f'    {n}: int = Alias({key!r}, {key.upper()!r}, default={i})', [key, key.upper()]
        elif kind == 'ann':
            line, keys = f'    {n}: Annotated[int, Alias({key!r})] = {i}', [key]
        elif kind == 'loadonly':
            line, keys = f'    {n}: int = Alias(load={key!r}, default={i})', [key]
        else:
            line, keys = f'    {n}: int = AliasPath("top_{i}.{key}", default={i})', None
        (req if required else dfl).append(line)
        for j, d in enumerate(docs):
            v = 10 * (j + 1) + i
            if keys is None:
                d[f'top_{i}'] = {key: v}
            else:
                d[keys[j % len(keys)]] = v if (i + j) % 2 else str(v)
        if required:
            ctor.append(str(i + 1))
    case = rng.choice([None, 'AUTO', 'CAMEL', 'SNAKE'])
    if case in ('CAMEL',):
        for d in docs:
            for (kind, _r), n in zip(shapes, names):
                if kind == 'plain':
                    ws = n.split('_')
                    d[ws[0] + ''.join(w.title() for w in ws[1:])] = d.pop(n)
    meta = '        v1 = True\n' + (f'        v1_key_case = {case!r}\n' if case else '')
    src = PRELUDE + 'from dataclass_wizard.v1 import Alias, AliasPath\n'
    src += f'\n@dataclass\nclass V(JSONWizard):\n    class _(JSONWizard.Meta):\n{meta}' + '\n'.join(req + dfl) + '\n'
    t0 = f'V.from_dict({docs[0]!r})' if rng.random() < 0.5 else f'fromdict(V, {docs[0]!r})'
    t1 = f'fromdict(V, {docs[1]!r})' if mode == 'load-load' else f'V({", ".join(ctor)}).to_dict()'
    threads = [t0, t1]
    if rng.random() < 0.5:
        threads.reverse()
    post = [f'V.from_dict({docs[2]!r})', f'asdict(V({", ".join(ctor)}))']
    return dict(name=f'v1-alias-first-use-{mode}', site=None, nfields=0, src=src, threads=threads, post=post,
                plans=('setup-lines', 'multi'), n_multi=20)


def gen_lazy_module_first_use(rng, k):
    """optional third-party modules the library imports lazily on first need (utils/lazy_loader.py: pytimeparse for duration
    strings, tomli_w for to_toml, yaml for YAML): the threads start in a process in which the module has NOT been imported
    (the child drops it from sys.modules and resets the library's LazyLoader objects) and both need it at once.  Schedules:
    a pre-emption at the line events INSIDE the import (the module's own top-level code) and inside lazy_loader.py; a thread
    that then blocks on the module's import lock is set aside by the scheduler.  An error such as AttributeError 'partially
    initialized module' is one no sequential order produces."""
    which = ['pytimeparse', 'tomli_w', 'pytimeparse-v1', 'yaml'][k % 4]
    used = set()
    f1, f2 = _fname(rng, used), _fname(rng, used)
    src = PRELUDE
    pre = []
    if which.startswith('pytimeparse'):
        v1 = '    class _(JSONWizard.Meta):\n        v1 = True\n' if which.endswith('v1') else ''
        shape = rng.choice(['timedelta', 'Optional[timedelta]', 'list[timedelta]'])
        src += f'\n@dataclass\nclass T(JSONWizard):\n{v1}    {f1}: {shape}\n    {f2}: int = 0\n'
        durs = rng.sample(['1h30m', '2 days', '45s', '1:30:00', '3 weeks 2 hours', '1.5 min', '4h'], 3)

        def doc(d, i):
            return f'{{"{f1}": {[d] if shape.startswith("list") else d!r}, "{f2}": {i}}}'
        if rng.random() < 0.5:      # the class itself already in use (numeric durations need no parser)
            pre = [f'T.from_dict({doc(90, 0)})']
        threads = [f'T.from_dict({doc(durs[0], 1)})', f'fromdict(T, {doc(durs[1], 2)})']
        post = [f'T.from_dict({doc(durs[2], 3)})']
        mods = ['pytimeparse']
    elif which == 'tomli_w':
        src += f'\n@dataclass\nclass T(TOMLWizard):\n    {f1}: str\n    {f2}: int = 0\n'
        threads = ['T("a", 1).to_toml()', 'T("b").to_toml()']
        post = ['T("c", 3).to_toml()', f'T.from_toml("{f1} = \\"d\\"")']
        mods = ['tomli_w']
    else:
        src += f'\n@dataclass\nclass T(YAMLWizard):\n    {f1}: str\n    {f2}: int = 0\n'
        threads = [f'T.from_yaml("{f1}: a\\n{f2}: 1\\n")', 'T("b", 2).to_yaml()']
        post = ['T("c", 3).to_yaml()']
        mods = ['yaml']
    if rng.random() < 0.5:
        threads.reverse()
    return dict(name=f'lazy-module-first-use-{which}', site=None, nfields=0, src=src, pre=pre, threads=threads, post=post,
                fresh_modules=mods, plans=('module-lines',))


def gen_env_overlay_instantiations(rng, k):
    """EnvWizard classes whose variables come from PER-CALL overlays: every thread instantiates a class of its own with a
    secrets directory and / or a dotenv file of its own (`_secrets_dir=`, `_env_file=`), so every thread adds names of its own
    to the process-wide tables (the environment copy, Env.var_names, Env.cleaned_to_env) at the same time.  Variables are spelled at
    the exact tiers or only reachable through the cleaned tier, some fields are explicitly mapped (env_field: exact lookup
    only), some have defaults and no variable.  The threads start after a warm-up instantiation: mode `plain` - nothing has read
    Env.cleaned_to_env and no thread will (every variable at an exact tier or explicitly mapped, every field has one), so a name
    lost from Env.var_names shows in the follow-up calls; mode `cleaned` - the warm-up has read it, any spelling and defaulted
    fields without variable occur.  The follow-up calls instantiate every class again WITHOUT an overlay - what a call read from
    its overlay stays in the library's copy of the environment in every sequential order - and once more with it.
    (Kept out: threads that make the very FIRST use of the environment tables - findings/env-first-use-during-overlay-instantiation.py;
    a thread that reads Env.cleaned_to_env for the first time - findings/env-cleaned-first-build-during-reload.py; `_reload=True` in a
    thread, which replaces the copy wholesale: the sequential orders then differ among themselves.)"""
    warm = ['plain', 'cleaned'][k % 2]
    nthr = 2 if rng.random() < 0.7 else 3
    used = set()
    files, env, src, threads, post_plain, post_over = {}, {}, PRELUDE, [], [], []
    dirs = []
    wname = _fname(rng, used)
    env[wname.upper()] = 'w'
    src += f'\nclass Warm(EnvWizard):\n    {wname}: str\n' + (f'    {_fname(rng, used)}: str = "nothing"\n' if warm == 'cleaned' else '')
    for i in range(nthr):
        kinds = rng.sample(['secret', 'dotenv'], rng.choice([1, 1, 2]))
        body, val = '', 0
        nf = rng.randint(1, 3)
        for j in range(nf):
            n = _fname(rng, used)
            source = rng.choice(kinds) if j == 0 else rng.choice(kinds + kinds + ['os'] + (['default'] if warm == 'cleaned' else []))
            val += 1
            v = f'v{i}{j}'
            if source == 'default':
                body += f'    {n}: str = "d{i}{j}"\n'
                continue
            x = rng.random()
            if x < 0.25:
                var = f'CUSTOM_{i}{j}_{n.upper()[:4]}'
                body += (f'    {n}: str = env_field({var!r})\n' if j == 0 or rng.random() < 0.5
                         else f'    {n}: str = env_field({var!r}, default="d{i}{j}")\n')
            else:
                var = n.upper() if x < 0.6 else n if x < 0.75 or warm == 'plain' else _spell(rng, n).replace(' ', '-')
                body += f'    {n}: str\n' if j == 0 or rng.random() < 0.6 else f'    {n}: str = "d{i}{j}"\n'
            if source == 'secret':
                files[f's{i}/{var}'] = v
            elif source == 'dotenv':
                files[f'f{i}.env'] = files.get(f'f{i}.env', '') + f'{var}={v}\n'
            else:
                env[var] = v
        # required fields first (dataclass rule)
        lines = body.splitlines(True)
        lines.sort(key=lambda ln: ('=' in ln and 'default=' in ln) or (' = "' in ln))
        src += f'\nclass C{i}(EnvWizard):\n' + ''.join(lines)
        args = []
        if 'secret' in kinds:
            args.append(f'_secrets_dir=os.path.join(TMP, "s{i}")')
            dirs.append(f's{i}')
        if 'dotenv' in kinds:
            args.append(f'_env_file=os.path.join(TMP, "f{i}.env")')
            files.setdefault(f'f{i}.env', '')
        if len(args) == 2 and rng.random() < 0.5:
            args.reverse()
        threads.append(f'C{i}({", ".join(args)}).dict()')
        post_plain.append(f'C{i}().dict()')
        post_over.append(threads[-1])
    rng.shuffle(post_plain)
    pre = ['Warm().dict()']
    return dict(name=f'env-overlays-per-thread-warm-{warm}', site=None, nfields=0, src=src, env=env, files=files, dirs=dirs, pre=pre,
                threads=threads, post=post_plain + ['Warm().dict()'] + post_over, n_multi=40)


# every scenario ends with the FIRST USE (load, then dump) of a class that no thread and no earlier call has touched, made - like
# all follow-up calls - from a thread that is none of the scenario's threads: whatever the schedule, the library is as usable
# for the rest of the program as after a sequential order
PROBE_SRC = '''
@dataclass
class ProbeInner_:
    some_num: int = 0

@dataclass
class Probe_:
    probe_val: int
    probe_inner: ProbeInner_
    probe_list: List[str] = field(default_factory=list)
'''
PROBE_POST = ['fromdict(Probe_, {"probeVal": "7", "probe_inner": {"someNum": "1"}, "probe_list": [1]})',
              'asdict(Probe_(1, ProbeInner_(2), ["x"]))']


def with_probe(scn):
    return dict(scn, src=scn['src'] + PROBE_SRC, post=list(scn.get('post') or []) + PROBE_POST)


def _job(item):
    scn, plan, opcode, record = item
    return sched.run_case_in_child(scn, plan, opcode=opcode, record=record)


def seq_plans(n):
    return [[(t, sched.INF) for t in perm] for perm in itertools.permutations(range(n))]


def switch_points(log, quick):
    """event numbers (1-based: 'run k events then switch' pre-empts before event k+1) worth pre-empting at"""
    n = len(log)
    if not quick:
        return list(range(1, n))
    first, last = {}, {}
    for i, ev in enumerate(log):
        first.setdefault(ev, i)
        last[ev] = i
    pts = set(first.values()) | set(last.values()) | set(range(0, n, max(1, n // 40)))
    return sorted(p for p in pts if 1 <= p < n)


def table_plans(first_logs, nthr, rng, quick, cap):
    """two pre-emptions placed at accesses of one shared per-class table X: thread a runs up to its m-th access of X, thread b
    (on the state a left) up to its n-th access of X, then a runs to the end, then b.  The lines that access a table are read
    off the source (sched.table_touch_lines).  X ranges over the tables both threads access and at least one of them writes;
    m over a's accesses when it runs first, n over b's and one more (b's path on a's half-done state may be longer).
    Quick tier: the first and last occurrence of every distinct accessing line, and for b also its first three accesses
    (those of the root class the threads share)."""
    touch = sched.table_touch_lines()
    cnt, writes, pts = [], [], []
    for log in first_logs:
        c, w, first, last = {}, set(), {}, {}
        for ev in log:
            for x, wr in touch.get((ev[0], ev[1]), {}).items():
                c[x] = c.get(x, 0) + 1
                if wr:
                    w.add(x)
                first.setdefault((x, ev[0], ev[1]), c[x])
                last[(x, ev[0], ev[1])] = c[x]
        cnt.append(c)
        writes.append(w)
        pts.append({x: sorted({v for (y, _f, _l), v in list(first.items()) + list(last.items()) if y == x}) for x in c})
    plans = []
    for a in range(nthr):
        for b in range(nthr):
            if a == b:
                continue
            rest = [t for t in range(nthr) if t not in (a, b)]
            for x in sorted(set(cnt[a]) & set(cnt[b])):
                if x not in writes[a] and x not in writes[b]:
                    continue
                ms = pts[a][x] if quick else range(1, cnt[a][x] + 1)
                ns = sorted(set(pts[b][x]) | {1, 2, 3, cnt[b][x] + 1}) if quick else range(1, cnt[b][x] + 3)
                for m in ms:
                    for n in ns:
                        plans.append(('tables', [(a, ('tbl', x, m)), (b, ('tbl', x, n)), (a, sched.INF), (b, sched.INF)]
                                      + [(t, sched.INF) for t in rest], False))
    if len(plans) > cap:
        plans = [plans[i] for i in sorted(rng.sample(range(len(plans)), cap))]
    return plans


FAMILIES = [(gen_auto_tag_dump_vs_load, 2, 9), (gen_unrelated_classes_new_keys, 3, 12),
            (gen_v1_alias_first_use, 2, 8), (gen_lazy_module_first_use, 3, 8), (gen_env_overlay_instantiations, 6, 30)]


def run(ctx: C.Ctx):
    rng = ctx.rng
    quick = ctx.tier == 'quick'
    ctx.rule = ('scenarios (first dump with aliases / skip-if / paths, first load, new key spelling with and without raise_on_unknown_json_key, '
                'new value subtypes, EnvWizard first instantiation, classes sharing a nested class, v1 first use, tagged unions, load+dump '
                'of one class) × schedules: every single pre-emption at line events of library and generated code (quick: first/last '
                'occurrence of each distinct line + stride), seeded double pre-emptions, 3..4-thread plans, opcode-granular for the short '
                'calls; each schedule in its own forked process; outcome tuples (and follow-up calls) must be those of a sequential order. '
                'Generated families (shapes from the case RNG): first dump vs first load of an auto_assign_tags class under two '
                'pre-emptions placed at accesses of one shared per-class table (accessing lines read off the source with ast); '
                'unrelated classes meeting new key spellings after a warm-up, pre-empted at every bytecode of the helper modules '
                '(string_conv / type_conv / object_path) with later sequential calls in the outcome; v1 classes with Alias / AliasPath / '
                'Annotated aliases, pre-empted at every line of the per-class set-up code; lazily imported optional modules '
                '(pytimeparse, tomli_w, yaml) first needed by two threads in a process that has not imported them, pre-empted inside '
                'the import (a thread blocking on the import lock is set aside by the scheduler); EnvWizard classes instantiated by '
                '2-3 threads with a secrets directory / dotenv file OF THEIR OWN each (per-call overlays: every thread adds names to the '
                'process-wide environment tables), variables at exact tiers / cleaned tier / explicitly mapped, after a warm-up that '
                'has or has not read Env.cleaned_to_env, followed by instantiations of every class without and with its overlay. '
                'EVERY scenario ends with the first load and first dump of a class nobody has touched, and all follow-up calls run on '
                'threads that are none of the racing ones; a call (of a thread, of the follow-up, or in a sequential order) that has '
                'not returned after 6 s without any event is an outcome of its own (`never-returned` / `unfinished`), which no '
                'sequential order has. '
                'Non-trivial = a schedule that actually pre-empted a thread inside the library.')
    ctx.assumptions += ['pre-emption points are line events (opcode events for the short scenarios) of library files and generated code: '
                        'a race whose window lies inside a single C-level call is not exhibited',
                        'CPython 3.12 with the GIL: single dict reads/stores are atomic']
    idx = 0
    model_reqs, model_meta = [], []
    impl_fail_by_site = {}
    scenarios = list(SCENARIOS)
    for fam_gen, n_quick, n_thorough in FAMILIES:
        for k in range(ctx.quick(n_quick, n_thorough)):
            scenarios.append(fam_gen(rng, k))
    only_scn = os.environ.get('VERIF_C20_SCENARIOS')        # (development) comma-separated substrings of scenario names
    if only_scn:
        scenarios = [x for x in scenarios if any(w in x['name'] for w in only_scn.split(','))]
    scenarios = [with_probe(x) for x in scenarios]
    for s_no, scn in enumerate(scenarios):
        if ctx.deadline is not None and ctx.done(idx):
            break
        nthr = len(scn['threads'])
        kinds = scn.get('plans') or (('single', 'multi', 'opcode') if scn.get('opcode') else ('single', 'multi'))
        # ---- sequential orders: the reference set, and the event logs
        seq = sched.fork_map(_job, [(scn, p, False, True) for p in seq_plans(nthr)])
        hung = [(p, r) for p, r in zip(seq_plans(nthr), seq) if not r.get('harness_error') and r.get('outcomes') is not None
                and (r.get('stuck') or r.get('hung'))]
        if hung and ctx.only is None:
            # a call that never returns has no result at all: also when the calls are made one after another
            p, r = hung[0]
            ctx.current = None
            ctx.fail(f'{scn["name"]}:sequential', {'scenario': scn['name'], 'kind': 'sequential', 'order': [t for t, _ in p]},
                     f'with the calls made one after another in the order {[t for t, _ in p]} (each on a thread of its own) a call never '
                     f'returns: {json.dumps([r["outcomes"], r["post"]])[:700]}',
                     detail={'src': scn['src'], 'threads': scn['threads'], 'pre': scn.get('pre'), 'post': scn.get('post')})
        bad = [r for r in seq if r.get('harness_error') or r.get('stuck')]
        if bad:
            ctx.notes.setdefault('harness_errors', []).append({'scenario': scn['name'], 'what': str(bad[0])[:800]})
            ctx.count('scenario_skipped')
            continue
        allowed = {C.canon([r['outcomes'], r['post']]) for r in seq}
        ctx.notes.setdefault('sequential_outcome_sets', {})[scn['name']] = len(allowed)
        logs = seq[0]['log']
        ctx.notes.setdefault('events_per_thread', {})[scn['name']] = seq[0]['counts']
        plans = []
        # the log of thread t when it runs *first* (its first-use path): from the permutation that starts with t
        perms = list(itertools.permutations(range(nthr)))
        first_logs = [seq[next(i for i, p in enumerate(perms) if p[0] == a)]['log'][a] for a in range(nthr)]
        for a in range(nthr):
            if 'single' not in kinds:
                break
            first_log = first_logs[a]
            others = [t for t in range(nthr) if t != a]
            for k in switch_points(first_log, quick):
                plans.append(('single', [(a, k)] + [(t, sched.INF) for t in others] + [(a, sched.INF)], False))
        if 'setup-lines' in kinds:
            # every line event of the per-class set-up code (class_helper.py) of the thread that runs first, and the event after
            for a in range(nthr):
                others = [t for t in range(nthr) if t != a]
                ks = set()
                for i, ev in enumerate(first_logs[a]):
                    if ev[0] == 'class_helper.py':
                        ks.update((i + 1, i + 2))
                for k in sorted(x for x in ks if 1 <= x <= len(first_logs[a])):
                    plans.append(('setup-lines', [(a, k)] + [(t, sched.INF) for t in others] + [(a, sched.INF)], False))
        if 'module-lines' in kinds:
            # the line events inside the lazily imported module's files and inside the lazy loader, of the thread running first
            pref = sched.module_prefixes(scn.get('fresh_modules') or [])
            for a in range(nthr):
                others = [t for t in range(nthr) if t != a]
                ks = [i + 1 for i, ev in enumerate(first_logs[a]) if ev[0].startswith(pref) or ev[0] == 'utils/lazy_loader.py']
                ks = sorted({x for k in ks for x in (k, k + 1) if 1 <= x <= len(first_logs[a])})
                cap = ctx.quick(160, 4000)
                if len(ks) > cap:
                    head = ks[:40]                      # the start of the import (module object just published) in full
                    rest = ks[40:]
                    ks = head + [rest[(j * len(rest)) // (cap - 40)] for j in range(cap - 40)]
                ctx.notes.setdefault('module_line_points', {})[f'{scn["name"]}:{a}'] = len(ks)
                for k in ks:
                    plans.append(('module-lines', [(a, k)] + [(t, sched.INF) for t in others] + [(a, sched.INF)], False))
        if 'tables' in kinds:
            plans += table_plans(first_logs, nthr, rng, quick, ctx.quick(600, 20000))
        n_double = ctx.quick(60, 600) if 'multi' in kinds else 0
        if scn.get('n_multi') is not None and 'multi' in kinds:
            n_double = ctx.quick(scn['n_multi'], 10 * scn['n_multi'])
        for _ in range(n_double):
            order = list(range(nthr))
            rng.shuffle(order)
            plan = []
            for _seg in range(rng.randint(3, 6)):
                t = rng.choice(order)
                plan.append((t, rng.randint(1, max(2, len(logs[t]) // 2 + 1))))
            plans.append(('multi', plan, False))
        if scn.get('opcode') and 'opcode' in kinds:
            seq_op = sched.fork_map(_job, [(scn, seq_plans(nthr)[0], True, False)])[0]
            if not seq_op.get('harness_error') and not seq_op.get('stuck'):
                for a in range(nthr):
                    na = seq_op['counts'][a]
                    others = [t for t in range(nthr) if t != a]
                    step = 1 if not quick else max(1, na // 120)
                    for k in range(1, na, step):
                        plans.append(('opcode', [(a, k)] + [(t, sched.INF) for t in others] + [(a, sched.INF)], True))
        if 'helper-opcode' in kinds:
            # every bytecode executed inside the helper modules' frames is a pre-emption point (and nothing else is)
            seq_op = sched.fork_map(_job, [(scn, [(t, sched.INF) for t in p], True, False) for p in perms])
            if not any(r.get('harness_error') or r.get('stuck') for r in seq_op):
                ctx.notes.setdefault('helper_opcode_events', {})[scn['name']] = seq_op[0]['counts']
                for a in range(nthr):
                    na = seq_op[next(i for i, p in enumerate(perms) if p[0] == a)]['counts'][a]
                    others = [t for t in range(nthr) if t != a]
                    step = 1 if not quick else max(1, na // 400)
                    for k in range(1, na + 1, step):
                        plans.append(('helper-opcode', [(a, k)] + [(t, sched.INF) for t in others] + [(a, sched.INF)], True))
        todo = []
        for kind, plan, opcode in plans:
            i = idx
            idx += 1
            if ctx.only is not None and i != ctx.only:
                continue
            todo.append((i, kind, plan, opcode))
        t_scn = time.time()
        # schedules under which a call never returns take seconds each: a handful of them is evidence enough, the rest of the
        # scenario's schedules is then not run (counted as `skipped_after_hangs`)
        n_hung = [0]

        def stop(r):
            if r.get('hung') or (r.get('stuck') and r.get('outcomes') is not None):
                n_hung[0] += 1
            return n_hung[0] >= 4
        outs = sched.fork_map(_job, [(scn, plan, opcode, False) for (_i, _k, plan, opcode) in todo], stop=stop)
        ctx.notes.setdefault('seconds_per_scenario', {})[scn['name']] = [len(todo), round(time.time() - t_scn, 1)]
        any_fail = False
        for (i, kind, plan, opcode), r in zip(todo, outs):
            ctx.current = i
            case = {'scenario': scn['name'], 'kind': kind, 'opcode': opcode,
                    'plan': [[t, (list(k) if isinstance(k, tuple) else k if k < sched.INF else 'end')] for t, k in plan]}
            if r.get('harness_error'):
                ctx.notes.setdefault('harness_errors', []).append({'scenario': scn['name'], 'what': r['harness_error'][:600]})
                ctx.count('harness_error')
                continue
            if r.get('skipped'):
                ctx.count('skipped_after_hangs')
                continue
            if r.get('stuck') and r.get('outcomes') is None:
                ctx.count('stuck_schedule')         # the child itself had to be killed: nothing was observed
                continue
            ctx.seen(f'{scn["name"]}:{kind}', case, nontrivial=r['switches'] >= 2)
            got = C.canon([r['outcomes'], r['post']])
            if got not in allowed:
                any_fail = True
                exp = json.loads(sorted(allowed)[0])
                ctx.fail(f'{scn["name"]}:{kind}', case,
                         f'outcomes under this schedule {json.dumps([r["outcomes"], r["post"]])[:700]} are those of no sequential order '
                         f'(e.g. {json.dumps(exp)[:500]})',
                         detail={'src': scn['src'], 'threads': scn['threads'], 'pre': scn.get('pre'), 'post': scn.get('post')})
        if scn.get('site'):
            impl_fail_by_site[scn['site']] = impl_fail_by_site.get(scn['site'], False) or any_fail
            n = scn['nfields']
            for a in (0, 1):
                for k in range(0, 2 * n + 6):
                    model_reqs.append({'op': 'conc', 'site': scn['site'], 'n': n, 'threads': 2,
                                       'sched': [a] * k + [1 - a] * (2 * n + 6) + [a] * (2 * n + 6)})
                    model_meta.append(scn['site'])
    # ---- correspondence with the interleaving model run under the discipline read off the source
    if ctx.model_available and model_reqs and ctx.only is None:
        outs = ctx.driver.run(model_reqs)
        model_fail = {}
        for site, o in zip(model_meta, outs):
            res = (o.get('r') or {}).get('outs')
            if res is None:
                ctx.notes.setdefault('driver_errors', []).append(str(o)[:300])
                continue
            model_fail[site] = model_fail.get(site, False) or ('other' in res) or (None in res)
        for site, mf in sorted(model_fail.items()):
            ctx.agree('discipline', {'site': site}, {'failing_schedule_exists': impl_fail_by_site.get(site, False)},
                      {'failing_schedule_exists': mf})
