"""C10, fourth stream — the write-back clause under the DUMP-side settings of the class.

"... with a CatchAll field exactly the unknown key/value pairs, spelled and valued as given, are stored in that field and are written back
at top level by to_dict, so that to_dict(from_dict(d)) contains them unchanged."

The unknown pairs are the document's data, not fields of the class: which of the class's OWN fields a dump leaves out (Meta.skip_if,
Meta.skip_defaults_if, Meta.skip_defaults, a SkipIf condition on some other field, the skip_defaults / exclude arguments of the call) and
how it spells their keys (key_transform_with_dump) says nothing about them.  DIMENSION added here: CatchAll classes (without default /
default None / default_factory) x every combination of those settings - declared on the class itself or arriving from the main class
through the cascade - x both engines x unknown pairs whose VALUES are exactly what such settings look at (None, 0, False, '', [], {},
values equal to a default of the class, the operand of a condition in force) x the dump called in every way (asdict / to_dict, with and
without skip_defaults, with another field excluded) x a second round trip.
"""
from __future__ import annotations

import copy
import json
import random

from harness import common as C
from harness import gen, model, ref
from harness.model import T
from harness.props.c01 import load_outcome
from harness.props.c05 import plain_doc
from harness.props import v1streams

OFFSET = 50_000_000

# conditions that can be evaluated on every value (an ordering comparison of unlike values raises: C11's subject)
SAFE_OPS = ['==', '==', '!=', 'is', 'is', 'is not', '+', '!', '!']
OPERANDS = [None, True, False, 0, 1, -1, 5, 2.5, '', 'x', 'abc']
VALUE_POOL = [None, 0, False, '', [], {}, 0.0, True, 1, -1, 5, 2.5, 'x', 'abc', 'v', [1, 2], {'a': 1}, [None], {'k': None}, 42, 'dflt']

KNOWN_MAPPING_KEY = 'catchall-mapping-judged-by-skip-defaults-if'
KNOWN_SHAPE_RECORDS = 3


def gen_cond(rng):
    op = rng.choice(SAFE_OPS)
    if op in '+!':
        return {'op': op, 'val': None}
    if op in ('is', 'is not'):
        return {'op': op, 'val': rng.choice([None, True, False])}
    return {'op': op, 'val': rng.choice(OPERANDS)}


def holds(c, v):
    try:
        return bool(ref.eval_cond(c, v))
    except Exception:
        return False


def gen_settings(rng, for_root):
    """a non-empty combination of dump-side Meta settings; `for_root`: they are declared on a main class that holds the target in a
    required field - a skip_if every instance satisfies would leave the whole object out there (C11's business), so it is not drawn"""
    ds = {}
    while not ds:
        if rng.random() < 0.55:
            c = gen_cond(rng)
            if not (for_root and c['op'] in ('!=', 'is not', '+')):
                ds['skip_if'] = c
        if rng.random() < 0.35:
            ds['skip_defaults_if'] = gen_cond(rng)
        if rng.random() < 0.3:
            ds['skip_defaults'] = True
        if rng.random() < 0.35:
            ds['key_transform_with_dump'] = rng.choice(gen.CASES)
    return ds


def gen_case(rng, nm, engine, depth, where, catch):
    o = gen.Opts(meta_keys=[], meta_prob=0.0, allow_union=False, allow_nt=False, allow_td=False, allow_cls=False,
                 leaves=['int', 'str', 'bool', 'float', 'any'], containers=['list', 'dict'], max_fields=4, wizard_prob=0.7,
                 py_wizard_prob=0.0, defaults_prob=0.6)
    ty = gen.gen_cls(rng, 1, o, name=nm('T'))
    info = ty['info']
    ds = gen_settings(rng, for_root=(where == 'root'))
    # ---- a SkipIf condition of their own on some of the other fields
    per_field = {}
    if rng.random() < 0.45:
        for f in rng.sample(info['fields'], min(len(info['fields']), rng.choice([1, 1, 2]))):
            f['skip_if'] = gen_cond(rng)
            per_field[f['name']] = f['skip_if']
    # ---- the CatchAll field
    cf = {'name': 'extras_fld', 'catch_all': True}
    nf = len(info['fields'])
    if catch == 'catchall-default':
        cf['dflt'] = ['lit', None] if rng.random() < 0.7 else ['dict']
        cf['factory'] = cf['dflt'][0] != 'lit'
        lo = max([ix + 1 for ix, f in enumerate(info['fields']) if f.get('dflt') is None], default=0)
        info['fields'].insert(rng.randint(lo, nf), cf)
    else:
        idx = next((i for i, f in enumerate(info['fields']) if f.get('dflt') is not None), nf)
        info['fields'].insert(rng.randint(0, idx), cf)
    ty['ftys'].append(['extras_fld', T('any')])
    meta = dict(ds) if where == 'own' else {}
    if rng.random() < 0.2:
        meta['tag'] = nm('tg')
    if engine == 'v1' and (depth == 0 or rng.random() < 0.5):
        meta['v1'] = True
    info['meta'] = meta or None
    target = ty
    for lvl in range(depth):
        outer_meta = None
        if lvl == depth - 1:
            outer_meta = dict(ds) if where == 'root' else {}
            if engine == 'v1':
                outer_meta['v1'] = True
            outer_meta = outer_meta or None
        ty = {'k': 'cls', 'info': {'name': nm('O'), 'fields': [{'name': 'inner_obj'}, {'name': 'num', 'dflt': ['lit', 0], 'factory': False}],
                                   'wizard': True, 'meta': outer_meta},
              'ftys': [['inner_obj', ty], ['num', T('int')]]}
    return ty, target, ds, per_field


def draw_values(rng, U_keys, tinfo, ds, per_field):
    """values for the unknown keys: about half of them aimed at a setting in force (a value its condition holds for / a value equal to a
    default of the class), the others from the pool"""
    conds = [c for c in (ds.get('skip_if'), ds.get('skip_defaults_if')) if c is not None] + list(per_field.values())
    dflts = [ref.dflt_value(f['dflt']) for f in tinfo['fields'] if f.get('dflt') is not None and not f.get('catch_all')]
    pool = VALUE_POOL + [c['val'] for c in conds if c.get('val') is not None]
    U = {}
    for k in U_keys:
        r = rng.random()
        if r < 0.45 and conds:
            c = rng.choice(conds)
            hit = [v for v in pool if holds(c, v)]
            U[k] = copy.deepcopy(rng.choice(hit)) if hit else copy.deepcopy(rng.choice(pool))
        elif r < 0.6 and dflts:
            U[k] = copy.deepcopy(rng.choice(dflts))
        else:
            U[k] = copy.deepcopy(rng.choice(pool))
    return json.loads(json.dumps(U))


def target_part(back, depth):
    """the target's part of a dump of the case root (the holder field's key may be written in any of the dump spellings)"""
    cur = back
    for _ in range(depth):
        for k in ('inner_obj', 'innerObj', 'InnerObj', 'inner-obj'):
            if isinstance(cur, dict) and k in cur:
                cur = cur[k]
                break
        else:
            raise KeyError('inner_obj')
    return cur


def mapping_dropped_shape(tinfo, eff_sdi, mapping, sd_arg, eff_sd):
    """recorded finding of the unchanged library (findings/catchall-mapping-judged-by-skip-defaults-if.py): with skip_defaults in force, a
    CatchAll field that has a default is tested as a whole against Meta.skip_defaults_if like a defaulted regular field; when the condition
    holds for the MAPPING (IS_TRUTHY / NE(..) / IS_NOT(..)) every captured pair is left out of the dump"""
    cf = next(f for f in tinfo['fields'] if f.get('catch_all'))
    if cf.get('dflt') is None or eff_sdi is None:
        return False
    on = sd_arg if sd_arg is not None else bool(eff_sd or eff_sdi is not None)
    return bool(on) and holds(eff_sdi, mapping)


def run(ctx: C.Ctx):
    from dataclass_wizard import fromdict, asdict
    from harness.props import c10
    rng = v1streams.sub_rng(ctx, 'dump-side')
    gen.SUBS = False
    ctx.rule += (' || DUMP-SIDE STREAM (both engines): CatchAll classes (no default / default None / default_factory; any field position) x a '
                 'non-empty combination of Meta.skip_if / skip_defaults_if (EQ, NE, IS, IS_NOT, IS_TRUTHY, IS_FALSY over None / bool / int / float / '
                 'str operands) / skip_defaults / key_transform_with_dump, declared on the class or cascading from the main class (depth 0..1), x '
                 'SkipIf conditions on other fields x 1..3 unknown pairs whose values are aimed at those settings (a value the condition in force '
                 'holds for, a value equal to a default of the class, None / 0 / False / \'\' / [] / {}) x the dump called as asdict / to_dict, with '
                 'skip_defaults unset / True / False, with another field excluded: from_dict captures exactly U in document order, mapped fields as '
                 'without U, EVERY such dump contains every pair of U unchanged (key as given, value same-typed) in the object it came from, a '
                 'reload of the dump captures them again; the default dump vs the Lean dump model.')
    n = ctx.quick(800, 8000)
    dreqs, dpend = [], []
    for j in range(n):
        i = OFFSET + j
        if ctx.done(i):
            break
        base_nm = v1streams.Namer(j)

        def nm(prefix='K', base_nm=base_nm):
            return base_nm('D' + prefix)
        engine = rng.choice(['default', 'v1'])
        depth = rng.choice([0, 0, 1])
        where = 'root' if depth > 0 and rng.random() < 0.5 else 'own'
        catch = rng.choice(['catchall', 'catchall-default', 'catchall-default'])
        ty, target, ds, per_field = gen_case(rng, nm, engine, depth, where, catch)
        tinfo = target['info']
        try:
            built = model.Built(ty)
        except Exception as e:
            ctx.count('build_error')
            ctx.notes.setdefault('build_errors', []).append(repr(e)[:300])
            continue
        try:
            x = gen.gen_instance(rng, ty, built, use_defaults_prob=0.3)
            fnames = [f['name'] for f in tinfo['fields'] if not f.get('catch_all')]
            base = json.loads(json.dumps(plain_doc(x, ty, built)))
            c10.inner_doc(base, depth).pop('extras_fld', None)
            tmeta = tinfo.get('meta') or {}
            has_tag = tmeta.get('tag') is not None
            tag_key = '__tag__'
            keys = [k for k in rng.sample(c10.EXTRA_POOL, rng.choice([1, 1, 2, 3]))
                    if c10.unknown_for(k, fnames) and not (has_tag and k == tag_key)]
            U = draw_values(rng, keys, tinfo, ds, per_field)
            inner_base = c10.inner_doc(base, depth)
            inner_u = c10.with_unknown(rng, inner_base, U)
            d = c10.view_doc(depth, inner_u, base, depth)
            excl_field = rng.choice(fnames) if fnames and rng.random() < 0.5 else None
            reps = rng.choice([1, 1, 2])
            if not ctx.begin_case(i):
                continue
            case = {'ty': ty, 'doc': repr(d)[:600], 'engine': engine, 'depth': depth, 'dump_settings': ds, 'declared_on': where,
                    'field_skip_if': per_field, 'catch': catch, 'U': repr(U), 'exclude_in_one_dump': excl_field, 'reps': reps}
            kind = f'unknown:dump-side:{engine}'
            ctx.seen(kind, case, nontrivial=bool(U))
            for k_ in sorted(ds):
                ctx.count('dump-side:' + k_)
            if per_field:
                ctx.count('dump-side:field-skip-if')
            src = dict(src=built.source)
            Root = built.root
            base_out = load_outcome(lambda: fromdict(Root, copy.deepcopy(base)))
            if base_out[0] == 'err':
                ctx.fail(kind, case, f'the complete document without extra keys does not load: {type(base_out[1]).__name__}: {str(base_out[1])[:300]}',
                         detail=src)
                continue
            out = None
            for rep in range(1, reps + 1):
                out = load_outcome(lambda: fromdict(Root, copy.deepcopy(d)))
                if not judge(ctx, kind, case, rep, out, base_out, U, d, depth, target, ds, where, excl_field, built, src):
                    break
            else:
                if U and out[0] == 'ok' and not mapping_dropped_shape(tinfo, ds.get('skip_defaults_if'), c10.dig(out[1], depth).extras_fld,
                                                                        None, ds.get('skip_defaults')):
                    try:
                        d0 = asdict(out[1])
                        st = model.StdTables()
                        st.add_py(out[1])
                        dreqs.append({'op': 'dump', 'inst': model.enc_py(out[1], built), 'std': st.build(), 'exclude': None, 'skip_defaults': None})
                        dpend.append((case, {'ok': model.enc_d(d0)}))
                    except Exception:
                        ctx.count('dump-side:dump_not_encodable')
        finally:
            built.close()
    if ctx.model_available:
        outs_d = ctx.driver.run(dreqs)
        for (case, impl), o in zip(dpend, outs_d):
            if 'err' in o and 'r' not in o:
                ctx.agree('unknown:dump-side:dump-model', case, impl, {'driver_error': o['err']})
                continue
            r = o['r']
            if model.has_miss(r):
                ctx.count('std_miss')
                continue
            if 'err' in r and r['err'][0] == 'unsupported':
                ctx.count('model_unsupported')
                continue
            ctx.agree('unknown:dump-side:dump-model', case, impl, {'ok': r['ok']} if 'ok' in r else {'err': r['err']})


def judge(ctx, kind, case, rep, out, base_out, U, d, depth, target, ds, where, excl_field, built, src):
    """True when the outcome of this load satisfies every clause"""
    from dataclass_wizard import fromdict, asdict
    from harness.props import c10
    tinfo = target['info']
    nf = len(ctx.failures)
    if out[0] == 'err':
        ctx.fail(kind, case, f'call #{rep}: load raised {type(out[1]).__name__}: {str(out[1])[:300]} (CatchAll class, unknown keys {sorted(U)})', detail=src)
        return False
    y, yb = c10.dig(out[1], depth), c10.dig(base_out[1], depth)
    for f in tinfo['fields']:
        if f.get('catch_all'):
            continue
        if not ref.same_typed(getattr(y, f['name']), getattr(yb, f['name'])):
            ctx.fail(kind, case, f'call #{rep}: field {f["name"]} = {getattr(y, f["name"])!r} with extra keys, {getattr(yb, f["name"])!r} without', detail=src)
            return False
    got = y.extras_fld
    want = c10._in_doc_order(U, d, depth)
    if not (isinstance(got, dict) and list(got.items()) == want and all(ref.same_typed(got[k], U[k]) for k in U)):
        ctx.fail(kind, case, f'call #{rep}: catch-all field holds {got!r}, expected exactly {dict(want)!r}', detail=src)
        return False
    # ---- every way of dumping the result
    dumps = [('asdict(x)', {}, lambda: asdict(out[1])),
             ('asdict(x, skip_defaults=True)', {'sd': True}, lambda: asdict(out[1], skip_defaults=True)),
             ('asdict(x, skip_defaults=False)', {'sd': False}, lambda: asdict(out[1], skip_defaults=False))]
    if hasattr(out[1], 'to_dict'):
        dumps.append(('x.to_dict()', {}, lambda: out[1].to_dict()))
    if depth:
        # the object that received the unknown keys, dumped on its own
        dumps.append(('asdict(x.inner_obj)', {'own': True}, lambda: asdict(y)))
        if hasattr(y, 'to_dict'):
            dumps.append(('x.inner_obj.to_dict()', {'own': True}, lambda: y.to_dict()))
    if excl_field is not None:
        dumps.append((f'asdict(x.., exclude=[{excl_field!r}])', {'own': True}, lambda: asdict(y, exclude=[excl_field])))
    first_plain, plain_known = None, False
    for label, how, call in dumps:
        try:
            back = call()
            tgt = back if how.get('own') else target_part(back, depth)
        except Exception as e:
            ctx.fail(kind, case, f'call #{rep}: {label} of the loaded instance raised / lost the object: {e!r}'[:600], detail=src)
            return False
        if first_plain is None and not how and not plain_known:
            first_plain = back
        lost = [k for k in U if not (isinstance(tgt, dict) and k in tgt and ref.same_typed(tgt[k], U[k]))]
        if lost:
            # settings in force for the target in this dump: its own, else (dumped below the main class) the main class's
            in_force = ds if (where == 'own' or not how.get('own')) else {}
            key = None
            # (the skip_defaults ARGUMENT of a call concerns the object it is called on: nested objects go by their Meta)
            sd_arg = how.get('sd') if depth == 0 else None
            if len(lost) == len(U) and mapping_dropped_shape(tinfo, in_force.get('skip_defaults_if'), got, sd_arg, in_force.get('skip_defaults')):
                key = KNOWN_MAPPING_KEY
            if key is not None:
                # the recorded shape: a few records per run name it (the directed script keeps it under observation), the others are counted;
                # the remaining dumps of the case are judged as usual
                ctx.count('dump-side:known-shape:' + key)
                if back is first_plain:
                    first_plain = None          # (no second round trip from a dump that is known to lack the pairs)
                    plain_known = True
                if ctx.kind_counts['dump-side:known-shape:' + key] > KNOWN_SHAPE_RECORDS:
                    continue
            ctx.fail(kind, dict(case, dump=label), f'call #{rep}: {label} after from_dict(d) lost / changed the unknown pair(s) '
                     f'{ {k: U[k] for k in lost}!r}; the part of the object reads {tgt!r}'[:900], key=key, detail=src)
            if key is None:
                return False
    # ---- second round trip: the dump is a document again; where it loads, its unknown pairs are captured again
    if first_plain is not None and (len(ctx.failures) == nf or all(f.get('key') for f in ctx.failures[nf:])):
        again = load_outcome(lambda: fromdict(built.root, copy.deepcopy(first_plain)))
        if again[0] == 'ok':
            try:
                got2 = c10.dig(again[1], depth).extras_fld
            except AttributeError:
                got2 = None
            miss = [k for k in U if not (isinstance(got2, dict) and k in got2 and ref.same_typed(got2[k], U[k]))]
            if miss:
                ctx.fail(kind, case, f'call #{rep}: from_dict(to_dict(from_dict(d))) captured {got2!r}: the unknown pair(s) {miss!r} of d are missing / changed', detail=src)
                return False
    return len(ctx.failures) == nf or all(f.get('key') for f in ctx.failures[nf:])
