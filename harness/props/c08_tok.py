"""C08, token-grammar paths: generator + reference denotation for `split_object_path`.

A path is generated as a list of *tokens*, each rendered in dot style (`.body`) or bracket style (`[body]`);
for every well-formed token the reference below says which key / index its syntax denotes (written from the
docstrings of KeyPath / AliasPath / path_field and docs/common_use_cases/nested_key_paths.rst: bare words are
string keys, `true`/`false` (also `True`/`False`) are bool keys, integers are list indexes / int keys, floats are
float keys, anything in quotes is a string key taken literally).  Malformed pieces (empty components, stray
brackets, unbalanced quotes, blanks inside numbers, ...) have no documented denotation: they are only compared
with the Lean model (correspondence), never judged by the oracle.
"""
from __future__ import annotations

NOEXP = object()          # "no documented denotation"

WORDS = ['true', 'True', 'TRUE', 'tRue', 'false', 'False', 'FALSE', 'fAlse', 'null', 'None', 'none', 'NULL', 'Null',
         'nan', 'NaN', 'inf', 'Infinity', 'yes', 'no', 't', 'f', 'truE', 'falsE', 'true_', '_false', 'truefalse',
         'e5', 'E', 'x1', 'a_b', 'key', 'Key', 'my key', 'a-b', 'a$', '_', '__x__', 'T', 'F', 'é', '漢字', 'a"b', "a'b"]
INTS = ['0', '1', '7', '42', '-1', '-321', '+5', '007', '-0', '1_000', '10', '99999999999999999999', '-12', '3', '2']
FLOATS_DOT = ['1e5', '1E3', '-2e-3', '+1e+2', '-inf', '+nan', '-Infinity', '+inf', '1e', '1e+', '--1', '+-1', '1_', '1__0', '-', '+', '1x', '0x10']
FLOATS_BR = ['1.5', '-2.25', '0.5', '3.0', '-0.125', '1.', '1.5e3', '-2.5e-3', '1.2.3', '1..2', '.5', '-.5', '1_0.2_5']
QCHARS = ['a', 'b', 'Z', '0', '1', '-', '+', ' ', '.', '[', ']', '"', "'", '\\', 'é', '_', 'true', 'false', 'x.y', '[0]', 'n']
JUNK = ['', '.', '..', '[', ']', '[]', '""', "''", '"', "'", '[ 1 ]', '[ true ]', ' 1', '1 ', '\\', '[\\]', '["a"', "['a", 'a]', ']a', '[[0]]',
        '"a"b', '"a""b"', '"a" ', ' "a"', 'a"', '[1]x', '"tr"ue', 't"rue"', '\t2', '2\n', '"\\', '"a\\"', "[true", 'true]']


def _quote_render(content, q):
    """`content` as a quoted literal with quote char `q`; returns (text, expressible) — the tokenizer's only
    escape is backslash-quote, so a content with a backslash before `q`, two adjacent backslashes or a
    trailing backslash is not expressible with that quote character."""
    ok = True
    out = []
    n = len(content)
    for i, c in enumerate(content):
        if c == q:
            out.append('\\' + q)
        else:
            out.append(c)
        if c == '\\':
            nxt = content[i + 1] if i + 1 < n else None
            if nxt is None or nxt == '\\' or nxt == q:
                ok = False
    return q + ''.join(out) + q, ok


def gen_token(rng, bracket):
    """-> (body text, expected component or NOEXP, kind)"""
    r = rng.random()
    if r < 0.22:
        w = rng.choice(WORDS)
        if w in ('true', 'True'):
            return w, True, 'bool'
        if w in ('false', 'False'):
            return w, False, 'bool'
        return w, w, 'word'
    if r < 0.34:
        w = rng.choice(['true', 'false', 'True', 'False'])
        return w, w[0] in 'tT', 'bool'
    if r < 0.52:
        t = rng.choice(INTS) if rng.random() < 0.7 else str(rng.randint(-10 ** 6, 10 ** 6))
        return t, int(t), 'int'
    if r < 0.62:
        t = rng.choice(FLOATS_BR if bracket and rng.random() < 0.6 else FLOATS_DOT)
        try:
            return t, int(t), 'num'
        except ValueError:
            pass
        try:
            return t, float(t), 'num'
        except ValueError:
            return t, t, 'num'          # starts like a number, is not one: stays a string key
    if r < 0.9:
        n = rng.choice([1, 1, 2, 3, 4, 6])
        content = ''.join(rng.choice(QCHARS) for _ in range(n))
        if rng.random() < 0.25:
            content = rng.choice(['true', 'false', 'True', '0', '-1', '1.5', 'null', 'a.b', 'x[0]', 'it\'s', 'say "hi"'])
        q = rng.choice('"\'')
        text, ok = _quote_render(content, q)
        if not ok:
            q2 = '"' if q == "'" else "'"
            text2, ok2 = _quote_render(content, q2)
            if ok2:
                text, ok = text2, ok2
        return text, (content if ok and content != '' else NOEXP), 'quoted'
    return rng.choice(JUNK), NOEXP, 'junk'


def gen_path(rng, nmin=1, nmax=8, force_reset=False):
    """-> (text, expected list or None, tags).  `force_reset`: a quoted token early, bare bool/int tokens after it."""
    n = rng.randint(nmin, nmax)
    toks = []
    for i in range(n):
        bracket = rng.random() < 0.4
        toks.append((bracket,) + gen_token(rng, bracket))
    if force_reset:
        k = rng.randint(0, max(0, n - 2))
        content = rng.choice(['b c', 'x.y', 'true', 'a[0]', 'q', '0', "it's", 'feature flags', 'é'])
        q = rng.choice('"\'')
        text, ok = _quote_render(content, q)
        br = rng.random() < 0.4
        toks[k] = (br, text, content if ok else NOEXP, 'quoted')
        for j in range(k + 1, n):
            if rng.random() < 0.7:
                br = rng.random() < 0.3
                w = rng.choice(['true', 'false', 'True', 'False', '0', '1', '-1', '12', 'true', 'false'])
                if w[0] in 'tTfF':
                    toks[j] = (br, w, w[0] in 'tT', 'bool')
                else:
                    toks[j] = (br, w, int(w), 'int')
        if k + 1 >= n:
            w = rng.choice(['true', 'false'])
            toks.append((False, w, w == 'true', 'bool'))
    out = []
    expected = []
    tags = set()
    lead = rng.random()
    for i, (bracket, body, exp, kind) in enumerate(toks):
        tags.add(kind)
        if bracket:
            # `a[0]`, `a.[0]` are both documented spellings
            if out and rng.random() < 0.2:
                out.append('.')
            out.append('[' + body + ']')
        else:
            if i > 0 or lead < 0.15:
                out.append('.')
            out.append(body)
            if exp is not NOEXP and ('.' in body and kind != 'quoted'):
                exp = NOEXP           # a dot outside brackets/quotes is a separator: not one token
        if kind != 'quoted' and exp is not NOEXP and (']' in body or '[' in body):
            exp = NOEXP
        if expected is not None:
            if exp is NOEXP:
                expected = None
            else:
                expected.append(exp)
    if rng.random() < 0.1:
        out.append(rng.choice(['.', '[', ']', '..']))
        tags.add('trail')
        expected = None       # a trailing separator has no documented meaning: correspondence only
    text = ''.join(out)
    return text, expected, sorted(tags)
