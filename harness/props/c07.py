"""C07 — configuration of one class never changes the behaviour of another."""
from __future__ import annotations

import copy
import json

from harness import common as C
from harness import hist, model
from harness.model import T
from harness.props.c06 import check_history, attribute_nested_leak, class_metas, leak_roots, _doc_keys, _nkey, DT, _spell

STYLES = ['CAMEL', 'SNAKE', 'PASCAL', 'LISP']


def mk_cls(name, nested=None, meta=None, wizard=True):
    fields = [{'name': 'some_val'}, {'name': 'when_at'}]
    ftys = [['some_val', T('int')], ['when_at', T('datetime')]]
    if nested is not None:
        fields.append({'name': 'inner_obj'})
        ftys.append(['inner_obj', nested])
    fields.append({'name': 'dflt_val', 'dflt': ['lit', 3], 'factory': False})
    ftys.append(['dflt_val', T('int')])
    return {'k': 'cls', 'info': {'name': name, 'fields': fields, 'wizard': wizard, 'meta': meta}, 'ftys': ftys}


def inst_expr(name, nested_expr=None):
    e = f'{name}(some_val=1, when_at={DT}'
    if nested_expr is not None:
        e += f', inner_obj={nested_expr}'
    return e + ')'


def pick_meta(rng):
    if rng.random() < 0.3:
        return None
    m = {}
    if rng.random() < 0.7:
        m['key_transform_with_dump'] = rng.choice(STYLES)
    if rng.random() < 0.4:
        m['marshal_date_time_as'] = rng.choice(['TIMESTAMP', 'ISO_FORMAT'])
    if rng.random() < 0.15:
        m['recursive'] = False
    if rng.random() < 0.3:
        m['skip_defaults'] = True
    if rng.random() < 0.3:
        m['raise_on_unknown_json_key'] = True
    return m


def gen_pair(rng, relation):
    """family F (configured root + nested N) and family G in the given relation; returns (defs, F ops, G ops, lite)"""
    n = model.fresh('N')
    n_meta = pick_meta(rng) if rng.random() < 0.4 else None
    nwiz = rng.random() < 0.5
    f = model.fresh('F')
    f_meta = pick_meta(rng) or {'key_transform_with_dump': rng.choice(STYLES)}
    ncls = mk_cls(n, None, n_meta, nwiz)
    fcls = mk_cls(f, ncls, f_meta, True)
    defs = [{'op': 'def', 'ty': fcls}]
    f_ops = [{'op': 'dump', 'cls': f, 'expr': inst_expr(f, inst_expr(n)), 'uses': [f, n]},
             {'op': 'load', 'cls': f, 'doc': {'some_val': 1, 'when_at': '2020-01-01T00:00:00Z', 'inner_obj': {'some_val': 2, 'when_at': '2020-01-01T00:00:00Z'}}, 'uses': [f, n]}]
    lite = {f: {'own': f_meta, 'nested': [n]}, n: {'own': n_meta, 'nested': []}}
    if relation == 'disjoint':
        n2, g = model.fresh('N'), model.fresh('G')
        g_meta = pick_meta(rng)
        n2cls = mk_cls(n2, None, pick_meta(rng) if rng.random() < 0.3 else None, rng.random() < 0.5)
        gcls = mk_cls(g, n2cls, g_meta, rng.random() < 0.5)
        defs.append({'op': 'def', 'ty': gcls})
        g_ops = [{'op': 'dump', 'cls': g, 'expr': inst_expr(g, inst_expr(n2)), 'uses': [g, n2]},
                 {'op': 'load', 'cls': g, 'doc': {'someVal': 1, 'whenAt': '2020-01-01T00:00:00Z', 'innerObj': {'some_val': 2, 'when_at': 5}}, 'uses': [g, n2]},
                 {'op': 'dump', 'cls': n2, 'expr': inst_expr(n2), 'uses': [n2]}]
        lite[g] = {'own': model.own_meta(gcls['info']), 'nested': [n2]}
        lite[n2] = {'own': model.own_meta(n2cls['info']), 'nested': []}
    elif relation == 'shared-nested':
        g = model.fresh('G')
        g_meta = pick_meta(rng)
        gcls = mk_cls(g, ncls, g_meta, rng.random() < 0.5)
        defs.append({'op': 'def', 'ty': gcls})
        g_ops = [{'op': 'dump', 'cls': g, 'expr': inst_expr(g, inst_expr(n)), 'uses': [g, n]},
                 {'op': 'load', 'cls': g, 'doc': {'some_val': 1, 'when_at': '2020-01-01T00:00:00Z', 'inner_obj': {'someVal': 2, 'whenAt': '2020-01-01T00:00:00Z'}}, 'uses': [g, n]}]
        lite[g] = {'own': model.own_meta(gcls['info']), 'nested': [n]}
    elif relation == 'nested-alone':
        g_ops = [{'op': 'dump', 'cls': n, 'expr': inst_expr(n), 'uses': [n]},
                 {'op': 'load', 'cls': n, 'doc': {'someVal': 2, 'whenAt': '2020-01-01T00:00:00Z'}, 'uses': [n]},
                 {'op': 'load', 'cls': n, 'doc': {'some_val': 2, 'when_at': '2020-01-01T00:00:00Z', 'bogus_key': 1}, 'uses': [n]}]
    else:
        raise ValueError(relation)
    return defs, f_ops, g_ops, lite


# ---------------------------------------------------------------------------------------------------------------------------
# the wider universe (source-rendered): how the configured class gets its Meta (inner class / LoadMeta / DumpMeta / both, bound
# after the class exists), which mixin the classes use (JSONWizard, JSONPyWizard, YAMLWizard, TOMLWizard, JSONFileWizard and
# combinations), load-side settings (key transform, strict unknown keys) and the special, non-inherited attributes
# (json_key_to_field, tag).  Oracle only: the Lean cache machine models the dump side of inner Metas.

KINDS = {   # kind -> (bases, can carry an inner Meta, Meta implied by the mixin)
    'plain': ('', False, None),
    'json': ('(JSONWizard)', True, None),
    'py': ('(JSONPyWizard)', True, {'key_transform_with_dump': 'NONE'}),
    'yaml': ('(YAMLWizard)', False, {'key_transform_with_dump': 'LISP'}),
    'toml': ('(TOMLWizard)', False, {'key_transform_with_dump': 'NONE'}),
    'file': ('(JSONWizard, JSONFileWizard)', True, None),
    'json+yaml': ('(JSONWizard, YAMLWizard)', True, {'key_transform_with_dump': 'LISP'}),
    'json+toml': ('(JSONWizard, TOMLWizard)', True, {'key_transform_with_dump': 'NONE'}),
    'yaml-snake': ('(YAMLWizard, key_transform="SNAKE")', False, {'key_transform_with_dump': 'SNAKE'}),
}
MIXIN_GROUP = {'yaml': 'Y', 'json+yaml': 'Y', 'yaml-snake': 'Y', 'toml': 'T', 'json+toml': 'T', 'json': 'J', 'file': 'J', 'py': 'P', 'plain': '-'}
LOAD_STYLES = ['CAMEL', 'CAMEL', 'SNAKE', 'PASCAL', 'LISP', 'NONE']
ALIAS_KEY = 'fKey'
FIELD_NAMES = ['some_val', 'when_at', 'inner_obj', 'dflt_val']
FIELD_DEFAULTS = {'dflt_val': ['int', 3]}          # canonical defaults of the universe's defaulted scalar fields
JSON_KINDS = [k for k, v in KINDS.items() if v[1]]  # first base JSONWizard / JSONPyWizard: inner Meta and class keyword arguments
KEY_CASES = ['CAMEL', 'SNAKE', 'PASCAL', 'AUTO', 'KEBAB']
DEBUG_ARGS = [True, 'ERROR', 'INFO', 'DEBUG', 'WARNING', 10, 40]
TAG_KEYS = ['__tag__', 'kind', 'type_']


def pick_class_args(rng, which=None):
    """configuration through the keyword arguments of the class statement: `class F(JSONWizard, key_case='CAMEL', debug='ERROR')`"""
    which = which or rng.choice(['key_case', 'debug', 'both'])
    kw = {}
    if which in ('key_case', 'both'):
        kw['key_case'] = rng.choice(KEY_CASES)
    if which in ('debug', 'both'):
        kw['debug'] = rng.choice(DEBUG_ARGS)
    if rng.random() < 0.15:
        kw['str'] = rng.choice([True, False])
    items = list(kw.items())
    rng.shuffle(items)
    return dict(items)


def other_class_args(rng, kw):
    """class arguments of a second class: mostly the argument the first one does not use, else any"""
    has = {k for k in ('key_case', 'debug') if k in kw}
    which = ({'key_case', 'debug'} - has).pop() if len(has) == 1 and rng.random() < 0.6 else None
    if len(has) == 2 and rng.random() < 0.6:
        which = rng.choice(['key_case', 'debug'])
    return pick_class_args(rng, which)


def class_args_meta(kw):
    """the settings the class arguments stand for (documented: key_case = v1 + v1_key_case, debug = v1_debug)"""
    m = {}
    if (kw or {}).get('key_case') is not None:
        m['v1'] = True
        m['v1_key_case'] = kw['key_case']
    if (kw or {}).get('debug'):
        m['v1_debug'] = 10 if kw['debug'] is True else kw['debug']
    return m


def pick_meta2(rng, v1=False):
    """settings split by direction: {'dump': {...}, 'load': {...}, 'special': {...}}"""
    m = {'dump': {}, 'load': {}, 'special': {}}
    if rng.random() < 0.6:
        m['dump']['key_transform_with_dump'] = rng.choice(STYLES)
    if rng.random() < 0.3:
        m['dump']['marshal_date_time_as'] = rng.choice(['TIMESTAMP', 'ISO_FORMAT'])
    if rng.random() < 0.3:
        m['dump']['skip_defaults'] = True
    if rng.random() < 0.6:
        m['load']['key_transform_with_load'] = rng.choice(LOAD_STYLES)
    if rng.random() < 0.35:
        m['load']['raise_on_unknown_json_key'] = True
    if rng.random() < 0.55:
        m['special']['json_key_to_field'] = dict({ALIAS_KEY: 'some_val'}, **({'__all__': True} if rng.random() < 0.4 else {}))
    if rng.random() < 0.25:
        m['special']['tag'] = 'ftag'
    if rng.random() < 0.1:
        m['special']['recursive'] = False
    if not (m['dump'] or m['load'] or m['special']):
        m['dump']['key_transform_with_dump'] = rng.choice(STYLES)
    if v1:
        # the v1 engine: its own key case, unknown-key policy and (special, non-inherited) field-to-alias table
        m['load'] = {'v1': True}
        case = rng.choice([None, 'AUTO', 'CAMEL', 'SNAKE', 'PASCAL'])
        if case:
            m['load']['v1_key_case'] = case
        if rng.random() < 0.3:
            m['load']['v1_on_unknown_key'] = 'RAISE'
        m['special'].pop('json_key_to_field', None)
        if rng.random() < 0.55:
            m['special']['v1_field_to_alias'] = {'some_val': ALIAS_KEY}
    return m


def flat_meta(m):
    return None if m is None else dict(m['dump'], **m['load'], **m['special'])


def cls2(rng, name, kind, nested=None, shape='single', meta=None, style=None, class_args=None, meta_base=None, union_with=None):
    """source + bind ops of one class of the universe; returns (ops, full own meta as the library sees it).
    class_args: keyword arguments of the class statement (JSONWizard kinds); meta_base = (class name, its flat Meta): the inner Meta
    derives from that class's inner Meta (`class _(Shared._)`) instead of JSONWizard.Meta; union_with: with shape 'union' the field
    is Union[nested, union_with]"""
    bases, can_inner, implied = KINDS[kind]
    if class_args:
        assert can_inner
        bases = bases[:-1] + ''.join(f', {k}={v!r}' for k, v in class_args.items()) + ')'
    inner = ''
    binds = []
    if meta_base is not None and (meta is None or style != 'inner'):
        assert can_inner
        inner = f'    class _({meta_base[0]}._):\n        pass\n'
    if meta is not None:
        if style == 'inner':
            assert can_inner
            inner = (f'    class _({meta_base[0] + "._" if meta_base else "JSONWizard.Meta"}):\n'
                     + (''.join(f'        {k} = {v!r}\n' for k, v in flat_meta(meta).items()) or '        pass\n'))
        else:
            load_part = dict(meta['load'])
            if 'key_transform_with_load' in load_part:
                load_part['key_transform'] = load_part.pop('key_transform_with_load')
            dump_part = dict(meta['dump'])
            if 'key_transform_with_dump' in dump_part:
                dump_part['key_transform'] = dump_part.pop('key_transform_with_dump')
            special = copy.deepcopy(meta['special'])
            if style == 'bind-load':
                parts = [('load', dict(load_part, **special))]
            elif style == 'bind-dump':
                parts = [('dump', dict(dump_part, **special))]
            else:
                sp_side = rng.choice(['load', 'dump'])
                parts = [('load', dict(load_part, **(special if sp_side == 'load' else {}))),
                         ('dump', dict(dump_part, **(special if sp_side == 'dump' else {})))]
                rng.shuffle(parts)
            binds = [{'op': 'bind', 'cls': name, 'kind': k, 'meta': mm} for k, mm in parts if mm]
    fields = '    some_val: int\n    when_at: datetime\n'
    if nested is not None:
        fields += {'single': f'    inner_obj: {nested}\n', 'list': f'    inner_obj: list[{nested}]\n', 'optional': f'    inner_obj: Optional[{nested}]\n',
                   'union': f'    inner_obj: Union[{nested}, {union_with}]\n'}[shape]
    fields += '    dflt_val: int = 3\n'
    src = f'@dataclass\nclass {name}{bases}:\n{inner}{fields}'
    own = dict(implied or {})
    bound = {}
    inner_meta = None          # what the inner Meta declares, inherited settings included
    if meta_base is not None:
        inner_meta = dict(meta_base[1] or {}, **(flat_meta(meta) if meta is not None and style == 'inner' else {}))
    elif meta is not None and style == 'inner':
        inner_meta = flat_meta(meta)
    if meta is not None and style != 'inner':
        for b in binds:
            for k, v in b['meta'].items():
                bound[{'key_transform': 'key_transform_with_' + b['kind']}.get(k, k)] = v
    if inner_meta is not None:
        own = dict(inner_meta) if kind != 'py' else dict(own, **inner_meta)      # an inner Meta replaces what the YAML / TOML mixin would have bound
    own.update(class_args_meta(class_args))      # bound (LoadMeta) right after the inner Meta
    own.update(bound)
    requires = ([nested] if nested else []) + ([union_with] if nested and shape == 'union' else []) + ([meta_base[0]] if meta_base else [])
    op = {'op': 'src', 'src': src, 'defines': [name], 'requires': requires, 'metas': {name: own or None}}
    if nested:
        op['nests'] = {name: [nested] + ([union_with] if shape == 'union' else [])}
    if own and own.get('recursive') is not False:
        op['configured'] = [name]
    return [op] + binds, (own or None)


def _inst2(name, nested_expr=None, shape='single'):
    e = f'{name}(some_val=1, when_at={DT}'
    if nested_expr is not None:
        e += ', inner_obj=' + {'single': nested_expr, 'list': f'[{nested_expr}]', 'optional': nested_expr, 'union': nested_expr}[shape]
    return e + ')'


def _doc2(rng, nested=False, shape='single', alias=False, extra=False, spell=False, tag=None):
    one = rng.choice([None, None, 'CAMEL', 'PASCAL', 'LISP']) if spell else 'SNAKE'      # one spelling for the whole document, or one per key

    def key(k):
        return _spell(k, one or rng.choice(['SNAKE', 'CAMEL', 'PASCAL', 'LISP']))
    d = {key('some_val'): rng.choice([1, 2]), key('when_at'): rng.choice(['2020-01-01T00:00:00Z', 5])}
    if rng.random() < 0.4:
        d[key('dflt_val')] = 4
    if alias:
        d[ALIAS_KEY] = 99
        if rng.random() < 0.3:
            d = {k: v for k, v in d.items() if k.lower().replace('_', '').replace('-', '') != 'someval'}
    if extra:
        d[rng.choice(['bogus_key', 'bogusKey'])] = 1
    if nested:
        inner = _doc2(rng, False, alias=alias and rng.random() < 0.85, extra=extra and rng.random() < 0.5, spell=spell)
        if tag is not None:                # (tag key, tag) of the Union member the inner document is meant for
            inner = dict([tag], **inner) if rng.random() < 0.7 else dict(inner, **dict([tag]))
        d[key('inner_obj')] = [inner] if shape == 'list' else inner
    items = list(d.items())
    rng.shuffle(items)
    return dict(items)


def _ops2(rng, name, kind, nested, shape, uses, n_docs=3, n_dumps=2, members=None, drop_keys=None, p_extra=0.3):
    """a pool of dumps and loads of one class: documents in every key spelling, with the configured family's alias key and an
    unknown key now and then.  members (shape 'union'): [(class name, (tag key, tag) or None)], the Union members a dump / document
    picks from; drop_keys: keys left out of the recorded dumps (the tag keys in play, see gen_pair2)"""
    dump_vias, load_vias = ['asdict', 'asdict'], ['fromdict', 'fromdict']
    if KINDS[kind][1]:                      # JSONWizard API
        dump_vias += ['method', 'to_json']
        load_vias += ['method', 'json']
    if MIXIN_GROUP[kind] == 'Y':
        dump_vias.append('yaml')
        load_vias.append('yaml')
    if MIXIN_GROUP[kind] == 'T':
        dump_vias.append('toml')
        load_vias.append('toml')
    pool = []
    for _ in range(n_dumps):
        member = rng.choice(members)[0] if members else nested
        pool.append({'op': 'dump', 'cls': name, 'expr': _inst2(name, _inst2(member) if nested else None, shape),
                     'via': rng.choice(dump_vias), 'uses': uses})
    for _ in range(n_docs):
        tag = rng.choice(members)[1] if members else None
        pool.append({'op': 'load', 'cls': name, 'doc': _doc2(rng, bool(nested), shape, alias=rng.random() < 0.65, extra=rng.random() < p_extra, spell=rng.random() < 0.7, tag=tag),
                     'via': rng.choice(load_vias), 'uses': uses})
    if drop_keys:
        for op in pool:
            if op['op'] == 'dump':
                op['drop_keys'] = list(drop_keys)
    return pool


def pick_meta_nested(rng):
    """a Meta for the nested class itself: as pick_meta2, an explicit tag only rarely, its own tag key now and then"""
    m = pick_meta2(rng, v1=rng.random() < 0.12)
    m['special'].pop('recursive', None)
    if rng.random() < 0.7:
        m['special'].pop('tag', None)
    if rng.random() < 0.3:
        m['special']['tag_key'] = rng.choice(TAG_KEYS[1:])
    if rng.random() < 0.7:
        # settings that are only read when the class's functions are generated
        if rng.random() < 0.65:
            m['dump']['skip_defaults'] = True
        if rng.random() < 0.5 and not m['load'].get('v1'):
            m['load']['raise_on_unknown_json_key'] = True
    return m


def gen_pair2(rng, relation, focus=None):
    """as gen_pair, over the wider universe; returns (defs, F ops, G ops).  `focus` raises the weight of one dimension that is rare
    otherwise: 'class-args' (both families configured through class keyword arguments, the second mostly through the argument the
    first does not use), 'union-member' (the nested class N has a Meta of its own and is a member of a Union field of a root that
    assigns tags automatically), 'inherited-meta' (N's inner Meta derives from another class's inner Meta)"""
    n, f = model.fresh('N'), model.fresh('F')
    f_kind = rng.choice(JSON_KINDS if focus == 'class-args' else list(KINDS))
    _, can_inner, _ = KINDS[f_kind]
    f_style = rng.choice((['inner', 'inner'] if can_inner else []) + ['bind-load', 'bind-dump', 'bind-both'])
    shape = rng.choice(['single', 'single', 'list', 'optional'])
    if rng.random() < (0.85 if focus == 'union-member' else 0.05):
        shape = 'union'
    # A root with a Union field is never put on the v1 engine (Meta v1 / key_case argument): when its first use is a dump, the v1 load
    # function built for a member while tags are assigned stays cached for the member itself - recorded, not repaired:
    # findings/v1-union-member-loader-leaks.py (same cause as dump-first-auto-tags-stale-nested-loaders)
    f_meta = pick_meta2(rng, v1=shape != 'union' and rng.random() < 0.25)
    f_args = None
    if can_inner and rng.random() < (1.0 if focus == 'class-args' else 0.08):
        f_args = pick_class_args(rng, 'debug' if shape == 'union' else None)
        if rng.random() < 0.5:
            f_meta = None          # the class arguments are the whole configuration
    # ---- the nested class: mostly unconfigured; or with a Meta of its own - inner (possibly derived from the inner Meta of another
    # class, `class _(Shared._)`) or bound
    own_n = rng.random() < {'union-member': 0.9, 'inherited-meta': 1.0}.get(focus, 0.1)
    inherit = own_n and rng.random() < (1.0 if focus == 'inherited-meta' else 0.15)
    n_kind = rng.choice(JSON_KINDS) if inherit else rng.choice(['plain', 'plain', 'json'])
    n_meta = pick_meta_nested(rng) if own_n else None
    n_style, n_base, pre_defs = None, None, []
    if inherit:
        s_name, s_meta = model.fresh('S'), pick_meta2(rng)
        s_meta['special'].pop('tag', None)
        pre_defs, _ = cls2(rng, s_name, rng.choice(JSON_KINDS), meta=s_meta, style='inner')
        n_style, n_base = 'inner', (s_name, flat_meta(s_meta))
        if rng.random() < 0.25:
            n_meta = {'dump': {}, 'load': {}, 'special': {}}          # nothing but the inherited settings
    elif own_n:
        n_style = rng.choice((['inner', 'inner'] if KINDS[n_kind][1] else []) + ['bind-load', 'bind-dump', 'bind-both'])
    n_defs, n_own = cls2(rng, n, n_kind, meta=n_meta, style=n_style, meta_base=n_base)
    n_defs = pre_defs + n_defs
    # a strict nested class sees unknown keys more often
    p_extra = 0.6 if (n_own or {}).get('raise_on_unknown_json_key') or (n_own or {}).get('v1_on_unknown_key') == 'RAISE' else 0.3
    # ---- a Union field: N and a second dataclass, the root mostly assigning tags automatically
    b, members, drop = None, None, None
    if shape == 'union':
        b = model.fresh('B')
        b_defs, _ = cls2(rng, b, rng.choice(['plain', 'json']))
        n_defs = n_defs + b_defs
        f_meta = f_meta or {'dump': {}, 'load': {}, 'special': {}}
        auto = rng.random() < 0.85
        if auto:
            f_meta['special']['auto_assign_tags'] = True
        if rng.random() < 0.35:
            f_meta['special']['tag_key'] = rng.choice(TAG_KEYS[1:])
        tag_key = f_meta['special'].get('tag_key') or '__tag__'
        n_tag = (n_own or {}).get('tag') or (n if auto else None)
        members = [(n, (tag_key, n_tag) if n_tag else None)] * 2 + [(b, (tag_key, b) if auto else None)]
        # An auto-assigned tag stays on the member class (the unchanged library writes it into the member's own Meta, so a later dump
        # of N on its own or below G carries the tag entry): the tag keys in play are kept out of the records of the G side, every
        # other setting of N has to survive
        drop = TAG_KEYS
    f_defs, _ = cls2(rng, f, f_kind, n, shape, f_meta, f_style, class_args=f_args, union_with=b)
    defs = n_defs + f_defs
    f_uses = [f, n] + ([b] if b else [])
    f_ops = _ops2(rng, f, f_kind, n, shape, f_uses, n_dumps=3, members=members)

    def g_class_args(g_kind):
        if not KINDS[g_kind][1]:
            return None
        if focus == 'class-args':
            return other_class_args(rng, f_args)
        return pick_class_args(rng) if rng.random() < 0.08 else None
    if relation == 'disjoint':
        n2, g = model.fresh('N'), model.fresh('G')
        # the unrelated family often uses the same mixin as the configured one
        g_kind = rng.choice([k for k in KINDS if MIXIN_GROUP[k] == MIXIN_GROUP[f_kind]]) if rng.random() < 0.6 else rng.choice(list(KINDS))
        if focus == 'class-args':
            g_kind = rng.choice(JSON_KINDS)
        g_meta = pick_meta2(rng, v1=rng.random() < 0.2) if rng.random() < 0.25 else None
        g_style = rng.choice((['inner'] if KINDS[g_kind][1] else []) + ['bind-load', 'bind-dump', 'bind-both']) if g_meta else None
        g_shape = rng.choice(['single', 'list'])
        n2_defs, _ = cls2(rng, n2, rng.choice(['plain', 'json']))
        g_defs, _ = cls2(rng, g, g_kind, n2, g_shape, g_meta, g_style, class_args=g_class_args(g_kind))
        g_all = n2_defs + g_defs
        # G may be defined before or after F
        defs = g_all + defs if rng.random() < 0.5 else defs + g_all
        g_ops = _ops2(rng, g, g_kind, n2, g_shape, [g, n2], n_docs=4) + _ops2(rng, n2, 'plain', None, None, [n2], n_docs=1)
    elif relation == 'shared-nested':
        g = model.fresh('G')
        g_kind = rng.choice(JSON_KINDS if focus == 'class-args' else list(KINDS))
        g_meta = pick_meta2(rng, v1=rng.random() < 0.2) if rng.random() < 0.4 else None
        g_style = rng.choice((['inner'] if KINDS[g_kind][1] else []) + ['bind-load', 'bind-dump', 'bind-both']) if g_meta else None
        g_shape = rng.choice(['single', 'list'])
        g_defs, _ = cls2(rng, g, g_kind, n, g_shape, g_meta, g_style, class_args=g_class_args(g_kind))
        defs = defs + g_defs
        g_ops = _ops2(rng, g, g_kind, n, g_shape, [g, n], drop_keys=drop, p_extra=p_extra)
    elif relation == 'nested-alone':
        g_ops = _ops2(rng, n, n_kind, None, None, [n], drop_keys=drop, p_extra=p_extra)
    else:
        raise ValueError(relation)
    return defs, f_ops, g_ops


def gen_bystander(rng):
    """three families, ordered by *first use*: F (configured root nesting N), a plain user of N (N on its own, or another root H that
    nests it - `gen_pair2` relations nested-alone / shared-nested), and a bystander family G (root + nested class of its own) that has
    nothing in common with either.  What is drawn on top of gen_pair2: the order in which the three families are used for the first
    time (the bystander mostly last: a class whose functions are only generated after the others were configured and exercised reads
    whatever process-wide state they left behind), and when F's LoadMeta / DumpMeta binds take effect (right after the class
    statement, or only after the other families have been in use).  Returns the op list."""
    relation = rng.choice(['nested-alone', 'nested-alone', 'shared-nested'])
    defs, f_ops, h_ops = gen_pair2(rng, relation, rng.choice([None, None, None, 'class-args', 'inherited-meta']) if relation == 'shared-nested' else None)
    f_name = f_ops[0]['cls']
    n2, g = model.fresh('N'), model.fresh('G')
    g_kind = rng.choice(['plain', 'plain', 'json', 'json'] + list(KINDS))
    g_meta = pick_meta2(rng, v1=rng.random() < 0.2) if rng.random() < 0.25 else None
    g_style = rng.choice((['inner'] if KINDS[g_kind][1] else []) + ['bind-load', 'bind-dump', 'bind-both']) if g_meta else None
    g_shape = rng.choice(['single', 'list'])
    n2_defs, _ = cls2(rng, n2, rng.choice(['plain', 'json']))
    g_defs, _ = cls2(rng, g, g_kind, n2, g_shape, g_meta, g_style)
    g_all = n2_defs + g_defs
    g_ops = _ops2(rng, g, g_kind, n2, g_shape, [g, n2], n_docs=4) + _ops2(rng, n2, 'plain', None, None, [n2], n_docs=2)
    # F's binds: in place, or held back until the first phase is over
    late = [op for op in defs if op['op'] == 'bind' and op['cls'] == f_name] if rng.random() < 0.4 else []
    defs = [op for op in defs if not any(op is x for x in late)]
    defs = g_all + defs if rng.random() < 0.5 else defs + g_all
    pools = {'F': f_ops, 'H': h_ops, 'G': g_ops}
    first = rng.choice([['H', 'F', 'G']] * 5 + [['F', 'H', 'G']] * 2 + [['H', 'G', 'F'], ['G', 'H', 'F'], ['F', 'G', 'H'], ['G', 'F', 'H']])
    seq = []
    for k, fam in enumerate(first):
        if fam == 'F' and late:
            seq += late                      # (a bind always comes before the first use of the class it configures)
            late = []
        loads = [op for op in pools[fam] if op['op'] == 'load']
        phase = [copy.deepcopy(rng.choice(pools[fam])) for _ in range(rng.randint(1, 3))]
        if rng.random() < 0.7 and not any(op['op'] == 'load' for op in phase):
            phase.append(copy.deepcopy(rng.choice(loads)))      # most leaks are on the load side: a phase mostly has a load
        seq += phase
    for _ in range(rng.randint(0, 3)):
        seq.append(copy.deepcopy(rng.choice(pools[rng.choice('FHG')])))
    return defs + seq


ROOT_CONFIGS = ['bare', 'non-recursive', 'dump-config', 'load-config', 'any']


def _root_config(rng, config):
    """(kind, meta, style) of a root that nests the shared class, by the way it is configured:
      bare            no Meta at all (plain dataclass / JSONWizard without settings)
      non-recursive   a Meta of its own with dump- and load-side settings that stops at the class (recursive = False)
      dump-config     a recursive Meta that sets dump-side settings (key transform and / or TIMESTAMP), as inner class or DumpMeta
      load-config     a recursive Meta that sets load-side settings (key transform, strict unknown keys), as inner class or LoadMeta
      any             whatever gen_pair2 draws for its configured root (every mixin, every style, v1 now and then)"""
    if config == 'bare':
        return rng.choice(['plain', 'plain', 'json', 'file']), None, None
    if config == 'any':
        kind = rng.choice(list(KINDS))
        return kind, pick_meta2(rng, v1=rng.random() < 0.2), rng.choice((['inner', 'inner'] if KINDS[kind][1] else []) + ['bind-load', 'bind-dump', 'bind-both'])
    kind = rng.choice(['plain', 'json', 'json', 'file', 'py'])
    m = pick_meta2(rng)
    m['special'].pop('recursive', None)
    m['special'].pop('tag', None)
    side = 'dump' if config == 'dump-config' else 'load' if config == 'load-config' else 'both'
    if side in ('dump', 'both'):
        which = rng.choice(['kt', 'ts', 'both'])
        if which != 'ts':
            m['dump']['key_transform_with_dump'] = rng.choice(['SNAKE', 'PASCAL', 'LISP'] if kind != 'py' else STYLES)
        if which != 'kt':
            m['dump']['marshal_date_time_as'] = 'TIMESTAMP'
    if side in ('load', 'both'):
        which = rng.choice(['kt', 'strict', 'both'])
        if which != 'strict':
            m['load']['key_transform_with_load'] = rng.choice(['SNAKE', 'PASCAL', 'LISP', 'NONE'])
        if which != 'kt':
            m['load']['raise_on_unknown_json_key'] = True
    if config == 'non-recursive':
        m['special']['recursive'] = False
    styles = (['inner', 'inner'] if KINDS[kind][1] else []) + ['bind-both'] + {'dump': ['bind-dump', 'bind-dump'], 'load': ['bind-load', 'bind-load'], 'both': []}[side]
    return kind, m, rng.choice(styles)


def gen_reach_order(rng):
    """three or more families, ordered by first use, around ONE nested class N that (mostly) has no Meta of its own:
      * two or three roots that nest N, each configured in one of the ROOT_CONFIGS ways - always at least one root through which no
        configuration reaches N (bare / non-recursive) and at least one whose recursive Meta sets dump- or load-side settings -, now
        and then N used on its own as a family;
      * one or two bystander families (a root, mostly with a nested class of its own, mostly without any Meta) that have nothing in
        common with N or its roots.
    The order in which the families are used for the first time is a uniformly drawn permutation (so N is first reached through the
    unconfigured root, the configured one, or alone; bystanders are first used before, between and after), a family's class
    statements stand at the top or right before its first use (a class that only comes to exist after the others were exercised),
    and the first phase of a family mostly has both a dump and a load.  What per-class state N's first use leaves behind decides
    where the later Metas are written: whatever that is, it may never reach the bystanders.  Returns the op list."""
    n = model.fresh('N')
    own_n = rng.random() < 0.12
    n_kind = rng.choice(['plain', 'plain', 'json'])
    n_meta = pick_meta_nested(rng) if own_n else None
    n_style = rng.choice((['inner', 'inner'] if KINDS[n_kind][1] else []) + ['bind-load', 'bind-dump', 'bind-both']) if own_n else None
    top, _ = cls2(rng, n, n_kind, meta=n_meta, style=n_style)
    top = list(top)
    configs = [rng.choice(['bare', 'bare', 'non-recursive']), rng.choice(['dump-config', 'dump-config', 'load-config'])]
    if rng.random() < 0.5:
        configs.append(rng.choice(ROOT_CONFIGS))
    rng.shuffle(configs)
    fams = []          # (definition ops, op pool)
    for config in configs:
        r = model.fresh('R')
        kind, meta, style = _root_config(rng, config)
        shape = rng.choice(['single', 'single', 'list', 'optional'])
        r_defs, _ = cls2(rng, r, kind, n, shape, meta, style)
        fams.append((r_defs, _ops2(rng, r, kind, n, shape, [r, n], n_dumps=3)))
    if rng.random() < 0.3:
        fams.append(([], _ops2(rng, n, n_kind, None, None, [n])))
    for _ in range(rng.choice([1, 1, 2])):
        g = model.fresh('G')
        g_kind = rng.choice(['plain', 'plain', 'json', 'json', 'json'] + list(KINDS))
        g_meta = pick_meta2(rng, v1=rng.random() < 0.2) if rng.random() < 0.2 else None
        g_style = rng.choice((['inner'] if KINDS[g_kind][1] else []) + ['bind-load', 'bind-dump', 'bind-both']) if g_meta else None
        if rng.random() < 0.7:
            n2, g_shape = model.fresh('N'), rng.choice(['single', 'list'])
            n2_defs, _ = cls2(rng, n2, rng.choice(['plain', 'json']))
            g_defs, _ = cls2(rng, g, g_kind, n2, g_shape, g_meta, g_style)
            fams.append((n2_defs + g_defs, _ops2(rng, g, g_kind, n2, g_shape, [g, n2], n_docs=4) + _ops2(rng, n2, 'plain', None, None, [n2], n_docs=1, n_dumps=1)))
        else:
            g_defs, _ = cls2(rng, g, g_kind, None, None, g_meta, g_style)
            fams.append((g_defs, _ops2(rng, g, g_kind, None, None, [g], n_docs=4)))
    rng.shuffle(fams)                      # the first-use order
    seq = []
    for defs, pool in fams:
        if rng.random() < 0.5:
            top += defs
        else:
            seq += defs
        phase = [copy.deepcopy(rng.choice(pool)) for _ in range(rng.randint(1, 2))]
        for kind_, p in (('dump', 0.8), ('load', 0.7)):
            if rng.random() < p and not any(op['op'] == kind_ for op in phase):
                phase.append(copy.deepcopy(rng.choice([op for op in pool if op['op'] == kind_])))
        rng.shuffle(phase)
        seq += phase
    for _ in range(rng.randint(0, 3)):
        seq.append(copy.deepcopy(rng.choice(rng.choice(fams)[1])))
    return top + seq


def reach_order_stream(ctx, budget, n, base_index=400000):
    """C07 oracle over gen_reach_order histories (its own stream of the seed)"""
    import random
    rng = random.Random(f'{ctx.prop_id}:{ctx.seed}:reach-order')
    for j in range(n):
        i = base_index + j
        if ctx.done(i):
            break
        ops = gen_reach_order(rng)
        if not ctx.begin_case(i):
            continue
        check_history(budget, 'isolation-wide:reach-order', i, ops, attribute=attribute_c07)


def gen_reach_lite(rng):
    """gen_reach_order in the universe the Lean cache state machine models (type-node classes, dump side: key transform, TIMESTAMP,
    recursive): two or three roots over one nested class N without a Meta - at least one bare or non-recursive, at least one with a
    recursive Meta that sets a dump-side setting -, N on its own now and then, one or two bystander families; dumps only, the
    families first used in a uniformly drawn order, late class statements.  Returns (ops, lite)."""
    n = model.fresh('N')
    ncls = mk_cls(n, None, pick_meta(rng) if rng.random() < 0.1 else None, rng.random() < 0.5)
    lite = {n: {'own': model.own_meta(ncls['info']), 'nested': []}}
    fams = []

    def dump_cfg():
        m = {}
        which = rng.choice(['kt', 'ts', 'both'])
        if which != 'ts':
            m['key_transform_with_dump'] = rng.choice(['SNAKE', 'PASCAL', 'LISP'])
        if which != 'kt':
            m['marshal_date_time_as'] = 'TIMESTAMP'
        return m
    configs = [rng.choice(['bare', 'bare', 'non-recursive']), 'dump-config'] + ([rng.choice(['bare', 'non-recursive', 'dump-config', 'any'])] if rng.random() < 0.5 else [])
    for config in configs:
        r = model.fresh('R')
        meta = {'bare': lambda: None, 'non-recursive': lambda: dict(dump_cfg(), recursive=False), 'dump-config': dump_cfg,
                'any': lambda: pick_meta(rng)}[config]()
        rcls = mk_cls(r, ncls, meta, True if meta is not None else rng.random() < 0.5)
        lite[r] = {'own': model.own_meta(rcls['info']), 'nested': [n]}
        fams.append(([{'op': 'def', 'ty': rcls}], [{'op': 'dump', 'cls': r, 'expr': inst_expr(r, inst_expr(n)), 'uses': [r, n]}]))
    if rng.random() < 0.3:
        fams.append(([], [{'op': 'dump', 'cls': n, 'expr': inst_expr(n), 'uses': [n]}]))
    for _ in range(rng.choice([1, 1, 2])):
        g = model.fresh('G')
        g_meta = pick_meta(rng) if rng.random() < 0.2 else None
        if rng.random() < 0.7:
            n2 = model.fresh('N')
            n2cls = mk_cls(n2, None, None, rng.random() < 0.5)
            gcls = mk_cls(g, n2cls, g_meta, True if g_meta is not None else rng.random() < 0.5)
            lite[n2] = {'own': None, 'nested': []}
            lite[g] = {'own': model.own_meta(gcls['info']), 'nested': [n2]}
            pool = [{'op': 'dump', 'cls': g, 'expr': inst_expr(g, inst_expr(n2)), 'uses': [g, n2]}, {'op': 'dump', 'cls': n2, 'expr': inst_expr(n2), 'uses': [n2]}]
        else:
            gcls = mk_cls(g, None, g_meta, True if g_meta is not None else rng.random() < 0.5)
            lite[g] = {'own': model.own_meta(gcls['info']), 'nested': []}
            pool = [{'op': 'dump', 'cls': g, 'expr': inst_expr(g), 'uses': [g]}]
        fams.append(([{'op': 'def', 'ty': gcls}], pool))
    rng.shuffle(fams)
    top, seq = [{'op': 'def', 'ty': ncls}], []
    for defs, pool in fams:
        if rng.random() < 0.5:
            top += defs
        else:
            seq += defs
        seq += [copy.deepcopy(rng.choice(pool)) for _ in range(rng.randint(1, 2))]
    for _ in range(rng.randint(0, 3)):
        seq.append(copy.deepcopy(rng.choice(rng.choice(fams)[1])))
    return top + seq, lite


def caches_reach_stream(ctx, n, base_index=500000):
    """gen_reach_lite histories: every dump's (class, key style, timestamps?) fingerprint, observed in a forked pristine child, against
    the Lean cache state machine - in which a bystander's dump is what it is in a fresh process (C07_disjoint)"""
    import random
    rng = random.Random(f'{ctx.prop_id}:{ctx.seed}:caches-reach')
    reqs, pend, runs = [], [], []
    for j in range(n):
        i = base_index + j
        if ctx.done(i):
            break
        ops, lite = gen_reach_lite(rng)
        if not ctx.begin_case(i):
            continue
        names = list(lite)
        idx = {nm: k for k, nm in enumerate(names)}
        mdefs = [{'id': idx[nm], 'own': lite_meta(lite[nm]['own']), 'nested': [idx[x] for x in lite[nm]['nested']]} for nm in names]
        mops = [['define', idx[nm]] for nm in _def_order(ops, names)]
        watch = []
        for k, op in enumerate(ops):
            if op['op'] == 'dump':
                mops.append(['dump', idx[op['cls']]])
                watch.append((k, len(mops) - 1, [op['cls']] + lite[op['cls']]['nested']))
        runs.append(ops)
        reqs.append({'op': 'caches', 'defs': mdefs, 'ops': mops})
        pend.append(({'history': ops}, watch, names))
    fulls = hist.run_forked(runs) if runs else []
    keep = []
    for (case, watch, names), full, req in zip(pend, fulls, reqs):
        if full and full[0] and full[0][0] == 'harness-error':
            ctx.count('harness_error')
            continue
        ctx.seen('caches', case)
        keep.append((case, full, watch, names, req))
    if ctx.model_available and keep:
        outs = ctx.driver.run([k[4] for k in keep])
        for (case, full, watch, names, _), o in zip(keep, outs):
            if 'err' in o and 'r' not in o:
                ctx.agree('caches', case, 'impl', {'driver_error': o['err']})
                continue
            mouts = o['r']['outs']
            for k, mk, order in watch:
                fp = fingerprint(full[k], order)
                if fp is None:
                    continue
                mfp = [[names[c], st, ts] for c, st, ts in mouts[mk]]
                ctx.agree('caches', {'history': case['history'], 'position': k}, fp, mfp)


class Name(str):
    """a setting given by reference to a module-level object: rendered as the bare name in class source"""

    def __repr__(self):
        return str(self)


def gen_shared_object(rng, allow_all_marker=False):
    """two families (root + nested class each) that have nothing in common but the *identity* of a configuration object:
      constant      one module-level mapping `K = {...}` named by the json_key_to_field (v1 engine: v1_field_to_alias) of both roots'
                    Metas (inner Meta or LoadMeta / DumpMeta), every other setting drawn per family;
      meta-object   one `M = LoadMeta(...)` / `DumpMeta(...)` object bound to both roots (`M.bind_to(F); M.bind_to(G)`).
    The configuration *values* of G are the same with and without F (the G-alone run defines K / M and binds G only), so G has to
    behave the same: an object handed to a Meta is read, not adopted as per-class state.  Returns (defs, F ops, G ops)."""
    form = rng.choice(['constant', 'constant', 'meta-object'])
    v1 = rng.random() < 0.2
    setting = 'v1_field_to_alias' if v1 else 'json_key_to_field'
    value = {'some_val': ALIAS_KEY} if v1 else {ALIAS_KEY: 'some_val'}
    # A shared json_key_to_field mapping never carries the '__all__' marker in this stream: bind_to pops it out of the user's
    # mapping, so only the class bound first sees it - recorded, not repaired: findings/json-key-to-field-all-marker-popped.py
    # (allow_all_marker=True is the stream that found it)
    if allow_all_marker and not v1 and rng.random() < 0.4:
        value['__all__'] = True
    fams, defs = [], []
    if form == 'constant':
        kname = model.fresh('K')
        defs.append({'op': 'src', 'src': f'{kname} = {value!r}\n', 'defines': [kname]})
    else:
        mname, m_kind = model.fresh('M'), rng.choice(['load', 'load', 'dump'])
        m = pick_meta2(rng, v1=v1)
        m['special'] = {setting: copy.deepcopy(value)} if rng.random() < 0.8 else {}
        part = dict(m[m_kind] if not (v1 and m_kind == 'dump') else m['dump'])
        if 'key_transform_with_' + m_kind in part:
            part['key_transform'] = part.pop('key_transform_with_' + m_kind)
        if v1 and m_kind == 'dump':
            part['v1'] = True
        part.update(m['special'])
        defs.append({'op': 'src', 'src': f'{mname} = {"LoadMeta" if m_kind == "load" else "DumpMeta"}(**{part!r})\n', 'defines': [mname]})
    load_styles = rng.sample(['CAMEL', 'SNAKE', 'PASCAL', 'LISP', 'NONE', None], 2)      # the two families mostly match keys differently
    flat_g = rng.random() < 0.3              # G without a nested class: F then has a field G has not, and G's documents carry its key
    for tag in 'FG':
        n, x = model.fresh('N'), model.fresh(tag)
        shape = rng.choice(['single', 'single', 'list', 'optional'])
        n_defs, _ = cls2(rng, n, rng.choice(['plain', 'plain', 'json']))
        if tag == 'G' and flat_g:
            n, shape, n_defs = None, None, []
        if form == 'constant':
            kind = rng.choice(JSON_KINDS + ['plain', 'plain', 'yaml', 'toml'])
            meta = pick_meta2(rng, v1=v1)
            meta['special'] = {setting: Name(kname)}
            if not v1 and rng.random() < 0.8:
                meta['load'].pop('key_transform_with_load', None)
                if load_styles[tag == 'G']:
                    meta['load']['key_transform_with_load'] = load_styles[tag == 'G']
            style = rng.choice((['inner', 'inner', 'inner'] if KINDS[kind][1] else []) + ['bind-load', 'bind-dump', 'bind-both'])
            x_defs, _ = cls2(rng, x, kind, n, shape, meta, style)
            x_defs[0]['requires'] = x_defs[0]['requires'] + [kname]
            for b in x_defs[1:]:
                if setting in b['meta']:
                    b['names'] = {setting: kname}
                    b['meta'][setting] = copy.deepcopy(value)
        else:
            kind = rng.choice(['plain', 'plain', 'json', 'json', 'file', 'yaml', 'toml'])
            x_defs, _ = cls2(rng, x, kind, n, shape)
            if rng.random() < 0.3:
                # a setting of its own for the other direction.  It is bound BEFORE the shared object: a Meta bound to a class that
                # already has one is merged into the existing one in place (`_META[cls] &= meta`), so a bind that follows the shared
                # object's writes into the object itself and reaches every class it is bound to - recorded, not repaired:
                # findings/shared-meta-object-merged-in-place.py
                other = 'dump' if m_kind == 'load' else 'load'
                x_defs.append({'op': 'bind', 'cls': x, 'kind': other, 'meta': dict({'key_transform': rng.choice(STYLES)}, **({'v1': True} if v1 else {}))})
            x_defs.append({'op': 'bind', 'cls': x, 'kind': m_kind, 'meta': copy.deepcopy(part), 'obj': mname})
        ops = _ops2(rng, x, kind, n, shape, [x] + ([n] if n else []), n_docs=4)
        if n:
            ops += _ops2(rng, n, 'plain', None, None, [n], n_docs=1, n_dumps=1)
        else:
            for op in ops:
                if op['op'] == 'load' and rng.random() < 0.6:
                    op['doc'][_spell('inner_obj', rng.choice(['SNAKE', 'CAMEL', 'PASCAL', 'LISP']))] = {'some_val': 1}
        fams.append((n_defs + x_defs, ops))
    if rng.random() < 0.5:
        fams.reverse()           # the definition order of the two families
    return defs + fams[0][0] + fams[1][0], fams[0][1], fams[1][1]


def bystander_stream(ctx, budget, n, base_index=200000):
    """C07 oracle over gen_bystander histories (its own stream of the seed: the streams before it are what they were)"""
    import random
    rng = random.Random(f'{ctx.prop_id}:{ctx.seed}:bystander')
    for j in range(n):
        i = base_index + j
        if ctx.done(i):
            break
        ops = gen_bystander(rng)
        if not ctx.begin_case(i):
            continue
        check_history(budget, 'isolation-wide:bystander', i, ops, attribute=attribute_c07)


def shared_object_stream(ctx, budget, n, base_index=300000):
    """C07 oracle over gen_shared_object histories (its own stream of the seed)"""
    import random
    rng = random.Random(f'{ctx.prop_id}:{ctx.seed}:shared-object')
    for j in range(n):
        i = base_index + j
        if ctx.done(i):
            break
        defs, f_ops, g_ops = gen_shared_object(rng)
        ops = defs + order_ops(rng, f_ops, g_ops, g_len=(2, 4))
        if not ctx.begin_case(i):
            continue
        check_history(budget, 'isolation-wide:shared-object', i, ops, attribute=attribute_c07)


def lite_meta(m):
    if m is None:
        return None
    return {'kt': m.get('key_transform_with_dump'), 'ts': (None if m.get('marshal_date_time_as') is None else m['marshal_date_time_as'] == 'TIMESTAMP'),
            'recursive': m.get('recursive')}


def fingerprint(out, order):
    """(class, key style, timestamp?) per class occurrence of a dump outcome, root first"""
    if out[0] != 'ok':
        return None
    res = []

    def style_of(d):
        ks = set(d)
        for st, key in (('CAMEL', 'someVal'), ('SNAKE', 'some_val'), ('PASCAL', 'SomeVal'), ('LISP', 'some-val')):
            if key in ks:
                return st
        return '?'

    def walk(d, names):
        if not names:
            return
        when = next((v for k, v in d.items() if k.lower().replace('_', '').replace('-', '') == 'whenat'), None)
        res.append([names[0], style_of(d), isinstance(when, int)])
        inner = next((v for k, v in d.items() if k.lower().replace('_', '').replace('-', '') == 'innerobj'), None)
        if isinstance(inner, dict):
            walk(inner, names[1:])
    walk(out[1], order)
    return res


def order_ops(rng, f_ops, g_ops, orders=('g-first', 'f-first', 'interleaved'), g_len=(1, 4)):
    """operations of the two families in one of the orders G before F (and once more after), F before G, interleaved"""
    order = rng.choice(list(orders))
    f_seq = [copy.deepcopy(rng.choice(f_ops)) for _ in range(rng.randint(1, 3))]
    g_seq = [copy.deepcopy(rng.choice(g_ops)) for _ in range(rng.randint(*g_len))]
    if order == 'g-first':
        return g_seq + f_seq + copy.deepcopy(g_seq[:1])
    if order == 'f-first':
        return f_seq + g_seq
    seq = []
    a, b = list(f_seq), list(g_seq)
    while a or b:
        src = a if (a and (not b or rng.random() < 0.5)) else b
        seq.append(src.pop(0))
    return seq


class _RepeatBudget:
    """ctx as check_history sees it: Ctx.fail keeps the first 200 failures of a run, attributed ones included, so the repeats of a
    recorded finding (the nested-class leak shows up in a large share of the histories) must not use up the room of the failures
    that are not attributed: after `per_key` failures under one known-finding key further ones are only counted"""

    def __init__(self, ctx, per_key=30):
        self._ctx, self._per_key, self._n = ctx, per_key, {}

    def __getattr__(self, name):
        return getattr(self._ctx, name)

    def fail(self, kind, case, what, key=None, detail=None):
        if key is not None:
            self._n[key] = self._n.get(key, 0) + 1
            if self._n[key] > self._per_key:
                self._ctx.count('known_finding_repeats_not_recorded')
                return
        self._ctx.fail(kind, case, what, key=key, detail=detail)


def run(ctx: C.Ctx):
    rng = ctx.rng
    budget = _RepeatBudget(ctx)
    ctx.rule = ('pairs of class families (F: a root with a Meta over {dump key transform, TIMESTAMP/ISO, recursive} nesting N; G: disjoint / '
                'sharing the nested class N under another or no Meta / N used on its own / a later class with the same name; and the '
                'wider source-rendered universe: Meta given as inner class / LoadMeta / DumpMeta / both, classes on JSONWizard, JSONPyWizard, '
                'YAMLWizard, TOMLWizard, JSONFileWizard and combinations, load key transforms, strict unknown keys, json_key_to_field, tag, '
                'documents in every key spelling carrying the other family\'s alias key; directed families: configuration through class keyword '
                'arguments (key_case / debug / str) next to inner Meta / LoadMeta / DumpMeta, the second class mostly using the argument the first '
                'does not, either definition order; a nested class with a Meta of its own (inner or bound: skip_defaults, strict unknown keys, tag_key, '
                'transforms) that is a member of a Union field of an auto-tagging root and is then used on its own / below G - tag keys are '
                'kept out of the G-side records; a nested JSONWizard class whose inner Meta derives from another class\'s inner Meta below a '
                'recursive root, G unrelated; three families ordered by first use: F, a plain user of N (N alone / another root) and an unrelated '
                'bystander family whose first use mostly comes last, F\'s LoadMeta / DumpMeta bound at once or after the others were used; two '
                'families sharing only the identity of a configuration object - one module-level json_key_to_field / v1_field_to_alias mapping named '
                'by both Metas, or one LoadMeta / DumpMeta object bound to both roots - with different load key transforms, G sometimes '
                'without the nested field and fed its key; three to six families around one Meta-less nested class N: two or three roots nesting N that '
                'are bare / carry a non-recursive Meta / a recursive Meta with dump-side (key transform, TIMESTAMP) or load-side (key transform, '
                'strict unknown keys) settings as inner class or LoadMeta / DumpMeta, N on its own now and then, and one or two wholly unrelated '
                'bystander families, first used in a uniformly drawn order, class statements at the top or right before the first use) in every '
                'operation order (G before F, after F, interleaved); each history runs in a forked pristine child; every G operation is re-run '
                'with only G\'s definitions in another pristine child (C07: behaviour of G with F == behaviour of G alone); dump outcomes are '
                'reduced to (class, key style, timestamps?) fingerprints and compared with the Lean cache state machine - also over dump-only '
                'histories of the last kind (roots over a Meta-less N, bystanders, first-use orders) in the machine\'s own universe. '
                'Non-trivial = distinct (family pair, order, position).')
    n = ctx.quick(440, 4800)
    reqs, pend = [], []
    for i in range(n):
        if ctx.done(i):
            break
        relation = rng.choice(['disjoint', 'disjoint', 'shared-nested', 'shared-nested', 'nested-alone', 'same-name'])
        wide = relation != 'same-name' and rng.random() < 0.6
        if wide and relation != 'disjoint' and rng.random() < 0.4:
            relation = 'disjoint'      # unrelated families are where nothing at all may change
        focus = None
        if relation == 'same-name':
            ops, lite, ids = same_name_history(rng), None, None
        else:
            if wide:
                # directed families over dimensions that are rare in the plain draw (see gen_pair2)
                focus = rng.choice(['class-args', 'union-member', 'union-member', 'inherited-meta']) if rng.random() < 0.48 else None
                if focus == 'class-args' and relation == 'nested-alone':
                    relation = rng.choice(['disjoint', 'shared-nested'])
                if focus == 'union-member' and relation == 'disjoint' and rng.random() < 0.8:
                    relation = rng.choice(['nested-alone', 'shared-nested'])       # G = the member itself / a class with a field of its type
                (defs, f_ops, g_ops), lite = gen_pair2(rng, relation, focus), None
            else:
                defs, f_ops, g_ops, lite = gen_pair(rng, relation)
            # (a setting that is read when a class's functions are generated can only be lost before the class's first use)
            ops = defs + (order_ops(rng, f_ops, g_ops, ('f-first', 'f-first', 'interleaved', 'g-first'), g_len=(3, 5)) if focus == 'union-member'
                          else order_ops(rng, f_ops, g_ops))
        if not ctx.begin_case(i):
            continue
        full = check_history(budget, ('isolation-wide:' if wide else 'isolation:') + relation, i, ops, attribute=attribute_c07)
        # ---- correspondence with the cache state machine (dump fingerprints)
        if lite is not None and full and full[0] and full[0][0] != 'harness-error':
            names = list(lite)
            idx = {nm: k for k, nm in enumerate(names)}
            mdefs = [{'id': idx[nm], 'own': lite_meta(lite[nm]['own']), 'nested': [idx[x] for x in lite[nm]['nested']]} for nm in names]
            mops = [['define', idx[nm]] for nm in _def_order(ops, names)]
            watch = []
            for j, op in enumerate(ops):
                if op['op'] == 'dump':
                    mops.append(['dump', idx[op['cls']]])
                    watch.append((j, len(mops) - 1, [op['cls']] + lite[op['cls']]['nested']))
                elif op['op'] == 'load':
                    pass
            has_load = any(op['op'] == 'load' for op in ops)
            if not has_load:       # the machine models the dump side only
                reqs.append({'op': 'caches', 'defs': mdefs, 'ops': mops})
                pend.append(({'history': ops}, full, watch, names))
    caches_stream(ctx, ctx.quick(60, 800))
    bystander_stream(ctx, budget, ctx.quick(70, 800))
    shared_object_stream(ctx, budget, ctx.quick(70, 800))
    reach_order_stream(ctx, budget, ctx.quick(60, 700))
    caches_reach_stream(ctx, ctx.quick(80, 1000))
    if ctx.model_available and reqs:
        outs = ctx.driver.run(reqs)
        for (case, full, watch, names), o in zip(pend, outs):
            if 'err' in o and 'r' not in o:
                ctx.agree('caches', case, 'impl', {'driver_error': o['err']})
                continue
            mouts = o['r']['outs']
            for j, mj, order in watch:
                fp = fingerprint(full[j], order)
                if fp is None:
                    continue
                mfp = [[names[c], st, ts] for c, st, ts in mouts[mj]]
                ctx.agree('caches', {'history': case['history'], 'position': j}, fp, mfp)


def _def_order(ops, names):
    out = []
    for op in ops:
        if op['op'] == 'def':
            # nested classes are defined (and their Meta bound) before the class that nests them
            for nm in reversed(hist.classes_of(op['ty'])):
                if nm in names and nm not in out:
                    out.append(nm)
    return out


def same_name_history(rng):
    """a class with a Meta, then (in another namespace) a class with the same __qualname__ without one"""
    name = model.fresh('Same')
    st = rng.choice(['SNAKE', 'PASCAL'])
    src1 = (f'@dataclass\nclass {name}(JSONWizard):\n    class _(JSONWizard.Meta):\n        key_transform_with_dump = "{st}"\n'
            f'        raise_on_unknown_json_key = True\n    some_val: int\n')
    src2 = f'@dataclass\nclass {name}(JSONWizard):\n    some_val: int\n    other_val: int = 0\n'
    ops = [{'op': 'src', 'src': src1, 'defines': [name], 'tag': 'first'},
           {'op': 'dump', 'cls': name, 'expr': f'{name}(some_val=1)', 'gen': 1},
           {'op': 'src', 'src': src2, 'defines': [name], 'tag': 'second', 'same_name_as_configured': True},
           {'op': 'dump', 'cls': name, 'expr': f'{name}(some_val=2)', 'gen': 2},
           {'op': 'load', 'cls': name, 'doc': {'some_val': 1, 'zz': 2}, 'gen': 2}]
    if rng.random() < 0.5:
        del ops[1]
    return ops


def _masked_by_key_matching(ops, i, got, alone):
    """load side of the recorded leak when both runs reject the document.  A load stops at the first error, so an error that is
    itself the recorded symptom - a field reported missing although a spelling of its name is in the document, or (strict class) a
    spelling of a field name reported unknown - hides whatever the other run goes on to report (a key unknown in both runs, a field
    absent in both).  Same cause as attribute_nested_leak requires (a root with a load key transform / v1 key case reached the
    class); the symptom must account for every name that only the one run reports."""
    if ops[i]['op'] != 'load' or got[0] != 'err' or alone[0] != 'err' or not {got[1], alone[1]} <= {'MissingFields', 'UnknownKeysError'}:
        return False
    metas = class_metas(ops)
    if not [r for r in leak_roots(ops, i) if (metas.get(r) or {}).get('key_transform_with_load') or (metas.get(r) or {}).get('v1_key_case')]:
        return False
    used = set(ops[i].get('uses') or [ops[i]['cls']])
    strict_own = any((metas.get(c) or {}).get('raise_on_unknown_json_key') or (metas.get(c) or {}).get('v1_on_unknown_key') == 'RAISE' for c in used)
    fields_n = {_nkey(f) for f in FIELD_NAMES}
    exact, norm = _doc_keys(ops[i].get('doc'), exact=True), _doc_keys(ops[i].get('doc'))

    def symptom(a, b):
        only = set(a[2]) - (set(b[2]) if b[1] == a[1] else set())
        if not only:
            return False
        if a[1] == 'MissingFields':
            return all(_nkey(f) in norm for f in only)
        return strict_own and all(k in exact and _nkey(k) in fields_n for k in only)
    return symptom(got, alone) or symptom(alone, got)


def attribute_c07(ops, i, got, alone):
    k = attribute_nested_leak(ops, i, got, alone, field_names=FIELD_NAMES, field_defaults=FIELD_DEFAULTS)
    if k:
        return k
    if _masked_by_key_matching(ops, i, got, alone):
        return 'shared-nested-config-leak'
    # a later class with the same __qualname__ as an earlier class that declared an inner Meta
    if ops[i].get('gen') == 2 and any(o.get('same_name_as_configured') for o in ops[:i]):
        return 'meta-initializer-by-qualname'
    return None


def caches_stream(ctx, n, base_index=100000):
    """dump-only histories over nested / shared-nested families: every dump's (class, key style, timestamps?) fingerprint,
    observed in a forked pristine child, against the Lean cache state machine (which reproduces the recorded leak)"""
    rng = ctx.rng
    reqs, pend = [], []
    for j in range(n):
        i = base_index + j
        if ctx.done(i):
            break
        relation = rng.choice(['shared-nested', 'nested-alone', 'disjoint'])
        defs, f_ops, g_ops, lite = gen_pair(rng, relation)
        pool = [op for op in f_ops + g_ops if op['op'] == 'dump']
        seq = [copy.deepcopy(rng.choice(pool)) for _ in range(rng.randint(2, 6))]
        ops = defs + seq
        if not ctx.begin_case(i):
            continue
        full = hist.run_forked([ops])[0]
        if full and full[0] and full[0][0] == 'harness-error':
            ctx.count('harness_error')
            continue
        names = list(lite)
        idx = {nm: k for k, nm in enumerate(names)}
        mdefs = [{'id': idx[nm], 'own': lite_meta(lite[nm]['own']), 'nested': [idx[x] for x in lite[nm]['nested']]} for nm in names]
        mops = [['define', idx[nm]] for nm in _def_order(ops, names)]
        watch = []
        for k, op in enumerate(ops):
            if op['op'] == 'dump':
                mops.append(['dump', idx[op['cls']]])
                watch.append((k, len(mops) - 1, [op['cls']] + lite[op['cls']]['nested']))
        ctx.seen('caches', {'history': ops})
        reqs.append({'op': 'caches', 'defs': mdefs, 'ops': mops})
        pend.append(({'history': ops}, full, watch, names))
    if ctx.model_available and reqs:
        outs = ctx.driver.run(reqs)
        for (case, full, watch, names), o in zip(pend, outs):
            if 'err' in o and 'r' not in o:
                ctx.agree('caches', case, 'impl', {'driver_error': o['err']})
                continue
            mouts = o['r']['outs']
            for k, mk, order in watch:
                fp = fingerprint(full[k], order)
                if fp is None:
                    continue
                mfp = [[names[c], st, ts] for c, st, ts in mouts[mk]]
                ctx.agree('caches', {'history': case['history'], 'position': k}, fp, mfp)
