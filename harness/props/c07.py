"""C07 — configuration of one class never changes the behaviour of another."""
from __future__ import annotations

import copy
import json

from harness import common as C
from harness import hist, model
from harness.model import T
from harness.props.c06 import check_history, attribute_nested_leak, DT, _spell

STYLES = ['CAMEL', 'SNAKE', 'PASCAL', 'LISP']


def mk_cls(name, nested=None, meta=None, wizard=True):
    fields = [{'name': 'some_val'}, {'name': 'when_at'}]
    ftys = [['some_val', T('int')], ['when_at', T('datetime')]]
    if nested is not None:
        fields.append({'name': 'inner_obj'})
        ftys.append(['inner_obj', nested])
    fields.append({'name': 'dflt_val', 'dflt': ['lit', 3], 'factory': False})
    ftys.append(['dflt_val', T('int')])
    return {'k': 'cls', 'info': {'name': name, 'fields': fields, 'wizard': wizard, 'meta': meta}, 'ftys': ftys}


def inst_expr(name, nested_expr=None):
    e = f'{name}(some_val=1, when_at={DT}'
    if nested_expr is not None:
        e += f', inner_obj={nested_expr}'
    return e + ')'


def pick_meta(rng):
    if rng.random() < 0.3:
        return None
    m = {}
    if rng.random() < 0.7:
        m['key_transform_with_dump'] = rng.choice(STYLES)
    if rng.random() < 0.4:
        m['marshal_date_time_as'] = rng.choice(['TIMESTAMP', 'ISO_FORMAT'])
    if rng.random() < 0.15:
        m['recursive'] = False
    if rng.random() < 0.3:
        m['skip_defaults'] = True
    if rng.random() < 0.3:
        m['raise_on_unknown_json_key'] = True
    return m


def gen_pair(rng, relation):
    """family F (configured root + nested N) and family G in the given relation; returns (defs, F ops, G ops, lite)"""
    n = model.fresh('N')
    n_meta = pick_meta(rng) if rng.random() < 0.4 else None
    nwiz = rng.random() < 0.5
    f = model.fresh('F')
    f_meta = pick_meta(rng) or {'key_transform_with_dump': rng.choice(STYLES)}
    ncls = mk_cls(n, None, n_meta, nwiz)
    fcls = mk_cls(f, ncls, f_meta, True)
    defs = [{'op': 'def', 'ty': fcls}]
    f_ops = [{'op': 'dump', 'cls': f, 'expr': inst_expr(f, inst_expr(n)), 'uses': [f, n]},
             {'op': 'load', 'cls': f, 'doc': {'some_val': 1, 'when_at': '2020-01-01T00:00:00Z', 'inner_obj': {'some_val': 2, 'when_at': '2020-01-01T00:00:00Z'}}, 'uses': [f, n]}]
    lite = {f: {'own': f_meta, 'nested': [n]}, n: {'own': n_meta, 'nested': []}}
    if relation == 'disjoint':
        n2, g = model.fresh('N'), model.fresh('G')
        g_meta = pick_meta(rng)
        n2cls = mk_cls(n2, None, pick_meta(rng) if rng.random() < 0.3 else None, rng.random() < 0.5)
        gcls = mk_cls(g, n2cls, g_meta, rng.random() < 0.5)
        defs.append({'op': 'def', 'ty': gcls})
        g_ops = [{'op': 'dump', 'cls': g, 'expr': inst_expr(g, inst_expr(n2)), 'uses': [g, n2]},
                 {'op': 'load', 'cls': g, 'doc': {'someVal': 1, 'whenAt': '2020-01-01T00:00:00Z', 'innerObj': {'some_val': 2, 'when_at': 5}}, 'uses': [g, n2]},
                 {'op': 'dump', 'cls': n2, 'expr': inst_expr(n2), 'uses': [n2]}]
        lite[g] = {'own': model.own_meta(gcls['info']), 'nested': [n2]}
        lite[n2] = {'own': model.own_meta(n2cls['info']), 'nested': []}
    elif relation == 'shared-nested':
        g = model.fresh('G')
        g_meta = pick_meta(rng)
        gcls = mk_cls(g, ncls, g_meta, rng.random() < 0.5)
        defs.append({'op': 'def', 'ty': gcls})
        g_ops = [{'op': 'dump', 'cls': g, 'expr': inst_expr(g, inst_expr(n)), 'uses': [g, n]},
                 {'op': 'load', 'cls': g, 'doc': {'some_val': 1, 'when_at': '2020-01-01T00:00:00Z', 'inner_obj': {'someVal': 2, 'whenAt': '2020-01-01T00:00:00Z'}}, 'uses': [g, n]}]
        lite[g] = {'own': model.own_meta(gcls['info']), 'nested': [n]}
    elif relation == 'nested-alone':
        g_ops = [{'op': 'dump', 'cls': n, 'expr': inst_expr(n), 'uses': [n]},
                 {'op': 'load', 'cls': n, 'doc': {'someVal': 2, 'whenAt': '2020-01-01T00:00:00Z'}, 'uses': [n]},
                 {'op': 'load', 'cls': n, 'doc': {'some_val': 2, 'when_at': '2020-01-01T00:00:00Z', 'bogus_key': 1}, 'uses': [n]}]
    else:
        raise ValueError(relation)
    return defs, f_ops, g_ops, lite


# ---------------------------------------------------------------------------------------------------------------------------
# the wider universe (source-rendered): how the configured class gets its Meta (inner class / LoadMeta / DumpMeta / both, bound
# after the class exists), which mixin the classes use (JSONWizard, JSONPyWizard, YAMLWizard, TOMLWizard, JSONFileWizard and
# combinations), load-side settings (key transform, strict unknown keys) and the special, non-inherited attributes
# (json_key_to_field, tag).  Oracle only: the Lean cache machine models the dump side of inner Metas.

KINDS = {   # kind -> (bases, can carry an inner Meta, Meta implied by the mixin)
    'plain': ('', False, None),
    'json': ('(JSONWizard)', True, None),
    'py': ('(JSONPyWizard)', True, {'key_transform_with_dump': 'NONE'}),
    'yaml': ('(YAMLWizard)', False, {'key_transform_with_dump': 'LISP'}),
    'toml': ('(TOMLWizard)', False, {'key_transform_with_dump': 'NONE'}),
    'file': ('(JSONWizard, JSONFileWizard)', True, None),
    'json+yaml': ('(JSONWizard, YAMLWizard)', True, {'key_transform_with_dump': 'LISP'}),
    'json+toml': ('(JSONWizard, TOMLWizard)', True, {'key_transform_with_dump': 'NONE'}),
    'yaml-snake': ('(YAMLWizard, key_transform="SNAKE")', False, {'key_transform_with_dump': 'SNAKE'}),
}
MIXIN_GROUP = {'yaml': 'Y', 'json+yaml': 'Y', 'yaml-snake': 'Y', 'toml': 'T', 'json+toml': 'T', 'json': 'J', 'file': 'J', 'py': 'P', 'plain': '-'}
LOAD_STYLES = ['CAMEL', 'CAMEL', 'SNAKE', 'PASCAL', 'LISP', 'NONE']
ALIAS_KEY = 'fKey'
FIELD_NAMES = ['some_val', 'when_at', 'inner_obj', 'dflt_val']
FIELD_DEFAULTS = {'dflt_val': ['int', 3]}          # canonical defaults of the universe's defaulted scalar fields


def pick_meta2(rng, v1=False):
    """settings split by direction: {'dump': {...}, 'load': {...}, 'special': {...}}"""
    m = {'dump': {}, 'load': {}, 'special': {}}
    if rng.random() < 0.6:
        m['dump']['key_transform_with_dump'] = rng.choice(STYLES)
    if rng.random() < 0.3:
        m['dump']['marshal_date_time_as'] = rng.choice(['TIMESTAMP', 'ISO_FORMAT'])
    if rng.random() < 0.3:
        m['dump']['skip_defaults'] = True
    if rng.random() < 0.6:
        m['load']['key_transform_with_load'] = rng.choice(LOAD_STYLES)
    if rng.random() < 0.35:
        m['load']['raise_on_unknown_json_key'] = True
    if rng.random() < 0.55:
        m['special']['json_key_to_field'] = dict({ALIAS_KEY: 'some_val'}, **({'__all__': True} if rng.random() < 0.4 else {}))
    if rng.random() < 0.25:
        m['special']['tag'] = 'ftag'
    if rng.random() < 0.1:
        m['special']['recursive'] = False
    if not (m['dump'] or m['load'] or m['special']):
        m['dump']['key_transform_with_dump'] = rng.choice(STYLES)
    if v1:
        # the v1 engine: its own key case, unknown-key policy and (special, non-inherited) field-to-alias table
        m['load'] = {'v1': True}
        case = rng.choice([None, 'AUTO', 'CAMEL', 'SNAKE', 'PASCAL'])
        if case:
            m['load']['v1_key_case'] = case
        if rng.random() < 0.3:
            m['load']['v1_on_unknown_key'] = 'RAISE'
        m['special'].pop('json_key_to_field', None)
        if rng.random() < 0.55:
            m['special']['v1_field_to_alias'] = {'some_val': ALIAS_KEY}
    return m


def flat_meta(m):
    return None if m is None else dict(m['dump'], **m['load'], **m['special'])


def cls2(rng, name, kind, nested=None, shape='single', meta=None, style=None):
    """source + bind ops of one class of the universe; returns (ops, full own meta as the library sees it)"""
    bases, can_inner, implied = KINDS[kind]
    inner = ''
    binds = []
    if meta is not None:
        if style == 'inner':
            assert can_inner
            inner = '    class _(JSONWizard.Meta):\n' + ''.join(f'        {k} = {v!r}\n' for k, v in flat_meta(meta).items())
        else:
            load_part = dict(meta['load'])
            if 'key_transform_with_load' in load_part:
                load_part['key_transform'] = load_part.pop('key_transform_with_load')
            dump_part = dict(meta['dump'])
            if 'key_transform_with_dump' in dump_part:
                dump_part['key_transform'] = dump_part.pop('key_transform_with_dump')
            special = copy.deepcopy(meta['special'])
            if style == 'bind-load':
                parts = [('load', dict(load_part, **special))]
            elif style == 'bind-dump':
                parts = [('dump', dict(dump_part, **special))]
            else:
                sp_side = rng.choice(['load', 'dump'])
                parts = [('load', dict(load_part, **(special if sp_side == 'load' else {}))),
                         ('dump', dict(dump_part, **(special if sp_side == 'dump' else {})))]
                rng.shuffle(parts)
            binds = [{'op': 'bind', 'cls': name, 'kind': k, 'meta': mm} for k, mm in parts if mm]
    fields = '    some_val: int\n    when_at: datetime\n'
    if nested is not None:
        fields += {'single': f'    inner_obj: {nested}\n', 'list': f'    inner_obj: list[{nested}]\n', 'optional': f'    inner_obj: Optional[{nested}]\n'}[shape]
    fields += '    dflt_val: int = 3\n'
    src = f'@dataclass\nclass {name}{bases}:\n{inner}{fields}'
    own = dict(implied or {})
    bound = {}
    if meta is not None:
        if style == 'inner':
            bound = flat_meta(meta)
        else:
            for b in binds:
                for k, v in b['meta'].items():
                    bound[{'key_transform': 'key_transform_with_' + b['kind']}.get(k, k)] = v
    if style == 'inner' and meta is not None:
        own = bound if kind != 'py' else dict(own, **bound)      # an inner Meta replaces what the YAML / TOML mixin would have bound
    else:
        own.update(bound)
    op = {'op': 'src', 'src': src, 'defines': [name], 'requires': [nested] if nested else [], 'metas': {name: own or None}}
    if nested:
        op['nests'] = {name: [nested]}
    if own and own.get('recursive') is not False:
        op['configured'] = [name]
    return [op] + binds, (own or None)


def _inst2(name, nested_expr=None, shape='single'):
    e = f'{name}(some_val=1, when_at={DT}'
    if nested_expr is not None:
        e += ', inner_obj=' + {'single': nested_expr, 'list': f'[{nested_expr}]', 'optional': nested_expr}[shape]
    return e + ')'


def _doc2(rng, nested=False, shape='single', alias=False, extra=False, spell=False):
    one = rng.choice([None, None, 'CAMEL', 'PASCAL', 'LISP']) if spell else 'SNAKE'      # one spelling for the whole document, or one per key

    def key(k):
        return _spell(k, one or rng.choice(['SNAKE', 'CAMEL', 'PASCAL', 'LISP']))
    d = {key('some_val'): rng.choice([1, 2]), key('when_at'): rng.choice(['2020-01-01T00:00:00Z', 5])}
    if rng.random() < 0.4:
        d[key('dflt_val')] = 4
    if alias:
        d[ALIAS_KEY] = 99
        if rng.random() < 0.3:
            d = {k: v for k, v in d.items() if k.lower().replace('_', '').replace('-', '') != 'someval'}
    if extra:
        d[rng.choice(['bogus_key', 'bogusKey'])] = 1
    if nested:
        inner = _doc2(rng, False, alias=alias and rng.random() < 0.85, extra=extra and rng.random() < 0.5, spell=spell)
        d[key('inner_obj')] = [inner] if shape == 'list' else inner
    items = list(d.items())
    rng.shuffle(items)
    return dict(items)


def _ops2(rng, name, kind, nested, shape, uses, n_docs=3, n_dumps=2):
    """a pool of dumps and loads of one class: documents in every key spelling, with the configured family's alias key and an
    unknown key now and then"""
    dump_vias, load_vias = ['asdict', 'asdict'], ['fromdict', 'fromdict']
    if KINDS[kind][1]:                      # JSONWizard API
        dump_vias += ['method', 'to_json']
        load_vias += ['method', 'json']
    if MIXIN_GROUP[kind] == 'Y':
        dump_vias.append('yaml')
        load_vias.append('yaml')
    if MIXIN_GROUP[kind] == 'T':
        dump_vias.append('toml')
        load_vias.append('toml')
    pool = []
    for _ in range(n_dumps):
        pool.append({'op': 'dump', 'cls': name, 'expr': _inst2(name, _inst2(nested) if nested else None, shape),
                     'via': rng.choice(dump_vias), 'uses': uses})
    for _ in range(n_docs):
        pool.append({'op': 'load', 'cls': name, 'doc': _doc2(rng, bool(nested), shape, alias=rng.random() < 0.65, extra=rng.random() < 0.3, spell=rng.random() < 0.7),
                     'via': rng.choice(load_vias), 'uses': uses})
    return pool


def gen_pair2(rng, relation):
    """as gen_pair, over the wider universe; returns (defs, F ops, G ops)"""
    n, f = model.fresh('N'), model.fresh('F')
    f_kind = rng.choice(list(KINDS))
    _, can_inner, _ = KINDS[f_kind]
    f_style = rng.choice((['inner', 'inner'] if can_inner else []) + ['bind-load', 'bind-dump', 'bind-both'])
    f_meta = pick_meta2(rng, v1=rng.random() < 0.25)
    shape = rng.choice(['single', 'single', 'list', 'optional'])
    n_kind = rng.choice(['plain', 'plain', 'json'])
    n_defs, _ = cls2(rng, n, n_kind)
    f_defs, _ = cls2(rng, f, f_kind, n, shape, f_meta, f_style)
    defs = n_defs + f_defs
    f_ops = _ops2(rng, f, f_kind, n, shape, [f, n], n_dumps=3)
    if relation == 'disjoint':
        n2, g = model.fresh('N'), model.fresh('G')
        # the unrelated family often uses the same mixin as the configured one
        g_kind = rng.choice([k for k in KINDS if MIXIN_GROUP[k] == MIXIN_GROUP[f_kind]]) if rng.random() < 0.6 else rng.choice(list(KINDS))
        g_meta = pick_meta2(rng, v1=rng.random() < 0.2) if rng.random() < 0.25 else None
        g_style = rng.choice((['inner'] if KINDS[g_kind][1] else []) + ['bind-load', 'bind-dump', 'bind-both']) if g_meta else None
        g_shape = rng.choice(['single', 'list'])
        n2_defs, _ = cls2(rng, n2, rng.choice(['plain', 'json']))
        g_defs, _ = cls2(rng, g, g_kind, n2, g_shape, g_meta, g_style)
        g_all = n2_defs + g_defs
        # G may be defined before or after F
        defs = g_all + defs if rng.random() < 0.5 else defs + g_all
        g_ops = _ops2(rng, g, g_kind, n2, g_shape, [g, n2], n_docs=4) + _ops2(rng, n2, 'plain', None, None, [n2], n_docs=1)
    elif relation == 'shared-nested':
        g = model.fresh('G')
        g_kind = rng.choice(list(KINDS))
        g_meta = pick_meta2(rng, v1=rng.random() < 0.2) if rng.random() < 0.4 else None
        g_style = rng.choice((['inner'] if KINDS[g_kind][1] else []) + ['bind-load', 'bind-dump', 'bind-both']) if g_meta else None
        g_shape = rng.choice(['single', 'list'])
        g_defs, _ = cls2(rng, g, g_kind, n, g_shape, g_meta, g_style)
        defs = defs + g_defs
        g_ops = _ops2(rng, g, g_kind, n, g_shape, [g, n])
    elif relation == 'nested-alone':
        g_ops = _ops2(rng, n, n_kind, None, None, [n])
    else:
        raise ValueError(relation)
    return defs, f_ops, g_ops


def lite_meta(m):
    if m is None:
        return None
    return {'kt': m.get('key_transform_with_dump'), 'ts': (None if m.get('marshal_date_time_as') is None else m['marshal_date_time_as'] == 'TIMESTAMP'),
            'recursive': m.get('recursive')}


def fingerprint(out, order):
    """(class, key style, timestamp?) per class occurrence of a dump outcome, root first"""
    if out[0] != 'ok':
        return None
    res = []

    def style_of(d):
        ks = set(d)
        for st, key in (('CAMEL', 'someVal'), ('SNAKE', 'some_val'), ('PASCAL', 'SomeVal'), ('LISP', 'some-val')):
            if key in ks:
                return st
        return '?'

    def walk(d, names):
        if not names:
            return
        when = next((v for k, v in d.items() if k.lower().replace('_', '').replace('-', '') == 'whenat'), None)
        res.append([names[0], style_of(d), isinstance(when, int)])
        inner = next((v for k, v in d.items() if k.lower().replace('_', '').replace('-', '') == 'innerobj'), None)
        if isinstance(inner, dict):
            walk(inner, names[1:])
    walk(out[1], order)
    return res


def order_ops(rng, f_ops, g_ops):
    """operations of the two families in one of the orders G before F (and once more after), F before G, interleaved"""
    order = rng.choice(['g-first', 'f-first', 'interleaved'])
    f_seq = [copy.deepcopy(rng.choice(f_ops)) for _ in range(rng.randint(1, 3))]
    g_seq = [copy.deepcopy(rng.choice(g_ops)) for _ in range(rng.randint(1, 4))]
    if order == 'g-first':
        return g_seq + f_seq + copy.deepcopy(g_seq[:1])
    if order == 'f-first':
        return f_seq + g_seq
    seq = []
    a, b = list(f_seq), list(g_seq)
    while a or b:
        src = a if (a and (not b or rng.random() < 0.5)) else b
        seq.append(src.pop(0))
    return seq


def run(ctx: C.Ctx):
    rng = ctx.rng
    ctx.rule = ('pairs of class families (F: a root with a Meta over {dump key transform, TIMESTAMP/ISO, recursive} nesting N; G: disjoint / '
                'sharing the nested class N under another or no Meta / N used on its own / a later class with the same name; and the '
                'wider source-rendered universe: Meta given as inner class / LoadMeta / DumpMeta / both, classes on JSONWizard, JSONPyWizard, '
                'YAMLWizard, TOMLWizard, JSONFileWizard and combinations, load key transforms, strict unknown keys, json_key_to_field, tag, '
                'documents in every key spelling carrying the other family\'s alias key) in every '
                'operation order (G before F, after F, interleaved); each history runs in a forked pristine child; every G operation is re-run '
                'with only G\'s definitions in another pristine child (C07: behaviour of G with F == behaviour of G alone); dump outcomes are '
                'reduced to (class, key style, timestamps?) fingerprints and compared with the Lean cache state machine. '
                'Non-trivial = distinct (family pair, order, position).')
    n = ctx.quick(360, 4000)
    reqs, pend = [], []
    for i in range(n):
        if ctx.done(i):
            break
        relation = rng.choice(['disjoint', 'disjoint', 'shared-nested', 'shared-nested', 'nested-alone', 'same-name'])
        wide = relation != 'same-name' and rng.random() < 0.6
        if wide and relation != 'disjoint' and rng.random() < 0.4:
            relation = 'disjoint'      # unrelated families are where nothing at all may change
        if relation == 'same-name':
            ops, lite, ids = same_name_history(rng), None, None
        else:
            if wide:
                (defs, f_ops, g_ops), lite = gen_pair2(rng, relation), None
            else:
                defs, f_ops, g_ops, lite = gen_pair(rng, relation)
            ops = defs + order_ops(rng, f_ops, g_ops)
        if not ctx.begin_case(i):
            continue
        full = check_history(ctx, ('isolation-wide:' if wide else 'isolation:') + relation, i, ops, attribute=attribute_c07)
        # ---- correspondence with the cache state machine (dump fingerprints)
        if lite is not None and full and full[0] and full[0][0] != 'harness-error':
            names = list(lite)
            idx = {nm: k for k, nm in enumerate(names)}
            mdefs = [{'id': idx[nm], 'own': lite_meta(lite[nm]['own']), 'nested': [idx[x] for x in lite[nm]['nested']]} for nm in names]
            mops = [['define', idx[nm]] for nm in _def_order(ops, names)]
            watch = []
            for j, op in enumerate(ops):
                if op['op'] == 'dump':
                    mops.append(['dump', idx[op['cls']]])
                    watch.append((j, len(mops) - 1, [op['cls']] + lite[op['cls']]['nested']))
                elif op['op'] == 'load':
                    pass
            has_load = any(op['op'] == 'load' for op in ops)
            if not has_load:       # the machine models the dump side only
                reqs.append({'op': 'caches', 'defs': mdefs, 'ops': mops})
                pend.append(({'history': ops}, full, watch, names))
    caches_stream(ctx, ctx.quick(60, 800))
    if ctx.model_available and reqs:
        outs = ctx.driver.run(reqs)
        for (case, full, watch, names), o in zip(pend, outs):
            if 'err' in o and 'r' not in o:
                ctx.agree('caches', case, 'impl', {'driver_error': o['err']})
                continue
            mouts = o['r']['outs']
            for j, mj, order in watch:
                fp = fingerprint(full[j], order)
                if fp is None:
                    continue
                mfp = [[names[c], st, ts] for c, st, ts in mouts[mj]]
                ctx.agree('caches', {'history': case['history'], 'position': j}, fp, mfp)


def _def_order(ops, names):
    out = []
    for op in ops:
        if op['op'] == 'def':
            # nested classes are defined (and their Meta bound) before the class that nests them
            for nm in reversed(hist.classes_of(op['ty'])):
                if nm in names and nm not in out:
                    out.append(nm)
    return out


def same_name_history(rng):
    """a class with a Meta, then (in another namespace) a class with the same __qualname__ without one"""
    name = model.fresh('Same')
    st = rng.choice(['SNAKE', 'PASCAL'])
    src1 = (f'@dataclass\nclass {name}(JSONWizard):\n    class _(JSONWizard.Meta):\n        key_transform_with_dump = "{st}"\n'
            f'        raise_on_unknown_json_key = True\n    some_val: int\n')
    src2 = f'@dataclass\nclass {name}(JSONWizard):\n    some_val: int\n    other_val: int = 0\n'
    ops = [{'op': 'src', 'src': src1, 'defines': [name], 'tag': 'first'},
           {'op': 'dump', 'cls': name, 'expr': f'{name}(some_val=1)', 'gen': 1},
           {'op': 'src', 'src': src2, 'defines': [name], 'tag': 'second', 'same_name_as_configured': True},
           {'op': 'dump', 'cls': name, 'expr': f'{name}(some_val=2)', 'gen': 2},
           {'op': 'load', 'cls': name, 'doc': {'some_val': 1, 'zz': 2}, 'gen': 2}]
    if rng.random() < 0.5:
        del ops[1]
    return ops


def attribute_c07(ops, i, got, alone):
    k = attribute_nested_leak(ops, i, got, alone, field_names=FIELD_NAMES, field_defaults=FIELD_DEFAULTS)
    if k:
        return k
    # a later class with the same __qualname__ as an earlier class that declared an inner Meta
    if ops[i].get('gen') == 2 and any(o.get('same_name_as_configured') for o in ops[:i]):
        return 'meta-initializer-by-qualname'
    return None


def caches_stream(ctx, n, base_index=100000):
    """dump-only histories over nested / shared-nested families: every dump's (class, key style, timestamps?) fingerprint,
    observed in a forked pristine child, against the Lean cache state machine (which reproduces the recorded leak)"""
    rng = ctx.rng
    reqs, pend = [], []
    for j in range(n):
        i = base_index + j
        if ctx.done(i):
            break
        relation = rng.choice(['shared-nested', 'nested-alone', 'disjoint'])
        defs, f_ops, g_ops, lite = gen_pair(rng, relation)
        pool = [op for op in f_ops + g_ops if op['op'] == 'dump']
        seq = [copy.deepcopy(rng.choice(pool)) for _ in range(rng.randint(2, 6))]
        ops = defs + seq
        if not ctx.begin_case(i):
            continue
        full = hist.run_forked([ops])[0]
        if full and full[0] and full[0][0] == 'harness-error':
            ctx.count('harness_error')
            continue
        names = list(lite)
        idx = {nm: k for k, nm in enumerate(names)}
        mdefs = [{'id': idx[nm], 'own': lite_meta(lite[nm]['own']), 'nested': [idx[x] for x in lite[nm]['nested']]} for nm in names]
        mops = [['define', idx[nm]] for nm in _def_order(ops, names)]
        watch = []
        for k, op in enumerate(ops):
            if op['op'] == 'dump':
                mops.append(['dump', idx[op['cls']]])
                watch.append((k, len(mops) - 1, [op['cls']] + lite[op['cls']]['nested']))
        ctx.seen('caches', {'history': ops})
        reqs.append({'op': 'caches', 'defs': mdefs, 'ops': mops})
        pend.append(({'history': ops}, full, watch, names))
    if ctx.model_available and reqs:
        outs = ctx.driver.run(reqs)
        for (case, full, watch, names), o in zip(pend, outs):
            if 'err' in o and 'r' not in o:
                ctx.agree('caches', case, 'impl', {'driver_error': o['err']})
                continue
            mouts = o['r']['outs']
            for k, mk, order in watch:
                fp = fingerprint(full[k], order)
                if fp is None:
                    continue
                mfp = [[names[c], st, ts] for c, st, ts in mouts[mk]]
                ctx.agree('caches', {'history': case['history'], 'position': k}, fp, mfp)
