"""C07 — configuration of one class never changes the behaviour of another."""
from __future__ import annotations

import copy
import json

from harness import common as C
from harness import hist, model
from harness.model import T
from harness.props.c06 import check_history, attribute_nested_leak, DT

STYLES = ['CAMEL', 'SNAKE', 'PASCAL', 'LISP']


def mk_cls(name, nested=None, meta=None, wizard=True):
    fields = [{'name': 'some_val'}, {'name': 'when_at'}]
    ftys = [['some_val', T('int')], ['when_at', T('datetime')]]
    if nested is not None:
        fields.append({'name': 'inner_obj'})
        ftys.append(['inner_obj', nested])
    fields.append({'name': 'dflt_val', 'dflt': ['lit', 3], 'factory': False})
    ftys.append(['dflt_val', T('int')])
    return {'k': 'cls', 'info': {'name': name, 'fields': fields, 'wizard': wizard, 'meta': meta}, 'ftys': ftys}


def inst_expr(name, nested_expr=None):
    e = f'{name}(some_val=1, when_at={DT}'
    if nested_expr is not None:
        e += f', inner_obj={nested_expr}'
    return e + ')'


def pick_meta(rng):
    if rng.random() < 0.3:
        return None
    m = {}
    if rng.random() < 0.7:
        m['key_transform_with_dump'] = rng.choice(STYLES)
    if rng.random() < 0.4:
        m['marshal_date_time_as'] = rng.choice(['TIMESTAMP', 'ISO_FORMAT'])
    if rng.random() < 0.15:
        m['recursive'] = False
    if rng.random() < 0.3:
        m['skip_defaults'] = True
    if rng.random() < 0.3:
        m['raise_on_unknown_json_key'] = True
    return m


def gen_pair(rng, relation):
    """family F (configured root + nested N) and family G in the given relation; returns (defs, F ops, G ops, lite)"""
    n = model.fresh('N')
    n_meta = pick_meta(rng) if rng.random() < 0.4 else None
    nwiz = rng.random() < 0.5
    f = model.fresh('F')
    f_meta = pick_meta(rng) or {'key_transform_with_dump': rng.choice(STYLES)}
    ncls = mk_cls(n, None, n_meta, nwiz)
    fcls = mk_cls(f, ncls, f_meta, True)
    defs = [{'op': 'def', 'ty': fcls}]
    f_ops = [{'op': 'dump', 'cls': f, 'expr': inst_expr(f, inst_expr(n)), 'uses': [f, n]},
             {'op': 'load', 'cls': f, 'doc': {'some_val': 1, 'when_at': '2020-01-01T00:00:00Z', 'inner_obj': {'some_val': 2, 'when_at': '2020-01-01T00:00:00Z'}}, 'uses': [f, n]}]
    lite = {f: {'own': f_meta, 'nested': [n]}, n: {'own': n_meta, 'nested': []}}
    if relation == 'disjoint':
        n2, g = model.fresh('N'), model.fresh('G')
        g_meta = pick_meta(rng)
        n2cls = mk_cls(n2, None, pick_meta(rng) if rng.random() < 0.3 else None, rng.random() < 0.5)
        gcls = mk_cls(g, n2cls, g_meta, rng.random() < 0.5)
        defs.append({'op': 'def', 'ty': gcls})
        g_ops = [{'op': 'dump', 'cls': g, 'expr': inst_expr(g, inst_expr(n2)), 'uses': [g, n2]},
                 {'op': 'load', 'cls': g, 'doc': {'someVal': 1, 'whenAt': '2020-01-01T00:00:00Z', 'innerObj': {'some_val': 2, 'when_at': 5}}, 'uses': [g, n2]},
                 {'op': 'dump', 'cls': n2, 'expr': inst_expr(n2), 'uses': [n2]}]
        lite[g] = {'own': model.own_meta(gcls['info']), 'nested': [n2]}
        lite[n2] = {'own': model.own_meta(n2cls['info']), 'nested': []}
    elif relation == 'shared-nested':
        g = model.fresh('G')
        g_meta = pick_meta(rng)
        gcls = mk_cls(g, ncls, g_meta, rng.random() < 0.5)
        defs.append({'op': 'def', 'ty': gcls})
        g_ops = [{'op': 'dump', 'cls': g, 'expr': inst_expr(g, inst_expr(n)), 'uses': [g, n]},
                 {'op': 'load', 'cls': g, 'doc': {'some_val': 1, 'when_at': '2020-01-01T00:00:00Z', 'inner_obj': {'someVal': 2, 'whenAt': '2020-01-01T00:00:00Z'}}, 'uses': [g, n]}]
        lite[g] = {'own': model.own_meta(gcls['info']), 'nested': [n]}
    elif relation == 'nested-alone':
        g_ops = [{'op': 'dump', 'cls': n, 'expr': inst_expr(n), 'uses': [n]},
                 {'op': 'load', 'cls': n, 'doc': {'someVal': 2, 'whenAt': '2020-01-01T00:00:00Z'}, 'uses': [n]},
                 {'op': 'load', 'cls': n, 'doc': {'some_val': 2, 'when_at': '2020-01-01T00:00:00Z', 'bogus_key': 1}, 'uses': [n]}]
    else:
        raise ValueError(relation)
    return defs, f_ops, g_ops, lite


def lite_meta(m):
    if m is None:
        return None
    return {'kt': m.get('key_transform_with_dump'), 'ts': (None if m.get('marshal_date_time_as') is None else m['marshal_date_time_as'] == 'TIMESTAMP'),
            'recursive': m.get('recursive')}


def fingerprint(out, order):
    """(class, key style, timestamp?) per class occurrence of a dump outcome, root first"""
    if out[0] != 'ok':
        return None
    res = []

    def style_of(d):
        ks = set(d)
        for st, key in (('CAMEL', 'someVal'), ('SNAKE', 'some_val'), ('PASCAL', 'SomeVal'), ('LISP', 'some-val')):
            if key in ks:
                return st
        return '?'

    def walk(d, names):
        if not names:
            return
        when = next((v for k, v in d.items() if k.lower().replace('_', '').replace('-', '') == 'whenat'), None)
        res.append([names[0], style_of(d), isinstance(when, int)])
        inner = next((v for k, v in d.items() if k.lower().replace('_', '').replace('-', '') == 'innerobj'), None)
        if isinstance(inner, dict):
            walk(inner, names[1:])
    walk(out[1], order)
    return res


def run(ctx: C.Ctx):
    rng = ctx.rng
    ctx.rule = ('pairs of class families (F: a root with a Meta over {dump key transform, TIMESTAMP/ISO, recursive} nesting N; G: disjoint / '
                'sharing the nested class N under another or no Meta / N used on its own / a later class with the same name) in every '
                'operation order (G before F, after F, interleaved); each history runs in a forked pristine child; every G operation is re-run '
                'with only G\'s definitions in another pristine child (C07: behaviour of G with F == behaviour of G alone); dump outcomes are '
                'reduced to (class, key style, timestamps?) fingerprints and compared with the Lean cache state machine. '
                'Non-trivial = distinct (family pair, order, position).')
    n = ctx.quick(90, 1200)
    reqs, pend = [], []
    for i in range(n):
        if ctx.done(i):
            break
        relation = rng.choice(['disjoint', 'disjoint', 'shared-nested', 'shared-nested', 'nested-alone', 'same-name'])
        if relation == 'same-name':
            ops, lite, ids = same_name_history(rng), None, None
        else:
            defs, f_ops, g_ops, lite = gen_pair(rng, relation)
            order = rng.choice(['g-first', 'f-first', 'interleaved'])
            f_seq = [copy.deepcopy(rng.choice(f_ops)) for _ in range(rng.randint(1, 3))]
            g_seq = [copy.deepcopy(rng.choice(g_ops)) for _ in range(rng.randint(1, 4))]
            if order == 'g-first':
                seq = g_seq + f_seq + g_seq[:1]
            elif order == 'f-first':
                seq = f_seq + g_seq
            else:
                seq = []
                a, b = list(f_seq), list(g_seq)
                while a or b:
                    src = a if (a and (not b or rng.random() < 0.5)) else b
                    seq.append(src.pop(0))
            ops = defs + seq
        if not ctx.begin_case(i):
            continue
        full = check_history(ctx, 'isolation:' + relation, i, ops, attribute=attribute_c07)
        # ---- correspondence with the cache state machine (dump fingerprints)
        if lite is not None and full and full[0] and full[0][0] != 'harness-error':
            names = list(lite)
            idx = {nm: k for k, nm in enumerate(names)}
            mdefs = [{'id': idx[nm], 'own': lite_meta(lite[nm]['own']), 'nested': [idx[x] for x in lite[nm]['nested']]} for nm in names]
            mops = [['define', idx[nm]] for nm in _def_order(ops, names)]
            watch = []
            for j, op in enumerate(ops):
                if op['op'] == 'dump':
                    mops.append(['dump', idx[op['cls']]])
                    watch.append((j, len(mops) - 1, [op['cls']] + lite[op['cls']]['nested']))
                elif op['op'] == 'load':
                    pass
            has_load = any(op['op'] == 'load' for op in ops)
            if not has_load:       # the machine models the dump side only
                reqs.append({'op': 'caches', 'defs': mdefs, 'ops': mops})
                pend.append(({'history': ops}, full, watch, names))
    caches_stream(ctx, ctx.quick(60, 800))
    if ctx.model_available and reqs:
        outs = ctx.driver.run(reqs)
        for (case, full, watch, names), o in zip(pend, outs):
            if 'err' in o and 'r' not in o:
                ctx.agree('caches', case, 'impl', {'driver_error': o['err']})
                continue
            mouts = o['r']['outs']
            for j, mj, order in watch:
                fp = fingerprint(full[j], order)
                if fp is None:
                    continue
                mfp = [[names[c], st, ts] for c, st, ts in mouts[mj]]
                ctx.agree('caches', {'history': case['history'], 'position': j}, fp, mfp)


def _def_order(ops, names):
    out = []
    for op in ops:
        if op['op'] == 'def':
            # nested classes are defined (and their Meta bound) before the class that nests them
            for nm in reversed(hist.classes_of(op['ty'])):
                if nm in names and nm not in out:
                    out.append(nm)
    return out


def same_name_history(rng):
    """a class with a Meta, then (in another namespace) a class with the same __qualname__ without one"""
    name = model.fresh('Same')
    st = rng.choice(['SNAKE', 'PASCAL'])
    src1 = (f'@dataclass\nclass {name}(JSONWizard):\n    class _(JSONWizard.Meta):\n        key_transform_with_dump = "{st}"\n'
            f'        raise_on_unknown_json_key = True\n    some_val: int\n')
    src2 = f'@dataclass\nclass {name}(JSONWizard):\n    some_val: int\n    other_val: int = 0\n'
    ops = [{'op': 'src', 'src': src1, 'defines': [name], 'tag': 'first'},
           {'op': 'dump', 'cls': name, 'expr': f'{name}(some_val=1)', 'gen': 1},
           {'op': 'src', 'src': src2, 'defines': [name], 'tag': 'second', 'same_name_as_configured': True},
           {'op': 'dump', 'cls': name, 'expr': f'{name}(some_val=2)', 'gen': 2},
           {'op': 'load', 'cls': name, 'doc': {'some_val': 1, 'zz': 2}, 'gen': 2}]
    if rng.random() < 0.5:
        del ops[1]
    return ops


def attribute_c07(ops, i, got, alone):
    k = attribute_nested_leak(ops, i, got, alone)
    if k:
        return k
    # a later class with the same __qualname__ as an earlier class that declared an inner Meta
    if ops[i].get('gen') == 2 and any(o.get('same_name_as_configured') for o in ops[:i]):
        return 'meta-initializer-by-qualname'
    return None


def caches_stream(ctx, n, base_index=100000):
    """dump-only histories over nested / shared-nested families: every dump's (class, key style, timestamps?) fingerprint,
    observed in a forked pristine child, against the Lean cache state machine (which reproduces the recorded leak)"""
    rng = ctx.rng
    reqs, pend = [], []
    for j in range(n):
        i = base_index + j
        if ctx.done(i):
            break
        relation = rng.choice(['shared-nested', 'nested-alone', 'disjoint'])
        defs, f_ops, g_ops, lite = gen_pair(rng, relation)
        pool = [op for op in f_ops + g_ops if op['op'] == 'dump']
        seq = [copy.deepcopy(rng.choice(pool)) for _ in range(rng.randint(2, 6))]
        ops = defs + seq
        if not ctx.begin_case(i):
            continue
        full = hist.run_forked([ops])[0]
        if full and full[0] and full[0][0] == 'harness-error':
            ctx.count('harness_error')
            continue
        names = list(lite)
        idx = {nm: k for k, nm in enumerate(names)}
        mdefs = [{'id': idx[nm], 'own': lite_meta(lite[nm]['own']), 'nested': [idx[x] for x in lite[nm]['nested']]} for nm in names]
        mops = [['define', idx[nm]] for nm in _def_order(ops, names)]
        watch = []
        for k, op in enumerate(ops):
            if op['op'] == 'dump':
                mops.append(['dump', idx[op['cls']]])
                watch.append((k, len(mops) - 1, [op['cls']] + lite[op['cls']]['nested']))
        ctx.seen('caches', {'history': ops})
        reqs.append({'op': 'caches', 'defs': mdefs, 'ops': mops})
        pend.append(({'history': ops}, full, watch, names))
    if ctx.model_available and reqs:
        outs = ctx.driver.run(reqs)
        for (case, full, watch, names), o in zip(pend, outs):
            if 'err' in o and 'r' not in o:
                ctx.agree('caches', case, 'impl', {'driver_error': o['err']})
                continue
            mouts = o['r']['outs']
            for k, mk, order in watch:
                fp = fingerprint(full[k], order)
                if fp is None:
                    continue
                mfp = [[names[c], st, ts] for c, st, ts in mouts[mk]]
                ctx.agree('caches', {'history': case['history'], 'position': k}, fp, mfp)
