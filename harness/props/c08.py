"""C08 — every documented key spelling, alias or path reaches its field, both ways.

Part A (this file, string level): correspondence of the Lean scanners in
DW/Model/Strings.lean and DW/Model/ObjPath.lean with the real `string_conv` /
`object_path` functions, exhaustively over a small alphabet plus random longer strings;
and the oracle clauses that are pure string facts (casing round trips for canonical
snake_case names, path parse round trip).
Part B (harness/props/c08_e2e.py, imported below when present): the end-to-end clauses through
fromdict/asdict with re-spelled keys, aliases and paths.
"""
from __future__ import annotations

import itertools
import json
import math
import random

from harness import common as C
from harness.props import c08_tok

ALPHABET = ['a', 'B', '1', '_', '-', '.', '[', ']', "'", '"', '\\', ' ']
STR_FNS = ['snake', 'lisp', 'camel', 'pascal', 'normalize', 'possible_keys']


def _impl_str(fn, s):
    from dataclass_wizard.utils import string_conv as sc
    try:
        if fn == 'snake':
            return sc.to_snake_case(s)
        if fn == 'lisp':
            return sc.to_lisp_case(s)
        if fn == 'camel':
            return sc.to_camel_case(s)
        if fn == 'pascal':
            return sc.to_pascal_case(s)
        if fn == 'normalize':
            return sc.normalize(s)
        if fn == 'possible_keys':
            return sc.possible_json_keys(s)
        if fn == 'collapse':
            return sc.replace_multi_with_single(s)
    except IndexError:
        return None
    raise KeyError(fn)


def _impl_path(s):
    from dataclass_wizard.utils.object_path import split_object_path
    return [_comp(c) for c in split_object_path(s)]


def _comp(c):
    if c is True or c is False:
        return {'b': c}
    if isinstance(c, int):
        return {'i': c}
    if isinstance(c, float):
        return {'f': _fl(c)}
    return {'s': c}


def _fl(x):
    if math.isnan(x):
        return 'nan'
    return repr(x)


def _model_path_canon(r):
    out = []
    for c in r:
        if 'f' in c:
            out.append({'f': _fl(float(c['f']))})   # the stdlib decides the value of the accepted token
        else:
            out.append(c)
    return out


def words(rng):
    n = rng.randint(1, 4)
    ws = []
    for _ in range(n):
        w = ''.join(rng.choice('abcdefghijklmnopqrstuvwxyz') for _ in range(rng.randint(2, 6)))
        if rng.random() < 0.3:
            w += ''.join(rng.choice('0123456789') for _ in range(rng.randint(1, 3)))
        ws.append(w)
    return ws


CASINGS = {
    'snake': lambda ws: '_'.join(ws),
    'camel': lambda ws: ws[0] + ''.join(w[0].upper() + w[1:] for w in ws[1:]),
    'pascal': lambda ws: ''.join(w[0].upper() + w[1:] for w in ws),
    'kebab': lambda ws: '-'.join(ws),
    'upper_kebab': lambda ws: '-'.join(w[0].upper() + w[1:] for w in ws),
    'upper_snake': lambda ws: '_'.join(w[0].upper() + w[1:] for w in ws),
    'screaming': lambda ws: '_'.join(w.upper() for w in ws),
}


def render_path(comps):
    """Render a component list in the bracket syntax the tokenizer documents."""
    out = []
    for c in comps:
        if isinstance(c, bool):
            out.append('[' + ('true' if c else 'false') + ']')
        elif isinstance(c, int):
            out.append('[%d]' % c)
        elif isinstance(c, float):
            out.append('[%r]' % c)
        else:
            q = '"'
            out.append('[' + q + c.replace('\\', '\\\\').replace(q, '\\' + q) + q + ']')
    return ''.join(out)


def rand_comp(rng):
    r = rng.random()
    if r < 0.15:
        return rng.choice([True, False])
    if r < 0.35:
        return rng.choice([0, 1, -1, 7, -321, 10 ** 20, rng.randint(-1000, 1000)])
    if r < 0.45:
        return rng.choice([1.5, -2.25, 0.5, 1e10, -0.125, 3.0])
    chars = ALPHABET + list('xyzTrueFals0123+') + ['é', '漢', '\n']
    n = rng.randint(1, 6)
    return ''.join(rng.choice(chars) for _ in range(n))


def path_roundtrip_ok(comps):
    """The oracle's domain for split(render(p)) == p: string components that do not end in an
    odd run of backslashes (the tokenizer has no escape for a backslash itself, so such a
    component is not expressible in the syntax)."""
    for c in comps:
        if isinstance(c, str):
            if c == '' or '\\' in c:
                return False
    return True


def run(ctx: C.Ctx):
    # the end-to-end part draws from its own stream (seeded from ctx.rng first), so that a replay of one of its
    # index-addressed cases (ctx.only) can skip the string-level part without changing what it generates
    e2e_rng = random.Random(ctx.rng.getrandbits(64))
    nest_rng = random.Random(ctx.rng.getrandbits(64))
    # part E: the clauses under other interpreter settings (python -O / -OO / -X dev / ...), in child interpreters that run next to
    # the parts below (c08_proc.py)
    from harness.props import c08_proc
    children = c08_proc.start(ctx)
    try:
        _run_parts(ctx, e2e_rng, nest_rng)
    finally:
        c08_proc.collect(ctx, children)


def _run_parts(ctx, e2e_rng, nest_rng):
    if ctx.only is None:
        _run_strings(ctx)
    try:
        from harness.props import c08_e2e
    except ImportError:
        c08_e2e = None
    if c08_e2e is not None:
        c08_e2e.run(ctx, e2e_rng)
        # part C: the same class models reached through enclosing classes, over histories (c08_nest.py)
        from harness.props import c08_nest
        c08_nest.run(ctx, nest_rng)
        # part D: the same class models when the first use of the class fails (a forward-referenced class is defined late) and is
        # repeated (c08_late.py); its own stream of the seed, so the streams above are what they were
        from harness.props import c08_late
        c08_late.run(ctx, random.Random(f'{ctx.prop_id}:{ctx.seed}:late'))


def _run_strings(ctx: C.Ctx):
    rng = ctx.rng
    ctx.rule = ('string level: every string over the 12-symbol alphabet up to length L (exhaustive) plus random '
                'longer ASCII strings, through to_snake/lisp/camel/pascal_case, normalize, possible_json_keys and '
                'split_object_path, model vs implementation; canonical snake names x 7 casings; random path component '
                'lists rendered in bracket syntax; token-grammar paths of 1..8 components (bare words incl. true/false/null '
                'in every casing, ints, floats, quoted strings with both quote characters / dots / brackets / escapes, '
                'bracketed forms, junk pieces, every third path with a quoted component followed by bare bool / int '
                'components) against the model and, when every token is well formed, against the denotation of the grammar. '
                'Non-trivial = distinct (function, input) whose output differs from the input.')
    L = ctx.quick(4, 5)
    reqs, meta = [], []

    def add(fn, s, nontrivial_hint=True):
        reqs.append({'op': 'str', 'fn': fn, 's': s, **({} if fn != 'resolve' else {})})
        meta.append((fn, s))

    if not ctx.search:
        for n in range(0, L + 1):
            for tup in itertools.product(ALPHABET, repeat=n):
                s = ''.join(tup)
                for fn in ('snake', 'camel', 'path'):
                    add(fn, s)
                if n <= L - 1:
                    for fn in ('lisp', 'pascal', 'normalize', 'possible_keys', 'int', 'isfloat'):
                        add(fn, s)
        ctx.exhaustive = True
    # random longer strings (ASCII letters/digits/separators)
    pool = list('abcXYZ019_- ') + ['.', '[', ']', '"', "'", '\\', '+', 'e', 'E', 'T', 'r', 'u']
    for _ in range(ctx.quick(3000, 30000)):
        s = ''.join(rng.choice(pool) for _ in range(rng.randint(5, 18)))
        for fn in ('snake', 'lisp', 'camel', 'pascal', 'normalize', 'possible_keys', 'path', 'int', 'isfloat'):
            add(fn, s)
    # token-grammar paths (long paths; quoted components followed by bare true/false/int components)
    tokpaths = []
    for k in range(ctx.quick(6000, 60000)):
        text, expected, tags = c08_tok.gen_path(rng, 1, 8, force_reset=(k % 3 == 0))
        tokpaths.append((text, expected, tags))
        add('path', text)
    # canonical names in every casing
    names = []
    for _ in range(ctx.quick(400, 4000)):
        ws = words(rng)
        names.append(ws)
        for cname, cf in CASINGS.items():
            s = cf(ws)
            for fn in ('snake', 'camel', 'pascal', 'lisp', 'possible_keys'):
                add(fn, s)

    outs = ctx.driver.run(reqs) if ctx.model_available else [None] * len(reqs)
    for (fn, s), o in zip(meta, outs):
        if fn == 'path':
            impl = _impl_path(s)
        elif fn == 'int':
            try:
                impl = int(s)
            except ValueError:
                impl = None
        elif fn == 'isfloat':
            try:
                float(s)
                impl = True
            except ValueError:
                impl = False
        else:
            impl = _impl_str(fn, s)
        ctx.seen('str:' + fn, s, nontrivial=(impl != s))
        if o is None:
            continue
        if 'err' in o:
            ctx.agree('str:' + fn, s, impl, {'driver_error': o['err']})
            continue
        model = o['r']
        if fn == 'path':
            model = _model_path_canon(model)
        ctx.agree('str:' + fn, s, impl, model)

    # ---- oracle (property stated on the implementation), string-level clauses
    from dataclass_wizard.utils.string_conv import to_snake_case, possible_json_keys
    from dataclass_wizard.utils.object_path import split_object_path
    for ws in names:
        name = '_'.join(ws)
        for cname, cf in CASINGS.items():
            key = cf(ws)
            ctx.seen('oracle:casing', [name, cname])
            got = to_snake_case(key)
            if got.lower() != name:
                ctx.fail('oracle:casing', dict(name=name, casing=cname, key=key),
                         f'to_snake_case({key!r}) = {got!r}, does not reach field {name!r}')
        # v1 AUTO: every documented casing is among the candidate keys (or is the name itself)
        cands = set(possible_json_keys(name)) | {name}
        for cname in ('camel', 'pascal', 'kebab', 'upper_kebab', 'upper_snake', 'snake'):
            key = CASINGS[cname](ws)
            if key not in cands:
                ctx.fail('oracle:auto-keys', dict(name=name, casing=cname, key=key),
                         f'possible_json_keys({name!r}) misses the {cname} spelling {key!r}')
    for _ in range(ctx.quick(3000, 40000)):
        comps = [rand_comp(rng) for _ in range(rng.randint(1, 5))]
        if not path_roundtrip_ok(comps):
            continue
        txt = render_path(comps)
        ctx.seen('oracle:path', txt)
        got = split_object_path(txt)
        if not _same_comps(got, comps):
            ctx.fail('oracle:path', dict(components=[_comp(c) for c in comps], text=txt),
                     f'split_object_path({txt!r}) = {got!r}, expected {comps!r}')

    # token grammar: the reference denotation of every well-formed token list
    for text, expected, tags in tokpaths:
        if expected is None:
            continue
        ctx.seen('oracle:tokpath', text, nontrivial=len(expected) > 1)
        got = split_object_path(text)
        if not _same_comps(got, expected):
            key = _tokpath_key(text, got, expected)
            if key is not None:
                # a handful per known-finding class: they must never crowd a new failure out of the bounded list
                kc = ctx.notes.setdefault('tokpath_keyed_failures', {})
                kc[key] = kc.get(key, 0) + 1
                if kc[key] > 5:
                    continue
            ctx.fail('oracle:tokpath', dict(components=[_comp(c) for c in expected], text=text, tags=tags),
                     f'split_object_path({text!r}) = {got!r}, the syntax denotes {expected!r}', key=key)


def _tokpath_key(text, got, expected):
    """known-finding attribution: inside a quoted component a backslash directly before `.` or `[` is not
    kept in place (the separator branch of the tokenizer runs before the pending-escape branch, so the
    backslash is emitted after the separator character, or swallows the closing quote)."""
    import re
    if re.search(r'\\[.\[]', text):
        return 'path-backslash-before-separator-in-quotes'
    return None


def _same_comps(a, b):
    if len(a) != len(b):
        return False
    for x, y in zip(a, b):
        if type(x) is not type(y):
            return False
        if x != y and not (isinstance(x, float) and math.isnan(x) and math.isnan(y)):
            return False
    return True


def replay(obj):
    C.setup_repo_path()
    kind, case = obj['kind'], obj['case']
    from dataclass_wizard.utils.string_conv import to_snake_case, possible_json_keys
    from dataclass_wizard.utils.object_path import split_object_path
    if kind == 'oracle:casing':
        got = to_snake_case(case['key'])
        return dict(violated=got.lower() != case['name'], got=got, expected=case['name'])
    if kind == 'oracle:auto-keys':
        c = set(possible_json_keys(case['name'])) | {case['name']}
        return dict(violated=case['key'] not in c, candidates=sorted(c))
    if kind in ('oracle:path', 'oracle:tokpath'):
        got = split_object_path(case['text'])
        return dict(violated=[_comp(c) for c in got] != case['components'], got=[_comp(c) for c in got],
                    expected=case['components'])
    try:
        from harness.props import c08_e2e
        return c08_e2e.replay(obj)
    except ImportError:
        return dict(violated=False, note='unknown kind')
