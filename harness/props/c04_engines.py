"""C04, the two other engines: v1 (`Meta.v1 = True`) and EnvWizard (`EnvLoader`).

Called from harness/props/c04.py `run` after the default-engine stream.  Case indices are offset (V1_BASE /
ENV_BASE / SPLIT_BASE) so that index-based replay keeps working for all streams of the check.

Oracles
  * documented coercion: c04.ref_coerce(T, v, engine) on the documented domain (docs/overview.rst "Special Cases",
    README "What's New in v1.0", the v1 `load_to_int` docstring, docs/env_magic.rst for the env string forms);
  * position independence: the value loaded for `v` at type `T` in any nesting context equals the value loaded for
    the same `v` at the bare position (the position directly under Optional[...] keeps None) — no documentation
    needed for this one, it is the "same at every nesting position" clause of the property.
Model correspondence: v1 through op "loadv1" (DW/Model/LoadV1.lean), env through op "c04" (DW/Model/EnvLoad.lean).
"""
from __future__ import annotations

import collections
import copy
import enum
import json
import os
import random
import re

from harness import model, ref
from harness.model import T

V1_BASE = 100000
ENV_BASE = 200000
SPLIT_BASE = 300000

KEY_TUPLE_LEN = 'env-tuple-length-of-unsplit-string'


# --------------------------------------------------------------------------- shared helpers

def canon_leaf(g):
    """comparable form of a loaded leaf value (Enum classes differ per generated module: compare member names)"""
    if isinstance(g, enum.Enum):
        return ['enum', g.name]
    if isinstance(g, float) and g != g:
        return ['float', 'nan']
    return [type(g).__name__, repr(g)]


def same_leaf(g, exp, ename=None):
    if exp == ('none',):
        return g is None
    if isinstance(exp, tuple) and exp and exp[0] == 'enum':
        return isinstance(g, enum.Enum) and g.name == exp[1] and (ename is None or type(g).__name__ == ename)
    return ref.same_typed(g, exp)


def plain_cls(name, fields):
    """a plain @dataclass (no wizard, no Meta) as a class model"""
    return {'k': 'cls', 'info': {'name': name, 'fields': [{'name': n} for n, _ in fields], 'wizard': False, 'meta': None},
            'ftys': [[n, t] for n, t in fields]}


def opt(t):
    return T('optional', t)


# --------------------------------------------------------------------------- v1

# name -> (type builder, document builder, leaf extractor, {flags})
#   flags: 'str_only' = the leaf sits at a dict-key position (JSON keys are strings);
#          'none_stays' = the leaf position is directly under Optional / a Union with None
def _v1_contexts():
    def nt(t):
        return {'k': 'namedtuple', 'name': model.fresh('NT'), 'fields': [['a', T('str'), None], ['b', t, None]]}

    def td(t):
        return {'k': 'typeddict', 'name': model.fresh('TD'), 'fields': [['a', t, True]]}

    def inner(t):
        return plain_cls(model.fresh('N'), [('inner_val', t)])

    other = lambda: T('dict', T('str'), T('str'))       # a Union member no scalar / list input can load as
    C = collections.OrderedDict()
    C['bare'] = (lambda t: t, lambda v: v, lambda y: [y], set())
    C['optional'] = (lambda t: opt(t), lambda v: v, lambda y: [y], {'none_stays'})
    C['list'] = (lambda t: T('list', t), lambda v: [v, v], lambda y: list(y), set())
    C['vtuple'] = (lambda t: T('vtuple', t), lambda v: [v], lambda y: list(y), set())
    C['tuple'] = (lambda t: T('tuple', T('str'), t), lambda v: ['s', v], lambda y: [y[1]], set())
    C['dictval'] = (lambda t: T('dict', T('str'), t), lambda v: {'k': v}, lambda y: [y['k']], set())
    C['dictkey'] = (lambda t: T('dict', t, T('int')), lambda v: {v: 1}, lambda y: list(y), {'str_only'})
    C['set'] = (lambda t: T('set', t), lambda v: [v], lambda y: list(y), set())
    C['listlist'] = (lambda t: T('list', T('list', t)), lambda v: [[v], []], lambda y: [y[0][0]], set())
    C['namedtuple'] = (lambda t: nt(t), lambda v: ['s', v], lambda y: [y.b], set())
    C['typeddict'] = (lambda t: td(t), lambda v: {'a': v}, lambda y: [y['a']], set())
    C['nested'] = (lambda t: inner(t), lambda v: {'inner_val': v}, lambda y: [y.inner_val], set())
    C['union'] = (lambda t: T('union', t, other()), lambda v: v, lambda y: [y], set())
    C['union-none'] = (lambda t: T('union', t, other(), T('none')), lambda v: v, lambda y: [y], {'none_stays'})
    # ---- the same containers wrapped in Optional[...] (resp. a Union with None)
    C['opt-list'] = (lambda t: opt(T('list', t)), lambda v: [v, v], lambda y: list(y), set())
    C['opt-vtuple'] = (lambda t: opt(T('vtuple', t)), lambda v: [v], lambda y: list(y), set())
    C['opt-tuple'] = (lambda t: opt(T('tuple', T('str'), t)), lambda v: ['s', v], lambda y: [y[1]], set())
    C['opt-dictval'] = (lambda t: opt(T('dict', T('str'), t)), lambda v: {'k': v}, lambda y: [y['k']], set())
    C['opt-dictkey'] = (lambda t: opt(T('dict', t, T('int'))), lambda v: {v: 1}, lambda y: list(y), {'str_only'})
    C['opt-set'] = (lambda t: opt(T('set', t)), lambda v: [v], lambda y: list(y), set())
    C['opt-listlist'] = (lambda t: opt(T('list', T('list', t))), lambda v: [[v], []], lambda y: [y[0][0]], set())
    C['opt-namedtuple'] = (lambda t: opt(nt(t)), lambda v: ['s', v], lambda y: [y.b], set())
    C['opt-typeddict'] = (lambda t: opt(td(t)), lambda v: {'a': v}, lambda y: [y['a']], set())
    C['opt-nested'] = (lambda t: opt(inner(t)), lambda v: {'inner_val': v}, lambda y: [y.inner_val], set())
    C['list-of-opt-list'] = (lambda t: T('list', opt(T('list', t))), lambda v: [[v], None], lambda y: [y[0][0]], set())
    C['union-list-none'] = (lambda t: T('union', T('list', t), other(), T('none')), lambda v: [v, v], lambda y: list(y), set())
    return C


V1_CONTEXTS = _v1_contexts()


def v1_cases(ctx, c04, rng):
    allc = []
    for tk, ins in c04.INPUTS.items():
        for v in ins:
            for ck, (_, _, _, flags) in V1_CONTEXTS.items():
                if 'str_only' in flags and not isinstance(v, str):
                    continue
                allc.append((tk, v, ck))
    if ctx.tier == 'quick' and not ctx.search:
        rng.shuffle(allc)
        bare = [c for c in allc if c[2] == 'bare']
        # every (type, None) and a few str spellings in every context: the None-handling is where positions differ
        isf = lambda c: c[1] is None or (c[0] == 'str' and not isinstance(c[1], str))
        focus = [c for c in allc if c[2] != 'bare' and isf(c)]
        rest = [c for c in allc if c[2] != 'bare' and not isf(c)]
        return bare + focus + rest[:1500]
    return allc


def run_v1(ctx, c04, rng):
    from dataclass_wizard import fromdict
    from harness.props.c02 import compare_load
    from harness.props.c01 import load_outcome
    bare_cache = {}

    def bare_outcome(tk, v):
        """canonical outcome of loading v at the bare position of a fresh v1 class"""
        k = (tk, repr(v))
        if k not in bare_cache:
            ename = model.fresh('E')
            ty = v1_class(c04.leaf_type(tk, ename))
            b = model.Built(ty)
            try:
                out = load_outcome(lambda: fromdict(b.root, {'fld': v}))
                bare_cache[k] = ('ok', canon_leaf(out[1].fld)) if out[0] == 'ok' else ('err',)
            finally:
                b.close()
        return bare_cache[k]

    reqs, pend = [], []
    for j, (tk, v, ck) in enumerate(v1_cases(ctx, c04, rng)):
        i = V1_BASE + j
        if ctx.done(i):
            break
        mk_ty, mk_doc, unwrap, flags = V1_CONTEXTS[ck]
        ename = model.fresh('E')
        ty = v1_class(mk_ty(c04.leaf_type(tk, ename)))
        if not ctx.begin_case(i):
            continue
        doc = {'fld': mk_doc(v)}
        case = {'engine': 'v1', 'type': tk, 'input': repr(v), 'context': ck}
        built = model.Built(ty)
        try:
            ctx.seen('coerce:v1', case, nontrivial=not c04._already(tk, v))
            out = load_outcome(lambda: fromdict(built.root, copy.deepcopy(doc)))
            src = dict(src=built.source)
            none_here = v is None and 'none_stays' in flags
            # ---- oracle 1: documented coercion
            try:
                exp = ('none',) if none_here else c04.ref_coerce(tk, v, 'v1')
            except KeyError:
                exp = None
                ctx.count('out_of_domain:v1')
            if exp is not None:
                check_expected(ctx, 'coerce:v1', case, out, exp, unwrap, ename, src, None)
            # ---- oracle 2: position independence (vs the bare position of the same engine)
            if ck != 'bare' and not none_here:
                b = bare_outcome(tk, v)
                if out[0] == 'ok':
                    got = [canon_leaf(g) for g in unwrap(out[1].fld)]
                    if b[0] == 'err':
                        ctx.fail('position:v1', case, f'loads to {got[0]} in context {ck}, but the same value is rejected at the bare position', detail=src)
                    elif any(g != b[1] for g in got):
                        ctx.fail('position:v1', case, f'loads to {got[0]} in context {ck}, but to {b[1]} at the bare position', detail=src)
                elif b[0] == 'ok':
                    ctx.fail('position:v1', case, f'rejected in context {ck} ({type(out[1]).__name__}), but loads to {b[1]} at the bare position', detail=src)
            if not c04._nonjson(v):
                st = model.StdTables()
                st.add_json(doc)
                reqs.append({'op': 'loadv1', 'ty': model.enc_ty(ty), 'doc': model.enc_j(doc), 'std': st.build()})
                pend.append((case, out, built))
        finally:
            built.close()
    if ctx.model_available:
        outs = ctx.driver.run(reqs)
        for (case, out, built), o in zip(pend, outs):
            compare_load(ctx, 'coerce:v1', case, out, o, built)


def v1_class(fty):
    return {'k': 'cls', 'info': {'name': model.fresh('C'), 'fields': [{'name': 'fld'}], 'wizard': True, 'meta': {'v1': True}},
            'ftys': [['fld', fty]]}


def check_expected(ctx, kind, case, out, exp, unwrap, ename, src, key):
    if exp == ('reject',):
        if out[0] == 'ok':
            ctx.fail(kind, case, f'documented as rejected, but loaded {unwrap(out[1].fld)[0]!r}', key=key, detail=src)
        return
    if out[0] == 'err':
        ctx.fail(kind, case, f'documented coercion to {exp!r}, but load raised {type(out[1]).__name__}: {str(out[1])[:200]}', key=key, detail=src)
        return
    for g in unwrap(out[1].fld):
        if not same_leaf(g, exp, ename):
            ctx.fail(kind, case, f'loaded {g!r} ({type(g).__name__}), documented result {exp!r}', key=key, detail=src)
            return


# --------------------------------------------------------------------------- EnvWizard

NUMERIC_RE = re.compile(r'\A(?:[0-9]+\.?[0-9]*|\.[0-9]+)\Z')      # ASCII transcription of "a string in numeric form like '1.23'"

EPOCH_STRS = ['0', '5', '86400', '1234567', '999999999', '1577952245', '1577952245.5', '1700000000', '32503680000',
              '20240101', '19991231', '20200229', '10000101', '20241301', '99999999', '12345678', '20200102.10',
              '20200102310', '1.5', '.5', '5.', '0.000001', '00000000', '2024', '202401']
NOT_NUMERIC = ['-1', '+5', '1e3', '1.5.2', '.', '1 5', '1_000', 'nope', '', '2020-13-01']

ENV_INPUTS = None


def env_inputs(c04):
    """leaf spellings per type as they arrive from the environment (strings) or from inside a JSON-looking value"""
    global ENV_INPUTS
    if ENV_INPUTS is None:
        ENV_INPUTS = {
            'str': ['abc', '', ' x ', 'None', '123', 'a b', 'ü', 'x=y'],
            'int': c04.INT_STRS + c04.FLOAT_STRS + ['', 'abc', ' 5 ', '1e3', '-', '5.', '.5', 'inf', 'nan', '1.5.2'],
            'float': ['1.5', '1e3', 'inf', '-inf', 'nan', '-0.0', 'abc', '', '1_0.5', ' 2.5 ', '7', '0x10'],
            'bool': c04.BOOL_STRS + ['  yes  ', 'NO'],
            'datetime': c04.ISO_DT + EPOCH_STRS + NOT_NUMERIC,
            'date': c04.ISO_D + EPOCH_STRS + NOT_NUMERIC + ['2020-01-02T03:04:05'],
            'time': c04.ISO_T + ['25:00', 'nope', '5', '030405', ''],
            'timedelta': c04.TD_STRS + ['nope', '', '-5', '1e3', ' 90 '],
            'decimal': [x for x in c04.DEC_IN if isinstance(x, str)] + ['abc', '', '1_000', 'Infinity'],
            'enum': ['bee', 'x y', 'A', '2', '', 'Bee', ' bee '],
        }
    return ENV_INPUTS


def _shorthand_ok(v, key_pos=False):
    """can v be carried by the comma / k=v shorthand (no separator inside, whole value not JSON-looking)"""
    if ',' in v:
        return False
    if key_pos and '=' in v:
        return False
    return True


# name -> (type builder, env string builder, leaf extractor, flags)
#   flags: 'short' = shorthand form (items are stripped; v must not contain the separators)
#          'json'  = JSON form (v may be any JSON scalar, not only a string)
#          'tuple' = goes through TupleParser's length check on the unsplit string
def _env_contexts():
    def nt(t):
        return {'k': 'namedtuple', 'name': model.fresh('NT'), 'fields': [['a', T('str'), None], ['b', t, None]]}

    def td(t):
        return {'k': 'typeddict', 'name': model.fresh('TD'), 'fields': [['a', t, True]]}

    def inner(t):
        return plain_cls(model.fresh('N'), [('inner_val', t)])

    js = json.dumps
    C = collections.OrderedDict()
    C['bare'] = (lambda t: t, lambda v: v, lambda y: [y], set())
    C['optional'] = (lambda t: opt(t), lambda v: v, lambda y: [y], set())
    C['list'] = (lambda t: T('list', t), lambda v: f'{v}, {v} ', lambda y: list(y), {'short'})
    C['list-json'] = (lambda t: T('list', t), lambda v: js([v, v]), lambda y: list(y), {'json'})
    C['opt-list'] = (lambda t: opt(T('list', t)), lambda v: f' {v},{v}', lambda y: list(y), {'short'})
    C['set'] = (lambda t: T('set', t), lambda v: f'{v},{v}', lambda y: list(y), {'short'})
    C['vtuple'] = (lambda t: T('vtuple', t), lambda v: f'{v},{v}', lambda y: _exactly(y, 2), {'short', 'tuple'})
    C['vtuple-json'] = (lambda t: T('vtuple', t), lambda v: js([v]), lambda y: _exactly(y, 1), {'json', 'tuple'})
    C['tuple'] = (lambda t: T('tuple', T('str'), t), lambda v: f'k,{v}', lambda y: [y[1]], {'short', 'tuple'})
    C['tuple-json'] = (lambda t: T('tuple', T('str'), t), lambda v: js(['k', v]), lambda y: [y[1]], {'json', 'tuple'})
    C['dictval'] = (lambda t: T('dict', T('str'), t), lambda v: f'k={v}, j = {v}', lambda y: [y['k'], y['j']], {'short'})
    C['dictval-json'] = (lambda t: T('dict', T('str'), t), lambda v: ' ' + js({'k': v}), lambda y: [y['k']], {'json'})
    C['dictkey'] = (lambda t: T('dict', t, T('str')), lambda v: f'{v} = x', lambda y: list(y), {'short', 'key'})
    C['dictkey-json'] = (lambda t: T('dict', t, T('str')), lambda v: js({v: 'x'}), lambda y: list(y), {'json', 'key'})
    C['namedtuple'] = (lambda t: nt(t), lambda v: f's,{v}', lambda y: [y.b], {'short'})
    C['namedtuple-json'] = (lambda t: nt(t), lambda v: js(['s', v]), lambda y: [y.b], {'json'})
    C['typeddict'] = (lambda t: td(t), lambda v: f'a={v}', lambda y: [y['a']], {'short'})
    C['typeddict-json'] = (lambda t: td(t), lambda v: js({'a': v}), lambda y: [y['a']], {'json'})
    C['nested'] = (lambda t: inner(t), lambda v: f'inner_val={v}', lambda y: [y.inner_val], {'short'})
    C['nested-json'] = (lambda t: inner(t), lambda v: js({'inner_val': v}), lambda y: [y.inner_val], {'json'})
    C['listlist-mixed'] = (lambda t: T('list', T('list', t)), lambda v: js([[v], f'{v},{v}']), lambda y: [y[0][0], y[1][0], y[1][1]], {'json', 'short'})
    C['dict-of-list'] = (lambda t: T('dict', T('str'), T('list', t)), lambda v: js({'k': [v], 'j': f'{v} ,{v}'}), lambda y: [y['k'][0], y['j'][0], y['j'][1]], {'json', 'short'})
    return C


def _exactly(y, n):
    if len(y) != n:
        raise LengthMismatch(len(y), n)
    return list(y)


class LengthMismatch(Exception):
    pass


ENV_CONTEXTS = _env_contexts()


def env_ref(c04, tk, v):
    """documented conversion of an EnvWizard value: the default engine's coercions, plus the rule that a string in
    numeric form is an epoch timestamp for date / datetime (docs/env_magic.rst: SOME_DT_VAL='1651077045')."""
    import datetime as dt
    if isinstance(v, str) and tk in ('date', 'datetime'):
        if NUMERIC_RE.match(v):
            if tk == 'date':
                return c04.local_day(float(v))      # builtin date.fromtimestamp: the local day (= UTC day in a UTC process)
            return dt.datetime.fromtimestamp(float(v), tz=dt.timezone.utc)
        if v in EPOCH_STRS:
            raise KeyError('out-of-domain')
    return c04.ref_coerce(tk, v, 'default')


def env_cases(ctx, c04, rng):
    allc = []
    ins = env_inputs(c04)
    for tk, vs in ins.items():
        for v in vs:
            for ck, (_, _, _, flags) in ENV_CONTEXTS.items():
                if 'short' in flags and not _shorthand_ok(v, 'key' in flags):
                    continue
                if 'short' in flags and 'json' in flags and v != v.strip():
                    continue        # mixed forms: one leaf arrives stripped, the other does not
                allc.append((tk, v, ck))
    # JSON scalars that are not strings, inside the JSON forms: the default engine's coercions apply to them
    for tk, vs in c04.INPUTS.items():
        for v in vs:
            if isinstance(v, str) or c04._nonjson(v):
                continue
            for ck, (_, _, _, flags) in ENV_CONTEXTS.items():
                if 'json' in flags and 'key' not in flags and 'short' not in flags:
                    allc.append((tk, v, ck))
    if ctx.tier == 'quick' and not ctx.search:
        rng.shuffle(allc)
        bare = [c for c in allc if c[2] == 'bare']
        isf = lambda c: c[0] in ('date', 'datetime') and isinstance(c[1], str) and c[1] in EPOCH_STRS[9:18]
        focus = [c for c in allc if c[2] != 'bare' and isf(c)]
        rest = [c for c in allc if c[2] != 'bare' and not isf(c)]
        return bare + focus + rest[:1500]
    return allc


class EnvBuilt:
    """an EnvWizard class with one field, materialised like model.Built"""

    def __init__(self, fty):
        n = model.fresh('c04e')
        self.field = f'{n}_v'
        self.var = self.field.upper()
        self.cls_name = f'Env_{n}'
        ann = model.ty_src(copy.deepcopy(fty), collections.OrderedDict())
        extra = (f'from dataclass_wizard import EnvWizard\n'
                 f'class {self.cls_name}(EnvWizard):\n    {self.field}: {ann}\n')
        self.built = model.Built(fty, extra_src=extra)
        self.source = self.built.source

    def load(self, value):
        """set the variable, instantiate with _reload=True, restore os.environ"""
        from harness.props.c01 import load_outcome
        before = os.environ.get(self.var)
        os.environ[self.var] = value
        try:
            cls = self.built.get(self.cls_name)
            out = load_outcome(lambda: cls(_reload=True))
            if out[0] == 'ok':
                out = ('ok', getattr(out[1], self.field))
            return out
        finally:
            if before is None:
                del os.environ[self.var]
            else:
                os.environ[self.var] = before

    def close(self):
        self.built.close()


def env_err_class(e):
    from dataclass_wizard.errors import ParseError, MissingFields, JSONWizardError
    if isinstance(e, ParseError):
        return ['ParseError']
    if isinstance(e, MissingFields):
        return ['MissingFields']
    if isinstance(e, JSONWizardError):
        return [type(e).__name__]
    return ['raw']


def json_table(strings):
    """the json.loads table for every string in play (and, recursively, the strings inside parsed values)"""
    rows, seen, todo = [], set(), list(strings)
    while todo:
        s = todo.pop()
        if s in seen:
            continue
        seen.add(s)
        try:
            v = json.loads(s)
        except (ValueError, RecursionError):
            rows.append([s, None])
            continue
        try:
            rows.append([s, [model.enc_j(v)]])
        except TypeError:
            rows.append([s, None])
            continue
        todo.extend(_strings_of(v))
    return rows


def _strings_of(v):
    if isinstance(v, str):
        yield v
    elif isinstance(v, list):
        for x in v:
            yield from _strings_of(x)
    elif isinstance(v, dict):
        for k, x in v.items():
            yield k
            yield from _strings_of(x)


def env_std(value):
    """Std tables for an environment string: the string, its split items, everything inside a JSON form, and the
    float values of the numeric-looking strings (keys of the fromtimestamp tables)."""
    st = model.StdTables()
    strings = {value}
    jt = json_table([value])
    for s, r in jt:
        strings.add(s)
    for s in list(strings):
        for piece in s.split(','):
            strings.add(piece)
            strings.add(piece.strip())
            if '=' in piece:
                a, b = piece.split('=', 1)
                strings.update([a.strip(), b.strip()])
    for s, r in jt:
        if r is not None:
            st.add_json(json.loads(s))
    for s in strings:
        st.add_str(s)
        if s.replace('.', '', 1).isdigit():
            try:
                st.add_num(float(s))
            except (ValueError, OverflowError):
                pass
    t = st.build()
    t['json_loads'] = json_table(strings)
    return t


class _Limited:
    """ctx.fail, but a known-finding key is recorded at most `cap` times per run (the rest is only counted), so that a
    frequent known shape cannot crowd other failures out of the capped failure list"""

    def __init__(self, ctx, cap=3):
        self.ctx, self.cap, self.n = ctx, cap, {}

    def fail(self, kind, case, what, key=None, detail=None):
        if key is not None:
            self.n[key] = self.n.get(key, 0) + 1
            if self.n[key] > self.cap:
                self.ctx.count('known:' + key)
                return
        self.ctx.fail(kind, case, what, key=key, detail=detail)


def run_env(ctx, c04, rng):
    bare_cache = {}
    lim = _Limited(ctx)

    def bare_outcome(tk, v):
        k = (tk, repr(v))
        if k not in bare_cache:
            ename = model.fresh('E')
            if isinstance(v, str):
                b = EnvBuilt(c04.leaf_type(tk, ename))
                try:
                    out = b.load(v)
                finally:
                    b.close()
            else:
                # a JSON scalar that is not a string never reaches a bare field from the environment: the
                # reference position is the single element of a JSON list
                b = EnvBuilt(T('list', c04.leaf_type(tk, ename)))
                try:
                    out = b.load(json.dumps([v]))
                    if out[0] == 'ok':
                        out = ('ok', out[1][0])
                finally:
                    b.close()
            bare_cache[k] = ('ok', canon_leaf(out[1])) if out[0] == 'ok' else ('err',)
        return bare_cache[k]

    reqs, pend = [], []
    for j, (tk, v, ck) in enumerate(env_cases(ctx, c04, rng)):
        i = ENV_BASE + j
        if ctx.done(i):
            break
        mk_ty, mk_val, unwrap, flags = ENV_CONTEXTS[ck]
        ename = model.fresh('E')
        fty = mk_ty(c04.leaf_type(tk, ename))
        value = mk_val(v)
        if not ctx.begin_case(i):
            continue
        if '\x00' in value:
            continue
        case = {'engine': 'env', 'type': tk, 'input': repr(v), 'context': ck, 'value': value}
        eb = EnvBuilt(fty)
        try:
            ctx.seen('coerce:env', case, nontrivial=True)
            env_before = dict(os.environ)
            out = eb.load(value)
            if dict(os.environ) != env_before:
                ctx.fail('coerce:env', case, 'os.environ differs after the instantiation')
            src = dict(src=eb.source)
            # the value the leaf position receives: shorthand items are stripped
            eff = v.strip() if ('short' in flags and isinstance(v, str)) else v
            key = None
            if 'tuple' in flags and _tuple_len_defect(ck, value, fty):
                key = KEY_TUPLE_LEN
            # ---- oracle 1: documented conversion
            try:
                exp = env_ref(c04, tk, eff)
            except KeyError:
                exp = None
                ctx.count('out_of_domain:env')
            if exp is not None:
                check_expected_env(lim, case, out, exp, unwrap, ename, src, key)
            # ---- oracle 2: position independence
            if ck != 'bare':
                b = bare_outcome(tk, eff)
                if out[0] == 'ok':
                    try:
                        got = [canon_leaf(g) for g in unwrap(out[1])]
                    except LengthMismatch as e:
                        lim.fail('position:env', case, f'{e.args[0]} element(s) loaded where {e.args[1]} were given', key=key, detail=src)
                        got = []
                    if got and b[0] == 'err':
                        lim.fail('position:env', case, f'loads to {got[0]} in context {ck}, but the same value is rejected at the bare position', key=key, detail=src)
                    elif any(g != b[1] for g in got):
                        lim.fail('position:env', case, f'loads to {got} in context {ck}, but to {b[1]} at the bare position', key=key, detail=src)
                elif b[0] == 'ok':
                    lim.fail('position:env', case, f'rejected in context {ck} ({type(out[1]).__name__}: {str(out[1])[:120]}), but loads to {b[1]} at the bare position', key=key, detail=src)
            reqs.append({'op': 'c04', 'fn': 'load', 'ty': model.enc_ty(fty), 'val': value, 'std': env_std(value)})
            pend.append((case, out, eb.built))
        finally:
            eb.close()
    if ctx.model_available:
        outs = ctx.driver.run(reqs)
        for (case, out, built), o in zip(pend, outs):
            compare_env(ctx, 'coerce:env', case, out, o, built)


def _tuple_len_defect(ck, value, fty):
    """TupleParser / VariadicTupleParser measure the *unsplit* string: a fixed-length tuple only loads when the string
    happens to have as many characters as the tuple has members; a variadic one loses items when the string is shorter
    than its item count (only commas)."""
    if ck.startswith('vtuple'):
        n_items = len(json.loads(value)) if value.lstrip().startswith('[') else len(value.split(','))
        return len(value) < n_items
    return len(value) != 2


def check_expected_env(ctx, case, out, exp, unwrap, ename, src, key):
    kind = 'coerce:env'
    if exp == ('reject',):
        if out[0] == 'ok':
            ctx.fail(kind, case, f'documented as rejected, but loaded {out[1]!r}', key=key, detail=src)
        return
    if out[0] == 'err':
        ctx.fail(kind, case, f'documented conversion to {exp!r}, but the instantiation raised {type(out[1]).__name__}: {str(out[1])[:200]}', key=key, detail=src)
        return
    try:
        leaves = unwrap(out[1])
    except LengthMismatch as e:
        ctx.fail(kind, case, f'{e.args[0]} element(s) loaded where {e.args[1]} were given', key=key, detail=src)
        return
    for g in leaves:
        if not same_leaf(g, exp, ename):
            ctx.fail(kind, case, f'loaded {g!r} ({type(g).__name__}), documented result {exp!r}', key=key, detail=src)
            return


def compare_env(ctx, kind, case, impl_out, o, built):
    from harness.props.c01 import model_err
    if o is None:
        return
    if 'err' in o and 'r' not in o:
        ctx.agree(kind, case, 'impl', {'driver_error': o['err']})
        return
    r = o['r']
    if model.has_miss(r):
        ctx.count('std_miss:env')
        return
    if 'err' in r and r['err'][0] == 'unsupported':
        ctx.count('model_unsupported:env')
        return
    if impl_out[0] == 'ok':
        impl = {'ok': model.canon_py(model.enc_py(impl_out[1], built, full_inst=False))}
    else:
        impl = {'err': env_err_class(impl_out[1])}
    if 'ok' in r:
        m = {'ok': model.canon_py(r['ok'])}
    else:
        m = {'err': model_err(r['err'])[:1]}
    ctx.agree(kind, case, impl, m)


# --------------------------------------------------------------------------- as_list / as_dict / split / numeric test as pure functions

ALPHABET = ' ,=[]{}"ab1.\t:-'


def run_split(ctx, rng):
    from dataclass_wizard.utils.type_conv import as_list, as_dict
    from harness.props.c01 import load_outcome, model_err
    n = ctx.quick(600, 6000)
    directed = ['', ',', ' , ', 'a', 'a,b', ' a , b ', 'a=1', 'a=1,b=2', 'a = 1 , b = 2', 'a=b=c', '=', 'a', 'a=1,b', '[1, 2]', ' [1,"a"]',
                '[', '[1,]', '{"a": 1}', ' {"a": {"b": [1]}}', '{', '{}', '[]', '[[]]', 'a=1,a=2', 'a=1, a =2', '{"a":1,"a":2}', '1.5', '.', '1.', '..1',
                '12', '1.2.3', '\t[1]', '[1] x', 'NaN', '[NaN]', 'x,[1]', '\x1c[1]']
    reqs, pend = [], []
    for j in range(n):
        i = SPLIT_BASE + j
        if ctx.done(i):
            break
        s = directed[j] if j < len(directed) else ''.join(rng.choice(ALPHABET) for _ in range(rng.randint(0, 9)))
        fn = ('as_list', 'as_dict', 'split', 'numeric')[j % 4] if j >= len(directed) else None
        if not ctx.begin_case(i):
            continue
        for f in ([fn] if fn else ['as_list', 'as_dict', 'split', 'numeric']):
            case = {'fn': f, 's': s}
            ctx.seen('split:' + f, case)
            if f == 'as_list':
                impl = load_outcome(lambda: as_list(s))
                # oracle: the documented forms (docs/env_magic.rst): JSON, or comma separated items with blanks trimmed
                if not s.lstrip().startswith('[') and impl != ('ok', [e.strip() for e in s.split(',')]):
                    ctx.fail('split:as_list', case, f'as_list gave {impl!r}')
                reqs.append({'op': 'c04', 'fn': f, 'val': s, 'std': {'json_loads': json_table([s])}})
            elif f == 'as_dict':
                impl = load_outcome(lambda: as_dict(s))
                reqs.append({'op': 'c04', 'fn': f, 'val': s, 'std': {'json_loads': json_table([s])}})
            elif f == 'split':
                impl = ('ok', s.split(','))
                reqs.append({'op': 'c04', 'fn': f, 's': s, 'sep': ','})
            else:
                impl = ('ok', s.replace('.', '', 1).isdigit())
                if impl[1] != bool(NUMERIC_RE.match(s)):
                    ctx.fail('split:numeric', case, f'numeric test {impl[1]} differs from the documented numeric form')
                reqs.append({'op': 'c04', 'fn': f, 's': s})
            pend.append((f, case, impl))
    if ctx.model_available:
        outs = ctx.driver.run(reqs)
        for (f, case, impl), o in zip(pend, outs):
            if 'r' not in o:
                ctx.agree('split:' + f, case, 'impl', {'driver_error': o.get('err')})
                continue
            r = o['r']
            if f in ('split', 'numeric'):
                ctx.agree('split:' + f, case, impl[1], r)
                continue
            if model.has_miss(r):
                ctx.count('std_miss:split')
                continue
            if impl[0] == 'ok':
                try:
                    a = {'ok': model.canon_py(model.enc_py(impl[1]))}
                except Exception:
                    continue
            else:
                a = {'err': 'raw'}
            b = {'ok': model.canon_py(r['ok'])} if 'ok' in r else {'err': model_err(r['err'])[0]}
            ctx.agree('split:' + f, case, a, b)


# --------------------------------------------------------------------------- EnvWizard: random environment strings (model correspondence)

FUZZ_BASE = 400000
FUZZ_ALPHABET = '0123456789..-+eE:TZ ,,==[]{}"tynaf_'
FUZZ_SEPS = [',', ', ', ' ,', '=', ' = ', ',,', '']


def fuzz_type(rng, leaf):
    k = rng.randrange(14)
    hashed = leaf['k'] != 'decimal'     # the shared model compares Decimal set elements / dict keys by text, Python by value (1E+3 == 1000)
    if k == 0:
        return leaf
    if k == 1:
        return opt(leaf)
    if k == 2:
        return T(rng.choice(['list', 'set', 'frozenset', 'deque'] if hashed else ['list', 'deque']), leaf)
    if k == 3:
        return T('vtuple', leaf)
    if k == 4:
        return T('tuple', leaf, leaf)
    if k == 5:
        return T('dict', T('str'), leaf)
    if k == 6 and hashed:
        return T('dict', leaf, T('str'))
    if k == 7:
        return {'k': 'namedtuple', 'name': model.fresh('NT'), 'fields': [['a', leaf, None], ['b', T('str'), ['lit', 'dflt']]]}
    if k == 8:
        return {'k': 'typeddict', 'name': model.fresh('TD'), 'fields': [['a', leaf, True], ['b', T('int'), False]]}
    if k == 9:
        return plain_cls(model.fresh('N'), [('inner_val', leaf)])
    if k == 10:
        return T('list', T('list', leaf))
    if k == 11:
        return T('dict', T('str'), T('list', leaf))
    if k == 12:
        return opt(T('list', opt(leaf)))
    return T('list', T('dict', T('str'), leaf))


LEAF_KINDS = ('str', 'int', 'float', 'bool', 'date', 'datetime', 'time', 'timedelta', 'decimal', 'enum')


def _is_leaf(t):
    return t['k'] in LEAF_KINDS


def conf_short(rng, t, sp):
    """shorthand text for a one-level container of leaves (None when the type has no such form)"""
    k = t['k']
    pick = lambda: rng.choice([x for x in sp if ',' not in x] or [''])
    pad = lambda x: rng.choice(['', ' ']) + x + rng.choice(['', ' '])
    if k == 'optional':
        return conf_short(rng, t['a'][0], sp)
    if _is_leaf(t):
        return pick()
    if k in ('list', 'set', 'frozenset', 'deque', 'vtuple') and _is_leaf(t['a'][0]):
        return ','.join(pad(pick()) for _ in range(rng.randint(1, 3)))
    if k == 'tuple' and all(_is_leaf(x) for x in t['a']):
        return ','.join(pick() for _ in t['a'])
    if k == 'dict' and all(_is_leaf(x) for x in t['a']):
        return ','.join(pad(pick().replace('=', '')) + '=' + pad(pick()) for _ in range(rng.randint(1, 3)))
    if k == 'namedtuple':
        return ','.join(pick() if _is_leaf(ft) else 'x' for _, ft, _d in t['fields'][:rng.randint(1, len(t['fields']))])
    if k == 'typeddict':
        return ','.join(f'{n} = {pick() if _is_leaf(ft) else 3}' for n, ft, req in t['fields'] if req or rng.random() < 0.5)
    if k == 'cls':
        return ','.join(f'{n}={pick()}' for n, ft in t['ftys'])
    return None


def conf_json(rng, t, sp, depth=0):
    """a JSON-able value of the shape of t; leaves are spellings (sometimes native JSON scalars), inner one-level
    containers are sometimes given in shorthand text"""
    k = t['k']
    if _is_leaf(t):
        return rng.choice(sp) if rng.random() < 0.85 else rng.choice([0, 1, 2, -5, 1577952245, 1.5, 2.5, True, False, None])
    if depth > 0 and rng.random() < 0.3:
        sh = conf_short(rng, t, sp)
        if sh is not None:
            return sh
    if k == 'optional':
        return None if rng.random() < 0.15 else conf_json(rng, t['a'][0], sp, depth)
    if k in ('list', 'set', 'frozenset', 'deque', 'vtuple'):
        return [conf_json(rng, t['a'][0], sp, depth + 1) for _ in range(rng.randint(0, 3))]
    if k == 'tuple':
        return [conf_json(rng, x, sp, depth + 1) for x in t['a']]
    if k == 'dict':
        return {(rng.choice(sp) if t['a'][0]['k'] != 'str' else rng.choice(['k', 'j', 'a b'])): conf_json(rng, t['a'][1], sp, depth + 1)
                for _ in range(rng.randint(0, 2))}
    if k == 'namedtuple':
        if rng.random() < 0.2:
            return {n: conf_json(rng, ft, sp, depth + 1) for n, ft, _d in t['fields']}
        return [conf_json(rng, ft, sp, depth + 1) for _, ft, _d in t['fields'][:rng.randint(1, len(t['fields']))]]
    if k == 'typeddict':
        return {n: conf_json(rng, ft, sp, depth + 1) for n, ft, req in t['fields'] if req or rng.random() < 0.5}
    if k == 'cls':
        return {n: conf_json(rng, ft, sp, depth + 1) for n, ft in t['ftys']}
    return None


def fuzz_value(rng, c04, tk, fty):
    r = rng.random()
    sp = env_inputs(c04)[tk]
    if r < 0.2:
        return ''.join(rng.choice(FUZZ_ALPHABET) for _ in range(rng.randint(0, 10)))
    if r < 0.35:
        parts = [rng.choice(sp) for _ in range(rng.randint(1, 3))]
        out = parts[0]
        for x in parts[1:]:
            out += rng.choice(FUZZ_SEPS) + x
        if rng.random() < 0.3:
            out = rng.choice(['a=', 'k = ', ' ', '[', '{']) + out
        return out
    if r < 0.65:
        sh = conf_short(rng, fty, sp)
        if sh is not None:
            return sh
    v = conf_json(rng, fty, sp)
    if isinstance(v, str):
        return v
    return rng.choice(['', '', ' ', '\t']) + json.dumps(v) + rng.choice(['', '', '', ' ', ' x'])


def run_env_fuzz(ctx, c04, rng):
    n = ctx.quick(700, 8000)
    kinds = list(env_inputs(c04))
    reqs, pend = [], []
    for j in range(n):
        i = FUZZ_BASE + j
        if ctx.done(i):
            break
        tk = rng.choice(kinds)
        ename = model.fresh('E')
        fty = fuzz_type(rng, c04.leaf_type(tk, ename))
        value = fuzz_value(rng, c04, tk, fty)
        if not ctx.begin_case(i):
            continue
        if '\x00' in value:
            continue
        case = {'engine': 'env', 'fuzz': True, 'ty': fty, 'value': value}
        eb = EnvBuilt(fty)
        try:
            ctx.seen('fuzz:env', case)
            out = eb.load(value)
            reqs.append({'op': 'c04', 'fn': 'load', 'ty': model.enc_ty(fty), 'val': value, 'std': env_std(value)})
            pend.append((case, out, eb.built))
        finally:
            eb.close()
    if ctx.model_available:
        outs = ctx.driver.run(reqs)
        for (case, out, built), o in zip(pend, outs):
            compare_env(ctx, 'fuzz:env', case, out, o, built)


# --------------------------------------------------------------------------- entry point

def run(ctx, c04):
    # independent sub-streams, derived from ctx.rng at a fixed point (after the default stream has generated its cases)
    seeds = [ctx.rng.random() for _ in range(4)]
    run_v1(ctx, c04, random.Random(seeds[0]))
    run_env(ctx, c04, random.Random(seeds[1]))
    run_split(ctx, random.Random(seeds[2]))
    run_env_fuzz(ctx, c04, random.Random(seeds[3]))
    # histories: several documents of changing element counts through the same class, on the three engines
    import sys
    from harness.props import c04_hist
    c04_hist.run(ctx, c04, sys.modules[__name__], [ctx.rng.random() for _ in range(4)])
