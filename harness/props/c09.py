"""C09 — absent keys: defaults for optional fields, else one exact MissingFields error."""
from __future__ import annotations

import copy
import dataclasses
import itertools
import json

from harness import common as C
from harness import gen, model, ref
from harness.model import T
from harness.props.c01 import compare_load, load_outcome
from harness.props.c05 import plain_doc
from harness.props import v1streams, reach


def gen_c09_cls(rng, depth, nested=False, fresh=None, p_noinit=0.35):
    """class with required / default / default_factory / init=False fields, nested dataclasses and containers of them"""
    fresh = fresh or model.fresh
    used = set()
    n = rng.randint(1, 4 if nested else 5)
    req, opt = [], []
    for _ in range(n):
        r = rng.random()
        if depth > 0 and r < 0.3:
            inner = gen_c09_cls(rng, depth - 1, nested=True, fresh=fresh, p_noinit=p_noinit)
            ft = rng.choice([inner, T('list', inner), T('dict', T('str'), inner), T('optional', inner), T('tuple', inner, T('int'))])
        else:
            ft = T(rng.choice(['int', 'str', 'bool', 'float', 'list:int', 'dict:str:int', 'optional:int', 'any']))
            if ft['k'] == 'list:int':
                ft = T('list', T('int'))
            elif ft['k'] == 'dict:str:int':
                ft = T('dict', T('str'), T('int'))
            elif ft['k'] == 'optional:int':
                ft = T('optional', T('int'))
        d = gen.simple_default_for(rng, ft) if rng.random() < 0.5 else None
        (opt if d is not None else req).append((ft, d))
    fields, ftys = [], []
    for ft, d in req + opt:
        name = gen.field_name(rng, used)
        f = {'name': name}
        if d is not None:
            f['dflt'] = d
            f['factory'] = d[0] != 'lit'
        if rng.random() < 0.12:
            f['kw_only'] = True
        fields.append(f)
        ftys.append([name, ft])
    # init=False fields (always with a default here; the no-default flavour is exercised through `post`)
    if rng.random() < p_noinit:
        name = gen.field_name(rng, used)
        if rng.random() < 0.5:
            fields.append({'name': name, 'dflt': ['lit', rng.choice([0, 'computed', None])], 'factory': False, 'init': False})
            ftys.append([name, T('any')])
        else:
            fields.append({'name': name, 'init': False, 'post': rng.choice([7, 'p'])})
            ftys.append([name, T('any')])
    info = {'name': fresh('C'), 'fields': fields, 'wizard': rng.random() < 0.5, 'meta': None}
    return {'k': 'cls', 'info': info, 'ftys': ftys}


def key_positions(ty, doc, path=()):
    """(path) of every dict entry of `doc` that is a dataclass field"""
    out = []
    k = ty['k']
    if k == 'cls' and isinstance(doc, dict):
        ftys = dict((n, ft) for n, ft in ty['ftys'])
        for key, v in doc.items():
            if key in ftys:
                out.append(path + (key,))
                out += key_positions(ftys[key], v, path + (key,))
    elif k == 'list' and isinstance(doc, list):
        for i, v in enumerate(doc):
            out += key_positions(ty['a'][0], v, path + (i,))
    elif k == 'dict' and isinstance(doc, dict):
        for kk, v in doc.items():
            out += key_positions(ty['a'][1], v, path + (kk,))
    elif k == 'optional' and doc is not None:
        out += key_positions(ty['a'][0], doc, path)
    elif k == 'tuple' and isinstance(doc, list):
        for i, (m, v) in enumerate(zip(ty['a'], doc)):
            out += key_positions(m, v, path + (i,))
    elif k in ('union', 'typeddict'):
        # a tagged-Union member selected by the document's tag / the values of a TypedDict (harness/props/reach.py); the tag
        # key and the TypedDict's own keys are not dataclass fields and are never deleted
        for step, ct, cd in reach.children(ty, doc):
            out += key_positions(ct, cd, path if step is None else path + (step,))
    return out


def delete_paths(doc, paths):
    d = copy.deepcopy(doc)
    for p in sorted(paths, key=len, reverse=True):
        cur = d
        ok = True
        for s in p[:-1]:
            try:
                cur = cur[s]
            except (KeyError, IndexError, TypeError):
                ok = False
                break
        if ok and isinstance(cur, dict):
            cur.pop(p[-1], None)
    return d


def expect(ty, doc):
    """reference outcome of loading `doc` at dataclass type `ty`: None (ok) or (class name, sorted missing required fields)
    of the first object, in evaluation order, that lacks a required key."""
    k = ty['k']
    if k == 'cls':
        if not isinstance(doc, dict):
            return None
        ftys = dict((n, ft) for n, ft in ty['ftys'])
        for key, v in doc.items():
            if key in ftys:
                r = expect(ftys[key], v)
                if r is not None:
                    return r
        missing = [f['name'] for f in ty['info']['fields']
                   if f.get('init', True) and f.get('dflt') is None and f['name'] not in doc and not f.get('catch_all')]
        if missing:
            return (ty['info']['name'], sorted(missing))
        return None
    if k == 'list' and isinstance(doc, list):
        for v in doc:
            r = expect(ty['a'][0], v)
            if r is not None:
                return r
    elif k == 'dict' and isinstance(doc, dict):
        for v in doc.values():
            r = expect(ty['a'][1], v)
            if r is not None:
                return r
    elif k == 'optional' and doc is not None:
        return expect(ty['a'][0], doc)
    elif k == 'tuple' and isinstance(doc, list):
        for m, v in zip(ty['a'], doc):
            r = expect(m, v)
            if r is not None:
                return r
    elif k in ('union', 'typeddict'):
        for _step, ct, cd in reach.children(ty, doc):
            r = expect(ct, cd)
            if r is not None:
                return r
    return None


def check_defaults(ctx, case, y, y2, ty, doc, built, src, deep=False):
    """on success: omitted fields hold their default (fresh factory product per instance), present ones their value"""
    info = ty['info']
    ftys = dict((n, ft) for n, ft in ty['ftys'])
    for f in info['fields']:
        name = f['name']
        if not f.get('init', True):
            continue
        if f.get('catch_all'):
            # documents of this property hold no unknown key: the CatchAll field keeps its default ({} when it declares none)
            want = ref.dflt_value(f['dflt']) if f.get('dflt') is not None else {}
            got = getattr(y, name)
            if not ref.same_typed(got, want):
                ctx.fail('absent:catch-all', case, f'no unknown key in the document, yet the CatchAll field {name} holds {got!r}, expected {want!r}', detail=src)
                return
            continue
        if name not in doc:
            d = f.get('dflt')
            if d is None:
                ctx.fail('absent:default', case, f'field {name} omitted and without default, yet load succeeded', detail=src)
                return
            want = ref.dflt_value(d)
            got = getattr(y, name)
            if not ref.same_typed(got, want):
                ctx.fail('absent:default', case, f'omitted field {name} holds {got!r}, declared default {want!r}', detail=src)
                return
            if f.get('factory') and getattr(y2, name) is got:
                ctx.fail('absent:factory-shared', case, f'two loads share one default_factory product for field {name}', detail=src)
                return
        else:
            ft = ftys[name]
            if ft['k'] == 'cls' and isinstance(doc[name], dict):
                check_defaults(ctx, case, getattr(y, name), getattr(y2, name), ft, doc[name], built, src, deep=deep)
            elif deep:
                for mty, mdoc, my, my2 in loaded_objects(ft, doc[name], getattr(y, name), getattr(y2, name)):
                    check_defaults(ctx, case, my, my2, mty, mdoc, built, src, deep=True)


def loaded_objects(ty, doc, y, y2):
    """(class node, object document, loaded instance, instance of a second load) for the dataclass objects right below a
    container / Union / TypedDict value (`deep` mode of check_defaults)"""
    if ty['k'] == 'cls':
        return [(ty, doc, y, y2)] if isinstance(doc, dict) else []
    out = []
    for step, ct, cd in reach.children(ty, doc):
        try:
            cy, cy2 = (y, y2) if step is None else (y[step], y2[step])
        except (KeyError, IndexError, TypeError):
            continue
        out += loaded_objects(ct, cd, cy, cy2)
    return out


# --------------------------------------------------------------------------- unknown-key accounting x absent keys
#
# A class that counts unknown keys (v1_on_unknown_key RAISE / WARN, own or cascading from the root; a CatchAll field) runs extra
# generated code on every load: it decides "does this document hold a key that maps to no field?" from the keys it consumed.
# A document obtained by *deleting* keys from a complete one never holds an unknown key, so under every such setting
#   * the outcome is the one of the property (success with defaults / exact MissingFields), never UnknownKeysError,
#   * nothing is logged under WARN,
#   * a CatchAll field keeps its default ({} when it declares none).

UNK_SETTINGS = [None, 'RAISE', 'RAISE', 'RAISE', 'WARN', 'WARN', 'IGNORE']
CATCH_NAME = 'extras_fld'


def add_unknown_key_settings(urng, ty, meta, own_prob=0.2, catch_prob=0.22):
    """draw (from `urng`, a generator of its own so that the class models of the stream stay what they were) an unknown-key
    setting for the root Meta, own settings for some nested classes, and CatchAll fields (with default None / without) for some
    classes at any depth; returns a description for the case record"""
    desc = {}
    setting = urng.choice(UNK_SETTINGS)
    if setting is not None:
        meta['v1_on_unknown_key'] = setting
        desc['root'] = setting
    seen = set()
    for n_, c in enumerate(_classes(ty)):
        info = c['info']
        if info['name'] in seen:
            continue
        seen.add(info['name'])
        if n_ > 0 and urng.random() < own_prob:
            own = urng.choice(['RAISE', 'RAISE', 'WARN', 'IGNORE'])
            info['meta'] = dict(info.get('meta') or {}, v1_on_unknown_key=own)
            desc[info['name']] = own
        if urng.random() < catch_prob:
            cf = {'name': CATCH_NAME, 'catch_all': True}
            fields = info['fields']
            if urng.random() < 0.5:
                cf['dflt'], cf['factory'] = ['lit', None], False
                lo = max([ix + 1 for ix, f in enumerate(fields) if f.get('dflt') is None and f.get('init', True)], default=0)
                fields.insert(urng.randint(lo, len(fields)), cf)
            else:
                hi = next((ix for ix, f in enumerate(fields) if f.get('dflt') is not None or not f.get('init', True)), len(fields))
                fields.insert(urng.randint(0, hi), cf)
            c['ftys'].append([CATCH_NAME, T('any')])
            desc[info['name'] + '.catch_all'] = 'default None' if cf.get('dflt') else 'no default'
    return desc


def strip_catch_all(ty, doc):
    """plain_doc spells a CatchAll field under its own name; it is never a document key: remove it at every class position"""
    k = ty['k']
    if k == 'cls' and isinstance(doc, dict):
        if any(f.get('catch_all') for f in ty['info']['fields']):
            doc.pop(CATCH_NAME, None)
        for n, ft in ty['ftys']:
            if n in doc:
                strip_catch_all(ft, doc[n])
    elif k == 'list' and isinstance(doc, list):
        for v in doc:
            strip_catch_all(ty['a'][0], v)
    elif k == 'dict' and isinstance(doc, dict):
        for v in doc.values():
            strip_catch_all(ty['a'][1], v)
    elif k == 'optional' and doc is not None:
        strip_catch_all(ty['a'][0], doc)
    elif k == 'tuple' and isinstance(doc, list):
        for m, v in zip(ty['a'], doc):
            strip_catch_all(m, v)
    elif k in ('union', 'typeddict'):
        for _step, ct, cd in reach.children(ty, doc):
            strip_catch_all(ct, cd)
    return doc


def watched_load(ctx, prefix, case, fn, watch, src):
    """load_outcome(fn); with `watch`, any warning the library logs meanwhile is a failure (the document holds no unknown key)"""
    if not watch:
        return load_outcome(fn)
    from harness.props.c10 import _Records
    with _Records() as rec:
        out = load_outcome(fn)
    if rec.records:
        try:
            text = rec.records[0].getMessage()
        except Exception as e:           # noqa
            text = repr(e)
        ctx.fail(prefix + ':stray-warning', case, f'the document holds no unknown key, yet the load logged {len(rec.records)} warning(s): '
                 f'{text[:300]}', detail=src)
    return out


# --------------------------------------------------------------------------- further main classes reaching the same classes

WRAP_SHAPES = ['direct', 'direct', 'list', 'optional', 'dict']
WRAP_CAP = 64          # subsets per class that are also loaded through the further main classes (all of them in the quick tier)


def gen_wrappers(rng, ty, fresh, meta):
    """One or two further *main* classes whose single field holds the root class of the model (directly, in a list, under
    Optional, as dict values), stating the same Meta as the root: every class of the model is then reached through more
    than one main class (stand-alone and nested), in an order drawn per case.  The library generates the code for a
    nested class once per enclosing main class and keeps per-class tables across these generations, so which main class
    came first is part of the input."""
    out = []
    for _ in range(rng.choice([1, 1, 2])):
        shape = rng.choice(WRAP_SHAPES)
        inner = {'direct': ty, 'list': T('list', ty), 'optional': T('optional', ty), 'dict': T('dict', T('str'), ty)}[shape]
        fname = rng.choice(['w', 'held', 'wrapped_item'])
        info = {'name': fresh('W'), 'fields': [{'name': fname}], 'wizard': True, 'meta': dict(meta) if meta is not None else None}
        out.append(({'k': 'cls', 'info': info, 'ftys': [[fname, inner]]}, shape, fname))
    return out


def wrap_doc(shape, fname, d):
    return {fname: {'direct': d, 'optional': d, 'list': [d], 'dict': {'k': d}}[shape]}


def unwrap_obj(shape, fname, y):
    v = getattr(y, fname)
    return {'direct': v, 'optional': v, 'list': v[0] if shape == 'list' else None, 'dict': v['k'] if shape == 'dict' else None}[shape]


def judge_wrapped(ctx, prefix, engine_word, case, wty, shape, fname, Cls, ty, d, built, src, reqs, pend, op, corr=True, watch=False):
    """the same document, wrapped, through a further main class: same reference, same clauses"""
    from dataclass_wizard import fromdict
    from dataclass_wizard.errors import MissingFields
    wd = wrap_doc(shape, fname, d)
    wcase = dict(case, via=wty['info']['name'], shape=shape)
    ctx.seen(prefix + ':wrapped', wcase, nontrivial=True)
    before = copy.deepcopy(wd)
    out = watched_load(ctx, prefix, wcase, lambda: fromdict(Cls, wd), watch, src)
    exp = expect(wty, wd)
    if exp is None:
        if out[0] == 'err':
            ctx.fail(prefix + ':unexpected-error', wcase, f'no required key deleted, but the {engine_word}load through the enclosing class '
                     f'{wty["info"]["name"]} [{shape}] raised {type(out[1]).__name__}: {str(out[1])[:300]}', detail=src)
        else:
            y2 = fromdict(Cls, copy.deepcopy(before))
            check_defaults(ctx, wcase, unwrap_obj(shape, fname, out[1]), unwrap_obj(shape, fname, y2), ty, d, built, src)
    else:
        cname, missing = exp
        if out[0] == 'ok':
            ctx.fail(prefix + ':no-error', wcase, f'required field(s) {missing} of {cname} deleted, but the {engine_word}load through the enclosing '
                     f'class returned {out[1]!r}'[:800], detail=src)
        elif not isinstance(out[1], MissingFields):
            ctx.fail(prefix + ':wrong-error', wcase, f'required field(s) {missing} of {cname} deleted: expected MissingFields, got '
                     f'{type(out[1]).__name__}: {str(out[1])[:200]}', detail=src)
        else:
            e = out[1]
            got = sorted(e.missing_fields)
            if got != missing or e.class_name != cname:
                ctx.fail(prefix + ':missing-list', wcase, f'{engine_word}MissingFields(class={e.class_name}, missing={got}) through the enclosing class, '
                         f'expected class={cname}, missing={missing}', detail=src)
            try:
                assert isinstance(str(e), str)
            except Exception as ee:            # noqa
                ctx.fail(prefix + ':message', wcase, f'str(MissingFields) raised {ee!r}', detail=src)
    if not corr:
        return                                 # (thorough tier, large power sets: the model is asked about a quarter of the wrapped loads)
    st = model.StdTables()
    st.add_json(wd)
    reqs.append({'op': op, 'ty': model.enc_ty(wty), 'doc': model.enc_j(wd), 'std': st.build()})
    pend.append((wcase, out, built))


BIND_OFFSET = 20_000_000
REACH_OFFSET = 30_000_000
INHERIT_OFFSET = 40_000_000
DEBUG_OFFSET = 50_000_000


def run(ctx: C.Ctx):
    import random
    from harness.props import c09_bind
    bind_rng = random.Random(f'{ctx.prop_id}:{ctx.seed}:bind')
    if ctx.only is None or ctx.only < BIND_OFFSET:
        v1streams.run_streams(ctx, run_default, run_v1)
    if ctx.only is None or BIND_OFFSET <= ctx.only < REACH_OFFSET:
        # third stream: fields bound through aliases / paths x absent keys (c09_bind.py)
        c09_bind.run(ctx, bind_rng, BIND_OFFSET)
    if ctx.only is None or REACH_OFFSET <= ctx.only < INHERIT_OFFSET:
        # fourth stream: how the nested dataclass is reached (tagged Union, TypedDict value, ...) x absent keys
        run_reach(ctx)
    if ctx.only is None or INHERIT_OFFSET <= ctx.only < DEBUG_OFFSET:
        # fifth stream: classes related by inheritance, loaded in one history x absent keys
        run_inherit(ctx)
    if ctx.only is None or ctx.only >= DEBUG_OFFSET:
        # sixth stream (last: debug mode also sets the level of the library's logger for the rest of the process)
        run_debug(ctx)


def run_default(ctx: C.Ctx):
    from dataclass_wizard import fromdict
    from dataclass_wizard.errors import MissingFields
    rng = ctx.rng
    gen.SUBS = False
    ctx.rule = ('class models mixing required / default / default_factory / init=False fields, nested dataclasses and '
                'list/dict/Optional/tuple of dataclasses; a complete document; every subset of its dataclass-key positions when there '
                'are ≤ 10 (thorough) or ≤ 6 (quick), a random sample of subsets otherwise; outcome vs the reference (success with '
                'defaults / exact MissingFields of the first failing object), vs the Lean model, default_factory freshness, str(e). '
                'Non-trivial = distinct (class model, deleted subset) with at least one deletion.')
    ncls = ctx.quick(90, 900)
    reqs, pend = [], []
    idx = 0
    for ci in range(ncls):
        ty = gen_c09_cls(rng, rng.choice([0, 1, 1, 2]))
        wraps = gen_wrappers(rng, ty, model.fresh, None)
        order = rng.sample(range(-1, len(wraps)), len(wraps) + 1)        # -1 = the root class itself
        try:
            built = model.Built(T('tuple', ty, *[w[0] for w in wraps]))
            Root = built.get(ty['info']['name'])
        except Exception as e:
            ctx.count('build_error')
            ctx.notes.setdefault('build_errors', []).append(repr(e)[:300])
            continue
        try:
            x = gen.gen_instance(rng, ty, built, use_defaults_prob=0.0)
            doc = json.loads(json.dumps(plain_doc(x, ty, built)))
            pos = key_positions(ty, doc)
            limit = ctx.quick(6, 10)
            if len(pos) <= limit:
                subsets = [s for r in range(len(pos) + 1) for s in itertools.combinations(pos, r)]
                ctx.count('exhaustive_classes')
            else:
                subsets = [()] + [tuple(p for p in pos if rng.random() < rng.choice([0.15, 0.4])) for _ in range(ctx.quick(24, 200))]
            stride = (len(subsets) - 1) // WRAP_CAP + 1
            for k_, S in enumerate(subsets):
                i = idx
                idx += 1
                if ctx.done(i):
                    break
                if not ctx.begin_case(i):
                    continue
                d = delete_paths(doc, S)
                case = {'ty': ty, 'doc': repr(d)[:500], 'deleted': repr(S)}
                for tgt in order:
                    if tgt >= 0 and k_ % stride:
                        continue               # large power sets (thorough tier): every stride-th subset goes through the further main classes
                    if tgt >= 0:
                        wty, shape, fname = wraps[tgt]
                        judge_wrapped(ctx, 'absent', '', case, wty, shape, fname, built.get(wty['info']['name']), ty, d, built,
                                      dict(src=built.source), reqs, pend, 'load',
                                      corr=(stride == 1 or k_ % (stride * 4) == 0))
                        continue
                    ctx.seen('absent', case, nontrivial=bool(S))
                    src = dict(src=built.source)
                    before = copy.deepcopy(d)
                    out = load_outcome(lambda: fromdict(Root, d))
                    exp = expect(ty, d)
                    if exp is None:
                        if out[0] == 'err':
                            ctx.fail('absent:unexpected-error', case, f'no required key deleted, but load raised {type(out[1]).__name__}: {str(out[1])[:300]}', detail=src)
                        else:
                            y2 = fromdict(Root, copy.deepcopy(before))
                            check_defaults(ctx, case, out[1], y2, ty, d, built, src)
                    else:
                        cname, missing = exp
                        if out[0] == 'ok':
                            ctx.fail('absent:no-error', case, f'required field(s) {missing} of {cname} deleted, but load returned {out[1]!r}'[:800], detail=src)
                        elif not isinstance(out[1], MissingFields):
                            ctx.fail('absent:wrong-error', case, f'required field(s) {missing} of {cname} deleted: expected MissingFields, got {type(out[1]).__name__}: {str(out[1])[:200]}', detail=src)
                        else:
                            e = out[1]
                            got = sorted(e.missing_fields)
                            if got != missing or e.class_name != cname:
                                key = None
                                node = built.infos.get(cname)
                                if node is not None and e.class_name == cname:
                                    extra = set(got) - set(missing)
                                    nodflt_noinit = {f['name'] for f in node['info']['fields'] if not f.get('init', True) and f.get('dflt') is None}
                                    if set(missing) <= set(got) and extra and extra <= nodflt_noinit:
                                        key = 'missing-lists-init-false'
                                ctx.fail('absent:missing-list', case, f'MissingFields(class={e.class_name}, missing={got}), expected class={cname}, missing={missing}', key=key, detail=src)
                            try:
                                str(e)
                            except Exception as ee:
                                ctx.fail('absent:message', case, f'str(MissingFields) raised {ee!r}', detail=src)
                    st = model.StdTables()
                    st.add_json(d)
                    reqs.append({'op': 'load', 'ty': model.enc_ty(ty), 'doc': model.enc_j(d), 'std': st.build()})
                    pend.append((case, out, built))
        finally:
            built.close()
        if ctx.done(idx):
            break
    if ctx.model_available:
        outs = ctx.driver.run(reqs)
        for (case, out, built), o_ in zip(pend, outs):
            compare_load(ctx, 'absent', case, out, o_, built)


# --------------------------------------------------------------------------- v1 engine

def _classes(ty, out=None):
    out = [] if out is None else out
    if ty['k'] == 'cls':
        out.append(ty)
        for _, ft in ty['ftys']:
            _classes(ft, out)
    else:
        for m in ty.get('a', []):
            _classes(m, out)
    return out


def soften_kw_only(rng, ty, keep=0.015):
    """v1 passes required fields positionally: a required kw_only field cannot be loaded at all (unchanged-code finding
    `v1-kw-only-required`); keep only a few such classes so that the stream exercises the property itself"""
    kept = False
    for c in _classes(ty):
        for f in c['info']['fields']:
            if f.get('kw_only') and f.get('dflt') is None and f.get('init', True):
                if rng.random() < keep:
                    kept = True
                else:
                    del f['kw_only']
    return kept


def run_v1(ctx: C.Ctx):
    import random
    from dataclass_wizard import fromdict
    from dataclass_wizard.errors import MissingFields, JSONWizardError
    rng = v1streams.sub_rng(ctx)
    gen.SUBS = False
    ctx.rule = ('the same class models bound to the v1 engine (root Meta v1=True, optionally v1_key_case=AUTO; more init=False fields, '
                'with default and without (assigned in __post_init__)), the same subsets of deleted key positions: outcome vs the reference '
                '(success with defaults / exact MissingFields naming the class and only constructor fields), default_factory freshness, '
                'str(e), and vs the Lean model of the v1 engine (op loadv1); crossed with the unknown-key accounting of the engine (root Meta / '
                'nested class states v1_on_unknown_key RAISE / WARN / IGNORE, CatchAll fields with default None / without, at any depth): a '
                'document made by deleting keys holds no unknown key, so the outcome is the same, nothing is logged and a CatchAll field keeps '
                'its default. Non-trivial = distinct (class model, deleted subset), ≥ 1 deletion.')
    ncls = ctx.quick(70, 500)
    reqs, pend = [], []
    idx = v1streams.OFFSET
    for ci in range(ncls):
        namer = v1streams.Namer(ci)
        ty = gen_c09_cls(rng, rng.choice([0, 1, 1, 2]), fresh=namer, p_noinit=0.6)
        kw_req = soften_kw_only(rng, ty)
        meta = {'v1': True}
        if rng.random() < 0.4:
            meta['v1_key_case'] = 'AUTO'
        # unknown-key accounting (root / own v1_on_unknown_key, CatchAll fields), drawn from a generator of its own
        urng = random.Random(f'{ctx.prop_id}:{ctx.seed}:v1:unknown-keys:{ci}')
        unk = add_unknown_key_settings(urng, ty, meta) if not kw_req else {}
        ty['info']['meta'] = meta
        wraps = gen_wrappers(rng, ty, namer, meta)
        if kw_req:
            wraps = []                     # a class of the recorded finding v1-kw-only-required: judged through its own root only
        order = rng.sample(range(-1, len(wraps)), len(wraps) + 1)        # -1 = the root class itself
        try:
            built = model.Built(T('tuple', ty, *[w[0] for w in wraps]))
            Root = built.get(ty['info']['name'])
        except Exception as e:
            ctx.count('build_error')
            ctx.notes.setdefault('build_errors', []).append(repr(e)[:300])
            continue
        try:
            x = gen.gen_instance(rng, ty, built, use_defaults_prob=0.0)
            doc = strip_catch_all(ty, json.loads(json.dumps(plain_doc(x, ty, built))))
            pos = key_positions(ty, doc)
            limit = ctx.quick(6, 10)
            if unk:
                ctx.count('v1:unknown-key-accounting')
            if len(pos) <= limit:
                subsets = [s for r in range(len(pos) + 1) for s in itertools.combinations(pos, r)]
                ctx.count('v1:exhaustive_classes')
            else:
                subsets = [()] + [tuple(p for p in pos if rng.random() < rng.choice([0.15, 0.4])) for _ in range(ctx.quick(24, 200))]
            if kw_req:
                subsets = subsets[:3]      # a known finding: a few records per class are enough
            stride = (len(subsets) - 1) // WRAP_CAP + 1
            for k_, S in enumerate(subsets):
                i = idx
                idx += 1
                if ctx.done(i):
                    break
                if not ctx.begin_case(i):
                    continue
                d = delete_paths(doc, S)
                case = {'ty': ty, 'doc': repr(d)[:500], 'deleted': repr(S), 'engine': 'v1'}
                if unk:
                    case['unknown_key_settings'] = unk
                for tgt in order:
                    if tgt >= 0 and k_ % stride:
                        continue               # large power sets (thorough tier): every stride-th subset goes through the further main classes
                    if tgt >= 0:
                        wty, shape, fname = wraps[tgt]
                        judge_wrapped(ctx, 'absent:v1', 'v1 ', case, wty, shape, fname, built.get(wty['info']['name']), ty, d, built,
                                      dict(src=built.source), reqs, pend, 'loadv1',
                                      corr=(stride == 1 or k_ % (stride * 4) == 0), watch=bool(unk))
                        continue
                    ctx.seen('absent:v1', case, nontrivial=bool(S))
                    src = dict(src=built.source)
                    before = copy.deepcopy(d)
                    out = watched_load(ctx, 'absent:v1', case, lambda: fromdict(Root, d), bool(unk), src)
                    kwkey = None
                    if kw_req and out[0] == 'err':
                        # bare at the root, wrapped into a ParseError by the enclosing class's handler when nested
                        be = out[1] if not isinstance(out[1], JSONWizardError) else getattr(out[1], 'base_error', None)
                        if isinstance(be, TypeError) and '__init__()' in str(be):
                            kwkey = 'v1-kw-only-required'
                    exp = expect(ty, d)
                    if exp is None:
                        if out[0] == 'err':
                            ctx.fail('absent:v1:unexpected-error', case, f'no required key deleted, but the v1 load raised {type(out[1]).__name__}: {str(out[1])[:300]}',
                                     key=kwkey, detail=src)
                        else:
                            y2 = fromdict(Root, copy.deepcopy(before))
                            check_defaults(ctx, case, out[1], y2, ty, d, built, src)
                    else:
                        cname, missing = exp
                        if out[0] == 'ok':
                            ctx.fail('absent:v1:no-error', case, f'required field(s) {missing} of {cname} deleted, but the v1 load returned {out[1]!r}'[:800], detail=src)
                        elif not isinstance(out[1], MissingFields):
                            ctx.fail('absent:v1:wrong-error', case, f'required field(s) {missing} of {cname} deleted: expected MissingFields, got '
                                     f'{type(out[1]).__name__}: {str(out[1])[:200]}', key=kwkey, detail=src)
                        else:
                            e = out[1]
                            got = sorted(e.missing_fields)
                            if got != missing or e.class_name != cname:
                                node = built.infos.get(cname)
                                noinit = {f['name'] for f in node['info']['fields'] if not f.get('init', True)} if node else set()
                                what = f'v1 MissingFields(class={e.class_name}, missing={got}), expected class={cname}, missing={missing}'
                                if set(got) & noinit:
                                    what += f'; init=False field(s) {sorted(set(got) & noinit)} demanded from the document'
                                ctx.fail('absent:v1:missing-list', case, what, detail=src)
                            try:
                                s_ = str(e)
                                assert isinstance(s_, str)
                            except Exception as ee:
                                ctx.fail('absent:v1:message', case, f'str(MissingFields) raised {ee!r}', detail=src)
                    if kwkey is None and not kw_req:
                        st = model.StdTables()
                        st.add_json(d)
                        reqs.append({'op': 'loadv1', 'ty': model.enc_ty(ty), 'doc': model.enc_j(d), 'std': st.build()})
                        pend.append((case, out, built))
        finally:
            built.close()
        if ctx.done(idx):
            break
    if ctx.model_available:
        outs = ctx.driver.run(reqs)
        for (case, out, built), o_ in zip(pend, outs):
            compare_load(ctx, 'absent:v1', case, out, o_, built)


# --------------------------------------------------------------------------- fourth stream: ways of reaching the nested dataclass

def judge_load(ctx, prefix, word, case, Cls, ty, d, built, src, loader=None):
    """one load of document `d` (made by deleting keys) at main class `ty`: the property's clauses; returns the outcome.
    `loader(Cls, doc)`: the entry point used (default: fromdict)"""
    from dataclass_wizard import fromdict
    from dataclass_wizard.errors import MissingFields
    loader = loader or fromdict
    before = copy.deepcopy(d)
    out = load_outcome(lambda: loader(Cls, d))
    exp = expect(ty, d)
    if out[0] == 'ok' and type(out[1]) is not Cls:
        # load(doc) == D(**present, defaults): an instance of the class asked for
        ctx.fail(prefix + ':wrong-class', case, f'the {word}load through {Cls.__name__} returned an instance of {type(out[1]).__name__}: {out[1]!r}'[:800], detail=src)
        return out
    if exp is None:
        if out[0] == 'err':
            ctx.fail(prefix + ':unexpected-error', case, f'no required key deleted, but the {word}load raised {type(out[1]).__name__}: {str(out[1])[:300]}', detail=src)
        else:
            y2 = loader(Cls, copy.deepcopy(before))
            check_defaults(ctx, case, out[1], y2, ty, d, built, src, deep=True)
        return out
    cname, missing = exp
    if out[0] == 'ok':
        ctx.fail(prefix + ':no-error', case, f'required field(s) {missing} of {cname} deleted, but the {word}load returned {out[1]!r}'[:800], detail=src)
    elif not isinstance(out[1], MissingFields):
        ctx.fail(prefix + ':wrong-error', case, f'required field(s) {missing} of {cname} deleted: expected MissingFields, got '
                 f'{type(out[1]).__name__}: {str(out[1])[:300]}', detail=src)
    else:
        e = out[1]
        got = sorted(e.missing_fields)
        if got != missing or e.class_name != cname:
            ctx.fail(prefix + ':missing-list', case, f'{word}MissingFields(class={e.class_name}, missing={got}), expected class={cname}, missing={missing}', detail=src)
        try:
            assert isinstance(str(e), str)
        except Exception as ee:            # noqa
            ctx.fail(prefix + ':message', case, f'str(MissingFields) raised {ee!r}', detail=src)
    return out


def run_reach(ctx: C.Ctx):
    rng = v1streams.sub_rng(ctx, 'reach')
    gen.SUBS = False
    ctx.rule += (' || REACH STREAM (default engine): main classes whose holder fields reach the class models of the first stream directly / through '
                 'list / Optional / dict and through the parsers with error handling of their own: Union[A, B(, None)] of tagged dataclasses '
                 '(explicit Meta.tag or auto_assign_tags of the main class, default or custom tag key, tag key anywhere in the object), '
                 'list / dict of such Unions, values of a TypedDict (a dataclass, a list of them, Optional, a tagged Union), lists of TypedDicts; '
                 'subsets of the dataclass-key positions of a complete document (the tag key and the keys of the TypedDict itself stay): '
                 'the same reference — success with defaults at every depth, else MissingFields naming the nested class and exactly its '
                 'omitted required fields — and the Lean model.')
    ncls = ctx.quick(70, 600)
    reqs, pend = [], []
    idx = REACH_OFFSET
    for ci in range(ncls):
        base = v1streams.Namer(ci)

        def nm(prefix='K', base=base):
            return base('Q' + prefix)

        def mk():
            return gen_c09_cls(rng, rng.choice([0, 0, 0, 1]), nested=True, fresh=nm, p_noinit=0.3)
        ty, facts = reach.gen_root(rng, nm, mk, wizard=rng.random() < 0.75)
        try:
            built = model.Built(ty)
            Root = built.get(ty['info']['name'])
        except Exception as e:
            ctx.count('build_error')
            ctx.notes.setdefault('build_errors', []).append(repr(e)[:300])
            continue
        try:
            doc = reach.gen_doc(rng, ty, built)
            pos = key_positions(ty, doc)
            inner = [p for p in pos if len(p) > 1]
            limit = ctx.quick(5, 9)
            if len(pos) <= limit:
                subsets = [s for r in range(len(pos) + 1) for s in itertools.combinations(pos, r)]
            else:
                # the empty set, every single position below a holder, and random subsets
                subsets = [()] + [(p,) for p in inner[:ctx.quick(12, 40)]] + \
                          [tuple(p for p in pos if rng.random() < rng.choice([0.1, 0.3])) for _ in range(ctx.quick(12, 120))]
            for S in subsets:
                i = idx
                idx += 1
                if ctx.done(i):
                    break
                if not ctx.begin_case(i):
                    continue
                d = delete_paths(doc, S)
                case = {'ty': ty, 'doc': repr(d)[:600], 'deleted': repr(S), 'reach': facts}
                ctx.seen('absent:reach', case, nontrivial=bool(S))
                for sh in facts['shapes']:
                    ctx.count('reach:' + sh)
                out = judge_load(ctx, 'absent:reach', '', case, Root, ty, d, built, dict(src=built.source))
                st = model.StdTables()
                st.add_json(d)
                reqs.append({'op': 'load', 'ty': model.enc_ty(ty), 'doc': model.enc_j(d), 'std': st.build()})
                pend.append((case, out, built))
        finally:
            built.close()
        if ctx.done(idx):
            break
    if ctx.model_available:
        outs = ctx.driver.run(reqs)
        for (case, out, built), o_ in zip(pend, outs):
            compare_load(ctx, 'absent:reach', case, out, o_, built)


# --------------------------------------------------------------------------- fifth stream: classes related by inheritance, histories

INH_APIS = ['fromdict', 'fromdict', 'from_dict', 'from_list']


def _loader(api):
    from dataclass_wizard import fromdict
    if api == 'from_dict':
        return lambda Cls, d: Cls.from_dict(d)
    if api == 'from_list':
        return lambda Cls, d: Cls.from_list([d])[0]
    return fromdict


def run_inherit(ctx: C.Ctx):
    from harness import inherit
    rng = v1streams.sub_rng(ctx, 'inherit')
    gen.SUBS = False
    ctx.rule += (' || INHERITANCE STREAM (both engines): a base dataclass of the first stream\'s grammar and 1-3 dataclasses derived from it '
                 '(siblings / chains; JSONWizard hierarchy taking the inner Meta of the immediate base, or plain dataclasses each bound with '
                 'LoadMeta / a hand-made Meta), every derived class adding required / default / default_factory / init=False fields and nested '
                 'dataclasses of its own; one *history* per family: the classes are loaded in a random order with repeats (a base class before '
                 'the first load of a class derived from it, and the other way round) through fromdict / from_dict / from_list, each time a '
                 'complete document of that class minus a subset of its key positions (inherited and own, any depth): an instance of exactly '
                 'that class with defaults for the omitted fields, else MissingFields naming that class (or the nested one) and exactly the '
                 'omitted required fields — inherited and own —, and vs the Lean model of the flattened class.')
    nfam = ctx.quick(160, 1500)
    reqs, pend = [], []
    for ci in range(nfam):
        i = INHERIT_OFFSET + ci
        if ctx.done(i):
            break
        base = v1streams.Namer(ci)

        def nm(prefix='K', base=base):
            return base('I' + prefix)
        engine = rng.choice(['default', 'v1', 'v1'])

        def mk():
            c = gen_c09_cls(rng, rng.choice([0, 0, 1, 1]), fresh=nm, p_noinit=0.4)
            if engine == 'v1':
                soften_kw_only(rng, c, keep=0.0)         # recorded finding v1-kw-only-required: kept out of this stream
            return c
        meta = None
        if engine == 'v1':
            meta = {'v1': True}
            if rng.random() < 0.4:
                meta['v1_key_case'] = 'AUTO'
        chain, style = inherit.family(rng, mk, meta, fresh=nm)
        steps = inherit.history(rng, chain)
        try:
            built = model.Built(inherit.holder(chain, fresh=nm))
        except Exception as e:
            ctx.count('build_error')
            ctx.notes.setdefault('build_errors', []).append(repr(e)[:300])
            continue
        try:
            plan = []
            for k in steps:
                ty = chain[k]
                x = gen.gen_instance(rng, ty, built, use_defaults_prob=0.0)
                doc = json.loads(json.dumps(plain_doc(x, ty, built)))
                pos = key_positions(ty, doc)
                r = rng.random()
                if r < 0.15 or not pos:
                    S = ()
                elif r < 0.5:
                    S = (rng.choice(pos),)
                else:
                    pr = rng.choice([0.15, 0.4])
                    S = tuple(p for p in pos if rng.random() < pr)
                plan.append((k, doc, S, rng.choice(INH_APIS)))
            if not ctx.begin_case(i):
                continue
            fam, order = inherit.describe(chain, steps)
            fam = dict(fam, engine=engine, style=style)
            ctx.count('inherit:' + order)
            ctx.count('inherit:' + engine + ':' + style)
            src = dict(src=built.source)
            word = 'v1 ' if engine == 'v1' else ''
            for step, (k, doc, S, api) in enumerate(plan):
                ty = chain[k]
                Cls = built.get(ty['info']['name'])
                if api != 'fromdict' and not hasattr(Cls, api):
                    api = 'fromdict'
                d = delete_paths(doc, S)
                case = dict(fam, step=step, cls=ty['info']['name'], api=api, ty=ty, doc=repr(d)[:500], deleted=repr(S))
                ctx.seen('absent:inherit', [fam['steps'], step, case['cls'], api, ty, case['doc']], nontrivial=bool(S))
                out = judge_load(ctx, 'absent:inherit', f'(step {step} of {fam["steps"]}, derives_from {fam["derives_from"]}) {word}{api} ',
                                 case, Cls, ty, d, built, src, loader=_loader(api))
                st = model.StdTables()
                st.add_json(d)
                reqs.append({'op': 'loadv1' if engine == 'v1' else 'load', 'ty': model.enc_ty(ty), 'doc': model.enc_j(d), 'std': st.build()})
                pend.append((case, out, built))
        finally:
            built.close()
    if ctx.model_available:
        outs = ctx.driver.run(reqs)
        for (case, out, built), o_ in zip(pend, outs):
            compare_load(ctx, 'absent:inherit', case, out, o_, built)


# --------------------------------------------------------------------------- sixth stream: debug mode x ways of reaching x absent keys

DEBUG_FORMS = ['meta:debug_enabled', 'meta:v1_debug', 'meta:v1_debug', 'class-arg', 'class-arg']
DEBUG_LEVELS = [True, True, 'DEBUG', 10, 'INFO']


def run_debug(ctx: C.Ctx):
    """Debug mode (Meta debug_enabled / v1_debug, `class X(JSONWizard, debug=..)`) is a diagnostic setting: the library wraps every
    load hook of the class's loader into an error-decorating function.  The property is stated for every class definition, so with
    the setting on the outcome is the same: success with defaults, else the exact MissingFields of the object in which the
    omission occurred, whatever container / Union / TypedDict machinery (now wrapped) the error travels through."""
    import logging
    import warnings
    # `class X(JSONWizard, debug=..)` calls logging.basicConfig(), which would install a stderr handler on the root logger for the
    # rest of the process and print every generated function: give the root logger a handler that drops the records instead (the
    # library still builds and emits them — the whole debug path runs)
    if not logging.getLogger().handlers:
        logging.getLogger().addHandler(logging.NullHandler())
    rng = v1streams.sub_rng(ctx, 'debug')
    gen.SUBS = False
    ctx.rule += (' || DEBUG-MODE STREAM: the main classes of the reach stream (default engine: holder fields reaching the class models directly / '
                 'through list / Optional / dict / tagged Unions / TypedDict values; v1 engine: direct / list / Optional / dict) with debug mode '
                 'switched on for the main class — Meta debug_enabled, Meta v1_debug (True / a level), or the class argument debug=.. — ; '
                 'subsets of the dataclass-key positions of a complete document: the same reference as without the setting (success with '
                 'defaults at every depth, else MissingFields naming the nested class and exactly its omitted required fields) and the Lean model.')
    ncls = ctx.quick(60, 500)
    reqs, pend = [], []
    idx = DEBUG_OFFSET
    for ci in range(ncls):
        base = v1streams.Namer(ci)

        def nm(prefix='K', base=base):
            return base('G' + prefix)
        engine = rng.choice(['default', 'default', 'default', 'v1'])

        def mk():
            c = gen_c09_cls(rng, rng.choice([0, 0, 0, 1]), nested=True, fresh=nm, p_noinit=0.3)
            if engine == 'v1':
                soften_kw_only(rng, c, keep=0.0)
            return c
        form, level = rng.choice(DEBUG_FORMS), rng.choice(DEBUG_LEVELS)
        root_meta = {'v1': True} if engine == 'v1' else {}
        ty, facts = reach.gen_root(rng, nm, mk, root_meta=dict(root_meta), shapes=reach.PLAIN_SHAPES if engine == 'v1' else None, wizard=True)
        if form == 'class-arg' and ty['info']['meta']:
            form = 'meta:v1_debug'             # class arguments next to an inner Meta: the business of C07
        if form == 'class-arg':
            ty['info']['class_kw'] = {'debug': level}
        else:
            ty['info']['meta'] = dict(ty['info']['meta'] or {}, **{form.split(':')[1]: level})
        facts = dict(facts, engine=engine, debug=form, level=level)
        try:
            with warnings.catch_warnings():
                warnings.showwarning = lambda *a, **kw: None      # debug_enabled is deprecated; the library forces its warning to show
                built = model.Built(ty)
            Root = built.get(ty['info']['name'])
        except Exception as e:
            ctx.count('build_error')
            ctx.notes.setdefault('build_errors', []).append(repr(e)[:300])
            continue
        try:
            doc = reach.gen_doc(rng, ty, built)
            pos = key_positions(ty, doc)
            inner = [p for p in pos if len(p) > 1]
            limit = ctx.quick(5, 9)
            if len(pos) <= limit:
                subsets = [s for r in range(len(pos) + 1) for s in itertools.combinations(pos, r)]
            else:
                subsets = [()] + [(p,) for p in inner[:ctx.quick(12, 40)]] + \
                          [tuple(p for p in pos if rng.random() < rng.choice([0.1, 0.3])) for _ in range(ctx.quick(12, 120))]
            for S in subsets:
                i = idx
                idx += 1
                if ctx.done(i):
                    break
                if not ctx.begin_case(i):
                    continue
                d = delete_paths(doc, S)
                case = {'ty': ty, 'doc': repr(d)[:600], 'deleted': repr(S), 'reach': facts}
                ctx.seen('absent:debug', case, nontrivial=bool(S))
                ctx.count('debug:' + form + ':' + engine)
                with warnings.catch_warnings():
                    warnings.showwarning = lambda *a, **kw: None
                    out = judge_load(ctx, 'absent:debug', f'(debug mode: {form}={level!r}) ' + ('v1 ' if engine == 'v1' else ''), case, Root, ty, d, built,
                                     dict(src=built.source))
                st = model.StdTables()
                st.add_json(d)
                reqs.append({'op': 'loadv1' if engine == 'v1' else 'load', 'ty': model.enc_ty(ty), 'doc': model.enc_j(d), 'std': st.build()})
                pend.append((case, out, built))
        finally:
            built.close()
        if ctx.done(idx):
            break
    if ctx.model_available:
        outs = ctx.driver.run(reqs)
        for (case, out, built), o_ in zip(pend, outs):
            compare_load(ctx, 'absent:debug', case, out, o_, built)
