"""C06 part E — histories around the *set-up* of a class (the generation of its load / dump functions), both engines.

The library builds the functions of a class at its first use and keeps per-class tables while doing so.  Two kinds of history
make it build the functions of one class *more than once*, which is where a table that remembers something of the earlier
build shows:

  first use fails   the class (or a class it nests) has a field whose type the library cannot handle *yet*: a nested class
                    that is not a dataclass yet (the error message recommends decorating it), or a forward reference to a
                    class defined further down the module.  1..2 first calls fail during the set-up; the cause is removed
                    (`dataclass(L)` / the class is defined in the same module); the same kind of calls is made again.
  two ways in       one class is nested (directly / in a list / dict / Optional) under two different main classes, and is
                    possibly used on its own as well; the main classes are used in random order.

The classes are "rich": 3..6 fields in random order among plain, defaulted, `CatchAll` (required or `= None`), aliased keys
(default engine: `json_field(K, all=True)`; v1: `Alias(K)` / `Alias(load=K)`), nested paths (`path_field` / `KeyPath`; v1:
`AliasPath`), a list with a default factory, and the nested-class field(s) - so that a set-up is interrupted / repeated after
any number of fields of any of these kinds.  Judge: the oracle of C06 itself (`c06.check_history`): every load / dump of the
history equals the same call made first in a fresh process after only the definitions it needs.
"""
from __future__ import annotations

import copy

from harness import model

V1_IMPORT = 'from dataclass_wizard.v1 import Alias as _V1Alias, AliasPath as _V1AliasPath\n'
EXTRA_KEYS = ['zz_top', 'extraKey', 'X-tra', 'more']
LINK_FORMS = ['direct', 'direct', 'list', 'dict', 'optional']


def _camel(n):
    p = n.split('_')
    return p[0] + ''.join(x.title() for x in p[1:])


def _wrap_ann(form, target, quoted):
    """annotation source (with its default, if any) of a field holding `target` in the given form; `quoted`: None, 'whole' or
    'inner' (the class is named by a forward reference)"""
    t = repr(target) if quoted == 'inner' else target
    ann = {'direct': t, 'list': f'list[{t}]', 'dict': f'dict[str, {t}]', 'optional': f'Optional[{t}]'}[form]
    if quoted == 'whole':
        ann = repr(ann)
    return ann + (' = None' if form == 'optional' else '')


def rich_class(rng, name, engine, wizard, links=(), decorated=True, n_own=None, p_catch=0.75, meta_items=()):
    """a class model: own fields of the kinds above + the link fields `links` = [(field name, form, target record or name, quoted)];
    returns the record {'name', 'fields', 'src', ...}"""
    tag = name.lower()
    fields = []
    kinds = ['int', 'int', 'str', 'float', 'list', 'alias', 'alias', 'path', 'path']
    n_own = rng.randint(2, 4) if n_own is None else n_own
    for j in range(n_own):
        k = rng.choice(kinds)
        fname = f'{k[0]}{j}_val'
        req = k in ('int', 'alias', 'path') and rng.random() < 0.5
        f = {'name': fname, 'kind': k, 'req': req}
        if k == 'int':
            f['line'] = f'{fname}: int' + ('' if req else f' = {rng.choice([3, 0])}')
        elif k == 'str':
            f['line'] = f'{fname}: str = {rng.choice(["s", ""])!r}'
        elif k == 'float':
            f['line'] = f'{fname}: float = 0.5'
        elif k == 'list':
            f['line'] = f'{fname}: list[int] = field(default_factory=list)'
        elif k == 'alias':
            f['key'] = key = rng.choice(['KEY', 'theKey', 'a-key', 'Key_Of']) + f'{j}{tag}'
            d = '' if req else f', default={rng.choice([5, 0])}'
            if engine == 'v1':
                f['line'] = f'{fname}: int = ' + (f'_V1Alias({key!r}{d})' if rng.random() < 0.6 else f'_V1Alias(load={key!r}{d})')
            elif req and rng.random() < 0.4:
                f['line'] = f'{fname}: Annotated[int, json_key({key!r}, all=True)]'
            else:
                f['line'] = f'{fname}: int = json_field({key!r}, all=True{d})'
        else:
            f['path'] = path = [rng.choice(['srv', 'cfg', 'meta']) + f'{j}{tag}', rng.choice(['port', 'inner', 'n'])]
            ps = '.'.join(path)
            d = '' if req else f', default={rng.choice([80, 0])}'
            if engine == 'v1':
                f['line'] = f'{fname}: int = _V1AliasPath({ps!r}{d})'
            elif req and rng.random() < 0.5:
                f['line'] = f'{fname}: Annotated[int, KeyPath({ps!r})]'
            else:
                f['line'] = f'{fname}: int = path_field({ps!r}{d})'
        fields.append(f)
    if rng.random() < p_catch:
        req = rng.random() < 0.5
        fields.append({'name': 'rest', 'kind': 'catch', 'req': req, 'line': 'rest: CatchAll' + ('' if req else ' = None')})
    for fname, form, target, quoted in links:
        tname = target if isinstance(target, str) else target['name']
        fields.append({'name': fname, 'kind': 'link', 'req': form != 'optional', 'form': form, 'target': target,
                       'line': f'{fname}: {_wrap_ann(form, tname, quoted)}'})
    rng.shuffle(fields)
    fields = [f for f in fields if f['req']] + [f for f in fields if not f['req']]
    items = list(meta_items)
    if engine == 'v1' and wizard:
        items.insert(0, 'v1 = True')
    meta = ''
    if wizard and items:
        meta = '    class _(JSONWizard.Meta):\n' + ''.join(f'        {x}\n' for x in items)
    src = (('@dataclass\n' if decorated else '') + f'class {name}{"(JSONWizard)" if wizard else ""}:\n{meta}'
           + ''.join(f'    {f["line"]}\n' for f in fields))
    return {'name': name, 'engine': engine, 'wizard': wizard, 'fields': fields, 'src': src, 'usable': decorated}


def _nested(rec):
    """names of the classes a record (transitively) nests and that exist as usable records"""
    out = []
    for f in rec['fields']:
        if f['kind'] == 'link' and not isinstance(f['target'], str):
            out += [f['target']['name']] + _nested(f['target'])
    return out


def gen_doc(rng, rec):
    doc = {}
    for f in rec['fields']:
        k = f['kind']
        if k == 'catch':
            for key in rng.sample(EXTRA_KEYS, rng.choice([0, 1, 1, 2])):
                doc[key] = rng.choice([1, 'x', None, [1]])
            continue
        if rng.random() > (0.95 if f['req'] else 0.6):
            continue
        if k == 'link':
            t = f['target']
            one = (lambda: gen_doc(rng, t)) if not isinstance(t, str) else (lambda: rng.choice([{}, {'x_val': 1}]))
            doc[f['name']] = ([one() for _ in range(rng.randint(0, 2))] if f['form'] == 'list' else
                              {kk: one() for kk in rng.sample(['k', 'j'], rng.randint(0, 2))} if f['form'] == 'dict' else one())
        elif k == 'alias':
            doc[f['key']] = rng.choice([7, '8', 9])
        elif k == 'path':
            doc.setdefault(f['path'][0], {})[f['path'][1]] = rng.choice([81, '82'])
        else:
            key = f['name'] if rng.random() < 0.8 else _camel(f['name'])
            doc[key] = {'int': rng.choice([1, '2', 4]), 'str': rng.choice(['a', 'b']), 'float': rng.choice([1.5, 2]),
                        'list': rng.choice([[1], ['2', 3], []])}[k]
    items = list(doc.items())
    if rng.random() < 0.5:
        rng.shuffle(items)
    return dict(items)


def gen_expr(rng, rec):
    args = []
    for f in rec['fields']:
        k = f['kind']
        if not f['req'] and rng.random() < 0.4:
            continue
        if k == 'catch':
            v = rng.choice(['{}', "{'zz_top': 1}", "{'more': 'x', 'X-tra': 2}"] + ([] if f['req'] else ['None']))
        elif k == 'link':
            t = f['target']
            usable = not isinstance(t, str) and t['usable']
            # (while the class does not exist / is not a dataclass yet: None.  A bare instance `L()` of a class that is not a dataclass
            # yet is dumped through the default hook, which the dumper then keeps for the type after it has become a dataclass:
            # recorded, findings/default-dump-hook-kept-for-class-decorated-later.py, and kept out of this stream)
            one = (lambda: gen_expr(rng, t)) if usable else (lambda: 'None')
            v = ('[' + ', '.join(one() for _ in range(rng.randint(0, 2))) + ']' if f['form'] == 'list' else
                 '{' + ', '.join(f'{kk!r}: {one()}' for kk in rng.sample(['k', 'j'], rng.randint(0, 2))) + '}' if f['form'] == 'dict' else one())
        else:
            v = {'int': '1', 'alias': '7', 'path': '81', 'str': '"a"', 'float': '1.5', 'list': '[1, 2]'}[k]
        args.append(f'{f["name"]}={v}')
    return f'{rec["name"]}({", ".join(args)})'


def _use(rng, rec, p_load=0.7, extra_uses=()):
    uses = {'uses': [rec['name']] + _nested(rec) + list(extra_uses)}
    wizard = rec['wizard']
    if rng.random() < p_load:
        via = rng.choice(['fromdict', 'fromdict', 'fromlist'] + (['method', 'method', 'json', 'method_list'] if wizard else []))
        return dict({'op': 'load', 'cls': rec['name'], 'doc': gen_doc(rng, rec), 'via': via}, **uses)
    via = rng.choice(['asdict', 'asdict'] + (['method', 'to_json'] if wizard else []))
    return dict({'op': 'dump', 'cls': rec['name'], 'expr': gen_expr(rng, rec), 'via': via}, **uses)


def _binds(rng, recs, always=()):
    """v1 classes that are not JSONWizard subclasses get the engine through LoadMeta(v1=True); returns (ops, names usable alone)"""
    ops, alone = [], []
    for r in recs:
        if r['engine'] != 'v1' or r['wizard']:
            alone.append(r['name'])
        elif r['name'] in always or rng.random() < 0.5:
            ops.append({'op': 'bind', 'cls': r['name'], 'kind': 'load', 'meta': {'v1': True}})
            alone.append(r['name'])
    return ops, alone


def fam_first_use_fails(rng):
    """main class M (-> Mid) -> L where L is not usable yet at the first calls: not a dataclass yet, or not defined yet (forward
    reference); the class holding the link is rich; after 1..2 first attempts the cause is removed and M (and Mid) are used again"""
    engine = rng.choice(['default', 'v1'])
    cause = rng.choice(['decorate-later', 'forward-ref'])
    depth = rng.choice([1, 1, 2])
    m, mid, late = model.fresh('FM'), model.fresh('FMid'), model.fresh('FL')
    w_main = rng.random() < 0.5
    leaf = rich_class(rng, late, engine, rng.random() < 0.25, decorated=(cause == 'forward-ref'), n_own=rng.randint(1, 2), p_catch=0.2)
    form = rng.choice(LINK_FORMS)
    quoted = rng.choice(['whole', 'inner']) if cause == 'forward-ref' else None
    link = ('link', form, late if cause == 'forward-ref' else leaf, quoted)
    if cause == 'decorate-later':
        leaf['usable'] = False
    if depth == 1:
        main = rich_class(rng, m, engine, w_main, links=[link])
        recs = [main]
    else:
        middle = rich_class(rng, mid, engine, rng.random() < 0.4, links=[link])
        main = rich_class(rng, m, engine, w_main, links=[('mid', rng.choice(LINK_FORMS), middle, None)], p_catch=0.4)
        recs = [middle, main]
    src = V1_IMPORT + (leaf['src'] + '\n' if cause == 'decorate-later' else '') + '\n'.join(r['src'] for r in recs)
    defines = [r['name'] for r in recs] + ([late] if cause == 'decorate-later' else [])
    ops = [{'op': 'src', 'src': src, 'defines': defines}]
    bind_ops, alone = _binds(rng, recs, always=[m])
    ops += bind_ops
    usable = [r for r in recs if r['name'] in alone]
    for k in range(rng.choice([1, 1, 2])):
        r = main if k == 0 and rng.random() < 0.7 else rng.choice(usable)
        ops.append(_use(rng, r, p_load=0.7))
    if cause == 'decorate-later':
        ops.append({'op': 'src', 'src': f'dataclass({late})\n', 'defines': [late], 'requires': [m], 'into': m})
        leaf['usable'] = True
    else:
        ops.append({'op': 'src', 'src': leaf['src'], 'defines': [late], 'requires': [m], 'into': m})
        for r in recs:
            for f in r['fields']:
                if f['kind'] == 'link' and f['target'] == late:
                    f['target'] = leaf
    for _ in range(rng.randint(2, 5)):
        ops.append(_use(rng, main if rng.random() < 0.6 else rng.choice(usable)))
    return ops


def fam_two_ways_in(rng):
    """a rich class S nested under two main classes A and B (any form each), all on one engine with the same settings; A, B and (when
    it can be used on its own) S are loaded / dumped in random order"""
    engine = rng.choice(['default', 'v1'])
    s, a, b = model.fresh('TS'), model.fresh('TA'), model.fresh('TB')
    shared = rich_class(rng, s, engine, rng.random() < 0.3, p_catch=0.85)
    w = rng.random() < 0.5
    main_a = rich_class(rng, a, engine, w, links=[('item', rng.choice(LINK_FORMS), shared, None)], n_own=rng.randint(1, 2), p_catch=0.3)
    main_b = rich_class(rng, b, engine, w if rng.random() < 0.7 else not w, links=[('part', rng.choice(LINK_FORMS), shared, None)],
                        n_own=rng.randint(1, 2), p_catch=0.3)
    recs = [shared, main_a, main_b]
    ops = [{'op': 'src', 'src': V1_IMPORT + '\n'.join(r['src'] for r in recs), 'defines': [s, a, b], 'nests': {a: [s], b: [s]}}]
    bind_ops, alone = _binds(rng, recs, always=[a, b])
    ops += bind_ops
    usable = [r for r in recs if r['name'] in alone]
    first = [main_a, main_b]
    rng.shuffle(first)
    seq = first if rng.random() < 0.6 else []
    for r in seq + [rng.choice(usable) for _ in range(rng.randint(3, 7) - len(seq))]:
        ops.append(_use(rng, r, p_load=0.75))
    return ops


SETUP_FAMILIES = [fam_first_use_fails, fam_first_use_fails, fam_two_ways_in]
