"""C01 — dump-then-load is the identity (default engine, every text format)."""
from __future__ import annotations

import datetime as dt
import json
import os
import tempfile

from harness import common as C
from harness import gen, model, ref

OPTS = dict(meta_keys=['key_transform_with_dump', 'marshal_date_time_as_iso', 'skip_defaults_off'],
            leaves=gen.LEAVES_DEFAULT)


def make_case(rng):
    o = gen.Opts(**OPTS)
    o.meta_keys = ['key_transform_with_dump']
    ty = gen.gen_cls(rng, rng.choice([0, 1, 2, 2, 3]), o)
    r = rng.random()
    if r < 0.3:
        ty['info']['wizard'] = rng.choice(['yaml', 'toml', 'file'])
        if ty['info']['wizard'] != 'file':
            ty['info']['meta'] = None
    return ty


def load_outcome(fn):
    try:
        return ('ok', fn())
    except Exception as e:
        return ('err', e)


def err_class(e):
    from dataclass_wizard.errors import ParseError, MissingFields, MissingData, UnknownKeysError, JSONWizardError
    if isinstance(e, MissingData):
        return ['MissingData']
    if isinstance(e, ParseError):
        return ['ParseError']
    if isinstance(e, MissingFields):
        return ['MissingFields', sorted(e.missing_fields)]
    if isinstance(e, UnknownKeysError):
        k = e.unknown_keys
        return ['UnknownKeysError', sorted([k] if isinstance(k, str) else list(k))]
    if isinstance(e, JSONWizardError):
        return [type(e).__name__]
    return ['raw']


def model_err(r):
    kind = r[0]
    if kind == 'ParseError':
        return ['ParseError']
    if kind == 'MissingData':
        return ['MissingData']
    if kind == 'MissingFields':
        return ['MissingFields', sorted(r[2])]
    if kind == 'UnknownKeysError':
        return ['UnknownKeysError', sorted(r[2])]
    if kind == 'raw':
        return ['raw']
    return [kind, r[1] if len(r) > 1 else None]


def compare_load(ctx, kind, case, impl_out, o, built):
    """impl_out = ('ok', obj) | ('err', exc); o = driver output line"""
    if o is None:
        return
    if 'err' in o and 'r' not in o:
        ctx.agree(kind, case, 'impl', {'driver_error': o['err']})
        return
    r = o['r']
    if model.has_miss(r):
        ctx.count('std_miss')
        return
    if 'err' in r and r['err'][0] == 'unsupported':
        ctx.count('model_unsupported')
        return
    if impl_out[0] == 'ok':
        impl = {'ok': model.canon_py(model.enc_py(impl_out[1], built, full_inst=False))}
    else:
        impl = {'err': err_class(impl_out[1])}
    if 'ok' in r:
        m = {'ok': model.canon_py(r['ok'])}
    else:
        m = {'err': model_err(r['err'])}
    ctx.agree(kind, case, impl, m)


def run(ctx: C.Ctx):
    rng = ctx.rng
    gen.SUBS = False
    from dataclass_wizard import asdict, fromdict
    ctx.rule = ('random class models over the C01 grammar (depth ≤ 3, every leaf at every container position, Union of '
                'JSON-distinguishable members, tagged dataclass unions, NamedTuple/TypedDict/Enum/Literal; dump key transform in '
                '{unset,CAMEL,PASCAL,LISP,SNAKE,NONE}) with one conforming instance each: fromdict(asdict(x)), from_json(to_json(x)), '
                'from_list/list_to_json, YAML/TOML/JSON-file mixins when the format carries the payload; the load of the dumped '
                'document is also compared with the Lean model. Non-trivial = distinct (class model, instance).')
    n = ctx.quick(1200, 15000)
    reqs, pend = [], []
    for i in range(n):
        if ctx.done(i):
            break
        ty = make_case(rng)
        try:
            built = model.Built(ty)
        except Exception as e:
            ctx.count('build_error')
            ctx.notes.setdefault('build_errors', []).append(repr(e)[:200])
            continue
        try:
            neg = (i % 40 == 39)
            x = gen.gen_instance(rng, ty, built)
            if not ctx.begin_case(i):
                continue
            case = {'ty': ty, 'inst': repr(x)[:500]}
            ctx.seen('roundtrip', case)
            Cls = built.root
            src = dict(src=built.source)
            try:
                d = asdict(x)
            except Exception as e:
                ctx.fail('roundtrip:dump', case, f'asdict raised {e!r}', detail=src)
                continue
            key = _known_key(x)
            # -- fromdict(asdict(x))
            out = load_outcome(lambda: fromdict(Cls, d))
            check_rt(ctx, 'roundtrip:dict', case, out, x, src, key)
            # -- through JSON text
            try:
                jd = json.loads(json.dumps(d))
            except Exception:
                jd = None
            if jd is not None:
                out_j = load_outcome(lambda: fromdict(Cls, jd))
                check_rt(ctx, 'roundtrip:jsonified', case, out_j, x, src, key)
                st = model.StdTables()
                st.add_json(jd)
                reqs.append({'op': 'load', 'ty': model.enc_ty(ty), 'doc': model.enc_j(jd), 'std': st.build()})
                pend.append((case, out_j, built))
            if hasattr(Cls, 'from_json'):
                out = load_outcome(lambda: Cls.from_json(x.to_json()))
                check_rt(ctx, 'roundtrip:json', case, out, x, src, key)
                out = load_outcome(lambda: Cls.from_list(json.loads(Cls.list_to_json([x, x]))))
                if out[0] == 'ok':
                    ok = len(out[1]) == 2 and all(ref.same_typed(y, x) for y in out[1])
                    if not ok and key is None:
                        ctx.fail('roundtrip:list', case, f'from_list(list_to_json([x, x])) = {out[1]!r} != [x, x]', detail=src)
                elif key is None:
                    ctx.fail('roundtrip:list', case, f'from_list(list_to_json([x, x])) raised {out[1]!r}', detail=src)
            text_formats(ctx, case, x, Cls, built, src, key)
        finally:
            built.close()
    if ctx.model_available:
        outs = ctx.driver.run(reqs)
        for (case, impl_out, built), o in zip(pend, outs):
            compare_load(ctx, 'load-of-dump', case, impl_out, o, built)


def _known_key(x):
    """known-finding attribution: does the instance contain a negative timedelta?"""
    import dataclasses
    import collections

    def walk(v):
        if isinstance(v, dt.timedelta):
            return v < dt.timedelta(0)
        if dataclasses.is_dataclass(v) and not isinstance(v, type):
            return any(walk(getattr(v, f.name)) for f in dataclasses.fields(v) if hasattr(v, f.name))
        if isinstance(v, dict):
            return any(walk(k) or walk(y) for k, y in v.items())
        if isinstance(v, (list, tuple, set, frozenset, collections.deque)):
            return any(walk(y) for y in v)
        return False
    return 'neg-timedelta' if walk(x) else None


def check_rt(ctx, kind, case, out, x, src, key):
    if out[0] == 'err':
        ctx.fail(kind, case, f'load of the dumped instance raised {type(out[1]).__name__}: {str(out[1])[:300]}', key=key, detail=src)
    elif not ref.same_typed(out[1], x):
        ctx.fail(kind, case, f'load(dump(x)) differs from x at {ref.first_diff(out[1], x)} (loaded vs original)'[:1500], key=key, detail=src)


def text_formats(ctx, case, x, Cls, built, src, key):
    """YAML / TOML / JSON-file mixins (the root class derives from the mixin)."""
    from dataclass_wizard import asdict
    import yaml
    import tomllib
    d = asdict(x)
    try:
        jd = json.loads(json.dumps(d))
    except Exception:
        return
    if hasattr(Cls, 'to_yaml'):
        try:
            txt = x.to_yaml()
            carriable = _same_doc(yaml.safe_load(txt), jd) and not _has_nan(jd)
        except Exception:
            carriable = False
        ctx.count('yaml_carriable' if carriable else 'yaml_not_carriable')
        if carriable:
            check_rt(ctx, 'roundtrip:yaml', case, load_outcome(lambda: Cls.from_yaml(txt)), x, src, key)
    if hasattr(Cls, 'to_toml'):
        try:
            txt = x.to_toml()
            carriable = _same_doc(tomllib.loads(txt), jd) and not _has_nan(jd) and not isinstance(jd.get('items'), list)
        except Exception:
            carriable = False
        ctx.count('toml_carriable' if carriable else 'toml_not_carriable')
        if carriable:
            check_rt(ctx, 'roundtrip:toml', case, load_outcome(lambda: Cls.from_toml(txt)), x, src, key)
    if hasattr(Cls, 'to_json_file'):
        fd, path = tempfile.mkstemp(suffix='.json', prefix='dwverif')
        os.close(fd)
        try:
            x.to_json_file(path)
            check_rt(ctx, 'roundtrip:json-file', case, load_outcome(lambda: Cls.from_json_file(path)), x, src, key)
        finally:
            os.unlink(path)


def _same_doc(a, b):
    """does the text carry the document, *including the order of keys* (an OrderedDict field depends on it; TOML writes
    scalar entries before tables)"""
    try:
        return a == b and json.dumps(a) == json.dumps(b)
    except Exception:
        return False


def _has_nan(v):
    if isinstance(v, float):
        return v != v
    if isinstance(v, dict):
        return any(_has_nan(x) for x in v.values())
    if isinstance(v, list):
        return any(_has_nan(x) for x in v)
    return False


