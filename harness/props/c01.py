"""C01 — dump-then-load is the identity (default engine, every text format)."""
from __future__ import annotations

import datetime as dt
import enum
import json
import os
import random
import subprocess
import sys
import tempfile

from harness import common as C
from harness import gen, model, nestfirst, ref
from harness.model import T

OPTS = dict(meta_keys=['key_transform_with_dump', 'marshal_date_time_as_iso', 'skip_defaults_off'],
            leaves=gen.LEAVES_DEFAULT)


def make_case(rng):
    o = gen.Opts(**OPTS)
    o.meta_keys = ['key_transform_with_dump']
    ty = gen.gen_cls(rng, rng.choice([0, 1, 2, 2, 3]), o)
    r = rng.random()
    if r < 0.3:
        ty['info']['wizard'] = rng.choice(['yaml', 'toml', 'file'])
        if ty['info']['wizard'] != 'file':
            ty['info']['meta'] = None
    return ty


# --------------------------------------------------------------------------- family: tag configuration × binding style × histories
# the names most often used for a tag key are also ordinary field names of untagged classes
TAG_KEYS = ['type', 'kind', 'tag', '__tag__', 'my tag']
TAG_LIKE_FIELDS = ['type', 'kind', 'tag']
POSITIONS = [lambda u: u, lambda u: T('list', u), lambda u: T('dict', T('str'), u), lambda u: T('tuple', T('str'), u),
             lambda u: T('optional', u) if u['k'] != 'union' else _union(u['a'] + [T('none')])]


def _union(members):
    """Union[X, None] *is* Optional[X] (no tag dispatch); None at most once"""
    some = [m for m in members if m['k'] != 'none']
    if len(some) == 1:
        return T('optional', some[0])
    if len(some) < len(members):
        i = next(i for i, m in enumerate(members) if m['k'] == 'none')
        members = [m for j, m in enumerate(members) if m['k'] != 'none' or j == i]
    return T('union', *members)


def _add_field(rng, ty, ft, name=None):
    used = {f['name'] for f in ty['info']['fields']}
    name = name or gen.field_name(rng, used)
    idx = next((i for i, f in enumerate(ty['info']['fields']) if f.get('dflt') is not None), len(ty['info']['fields']))
    ty['info']['fields'].insert(idx, {'name': name})
    ty['ftys'].append([name, ft])


def _plain_class(rng, o):
    """a nested class without any Meta; some of its fields are named like a tag key"""
    c = gen.gen_cls(rng, rng.choice([0, 0, 1]), o, nested=True)
    c['info']['meta'] = None
    if c['info']['wizard'] == 'py':
        c['info']['wizard'] = True
    if rng.random() < 0.75:
        f = rng.choice(c['info']['fields'])
        new = rng.choice(TAG_LIKE_FIELDS)
        if new not in {g['name'] for g in c['info']['fields']}:
            for e in c['ftys']:
                if e[0] == f['name']:
                    e[0] = new
            f['name'] = new
    return c


def make_tagged_case(rng):
    o = gen.Opts(**OPTS)
    o.meta_keys = ['key_transform_with_dump']
    ty = gen.gen_cls(rng, rng.choice([0, 1, 1, 2]), o)
    auto = rng.random() < 0.4
    # a Union of dataclasses: explicit tags, automatic ones (class name), or a mixture
    if rng.random() < 0.8:
        members = []
        for _ in range(rng.randint(1, 3)):
            m = gen.gen_cls(rng, 0, o, nested=True)
            meta = {k: v for k, v in (m['info'].get('meta') or {}).items()}
            if not auto or rng.random() < 0.4:
                meta['tag'] = model.fresh('tg')
            m['info']['meta'] = meta or None
            if m['info']['wizard'] == 'py' and m['info']['meta'] is None:
                m['info']['wizard'] = True
            members.append(m)
        members += rng.sample([T('int'), T('str'), T('bool'), T('none'), T('float')], rng.randint(0, 2))
        rng.shuffle(members)
        if len(members) == 1:
            members.append(T('none'))
        u = _union(members)
        ft = rng.choice(POSITIONS)(u)
        if rng.random() < 0.4:
            # the Union is a field of a NESTED class (no Meta of its own), one or two levels below the main class
            for _ in range(rng.choice([1, 1, 2])):
                ft = rng.choice(POSITIONS[:4] + [lambda c_: T('optional', c_)])(_nested_holder(rng, ft))
        _add_field(rng, ty, ft)
    # plain nested classes (no Meta of their own: everything they are configured with cascades from the main class)
    for _ in range(rng.choice([0, 1, 1, 2])):
        c = _plain_class(rng, o)
        _add_field(rng, ty, rng.choice(POSITIONS[:4] + [lambda c_: T('optional', c_)])(c))
    # the main class's own configuration, as an inner Meta or bound from outside the class definition
    ty['info']['wizard'] = rng.choice([True, True, False, False, 'py'])
    meta = dict(ty['info'].get('meta') or {})
    if rng.random() < 0.7:
        meta['tag_key'] = rng.choice(TAG_KEYS)
    if auto:
        meta['auto_assign_tags'] = True
    if rng.random() < 0.5:
        meta['tag'] = model.fresh('root')
    if rng.random() < 0.35:
        # recursive_classes: nested dataclasses are reached through lazily built loaders; what it is for - a model that refers to itself
        meta['recursive_classes'] = True
        if rng.random() < 0.6:
            _add_field(rng, ty, rng.choice([lambda r: T('optional', r), lambda r: T('optional', r), lambda r: T('list', r),
                                            lambda r: T('dict', T('str'), r)])(T('selfref', name=ty['info']['name'])))
    ty['info']['meta'] = meta or None
    # ---- history
    pre = []
    if rng.random() < 0.6:
        cands = standalone_first_candidates(ty)
        rng.shuffle(cands)
        pre = [(n_, rng.choice(ops)) for n_, ops in cands[:rng.randint(1, max(1, len(cands)))]]
    return ty, pre


# --------------------------------------------------------------------------- family: value shapes on the lookup / "no value" boundaries
# (1) Enums written as lookup tables: a member's value reads like the *name* of a member (another one, or itself, in some
#     letter case / blank spelling) - a member is dumped as its value and must come back as the same member;
# (2) falsy-but-valid values ('' / 0 / 0.0 / False / empty containers / zero Decimal, timedelta, midnight) directly below an
#     Optional - Optional[Any], Optional[Literal['', ..]], Optional[<Enum with a ''-valued member>], Optional[str], ... -
#     as field, list element, dict value, tuple member, nested-class field: only None means "no value".
VALUE_POSITIONS = [('field', lambda u: u), ('list', lambda u: T('list', u)), ('dictval', lambda u: T('dict', T('str'), u)),
                   ('tuple', lambda u: T('tuple', T('int'), u)), ('vtuple', lambda u: T('vtuple', u)),
                   ('deque', lambda u: T('deque', u)), ('list-list', lambda u: T('list', T('list', u))),
                   ('ordereddict', lambda u: T('ordereddict', T('str'), u))]
OPT_INNER = ['any', 'any', 'any', 'literal', 'literal', 'enum', 'enum', 'str', 'str', 'int', 'float', 'bool', 'decimal', 'timedelta',
             'time', 'list', 'dict', 'vtuple']


def _nested_holder(rng, ft):
    return {'k': 'cls', 'info': {'name': model.fresh('C'), 'fields': [{'name': 'held'}], 'wizard': rng.choice([True, False]), 'meta': None},
            'ftys': [['held', ft]]}


def make_value_case(rng):
    o = gen.Opts(**dict(OPTS, enum_words_prob=0.7, falsy_prob=0.5, enum_prob=0.3, enum_mixin_prob=0.2))
    o.meta_keys = ['key_transform_with_dump']
    hi = gen.Opts(**dict(OPTS, enum_words_prob=0.85, falsy_prob=0.9, enum_mixin_prob=0.2))
    ty = gen.gen_cls(rng, rng.choice([0, 1, 1, 2]), o)
    if rng.random() < 0.25:
        ty['info']['wizard'] = rng.choice(['yaml', 'toml', 'file'])
        if ty['info']['wizard'] != 'file':
            ty['info']['meta'] = None
    for _ in range(rng.randint(1, 3)):
        if rng.random() < 0.4:
            # (1) an Enum at a position of its own, below an Optional, or as the key of a dict (text-valued members)
            et = gen.gen_enum(rng, hi)
            pos = rng.choice(['plain', 'plain', 'optional', 'dictkey', 'set'])
            if pos == 'dictkey' and all(isinstance(v, str) for _, v in et['members']):
                ft = T('dict', et, T('int'))
            elif pos == 'set':
                ft = T(rng.choice(['set', 'frozenset']), et)
            elif pos == 'optional':
                ft = rng.choice(VALUE_POSITIONS)[1](gen.opt_spelling(rng, gen._falsy_mark(T('optional', et), hi)))
            else:
                ft = rng.choice(VALUE_POSITIONS)[1](et)
        else:
            # (2) an Optional whose member type has falsy values
            k = rng.choice(OPT_INNER)
            inner = (gen.gen_literal(rng, hi) if k == 'literal' else gen.gen_enum(rng, hi) if k == 'enum'
                     else T('list', T('int')) if k == 'list' else T('dict', T('str'), T('any')) if k == 'dict'
                     else T('vtuple', T('str')) if k == 'vtuple' else T(k))
            if inner['k'] == 'literal' and None in inner['vs']:
                inner['vs'] = [v for v in inner['vs'] if v is not None] or ['']
            ft = rng.choice(VALUE_POSITIONS)[1](gen.opt_spelling(rng, gen._falsy_mark(T('optional', inner), hi)))
        if rng.random() < 0.2:
            ft = _nested_holder(rng, ft)
        _add_field(rng, ty, ft)
    return ty


# --------------------------------------------------------------------------- family: any identifier under the NONE key transform
# "... and under the NONE transform for any identifier": every class of the tree gets field names drawn from all identifiers
# (gen.any_identifier: camelCase / PascalCase / CAPS / one letter / leading, trailing, doubled underscores / digits / non-ASCII, and
# several names of one class that coincide under a folding of letter case or underscores); the whole tree dumps with
# key_transform_with_dump = NONE, configured in each of the ways the library offers.
NONE_STYLES = ['py', 'py', 'inner', 'inner', 'bound', 'dumpmeta', 'toml', 'file']


def _class_nodes_in(t, out):
    k = t['k']
    if k == 'cls':
        if not any(t is c for c in out):
            out.append(t)
        for _, ft in t['ftys']:
            _class_nodes_in(ft, out)
    elif k in ('namedtuple', 'typeddict'):
        for fld in t['fields']:
            _class_nodes_in(fld[1], out)
    else:
        for x in t.get('a', []):
            _class_nodes_in(x, out)
    return out


def rename_fields(rng, node, collide=0.45):
    used = set()
    ren = {}
    for f in node['info']['fields']:
        ren[f['name']] = gen.any_identifier(rng, used, collide)
        f['name'] = ren[f['name']]
    for e in node['ftys']:
        e[0] = ren[e[0]]


def make_ident_case(rng):
    o = gen.Opts(**OPTS)
    o.meta_keys = []
    o.py_wizard_prob = 0.0
    ty = gen.gen_cls(rng, rng.choice([0, 1, 1, 2]), o)
    if rng.random() < 0.5:
        # at least one nested class, at a container position
        c = gen.gen_cls(rng, rng.choice([0, 0, 1]), o, nested=True)
        _add_field(rng, ty, rng.choice(POSITIONS[:4] + [lambda c_: T('optional', c_)])(c))
    nodes = _class_nodes_in(ty, [])
    for node in nodes:
        rename_fields(rng, node)
        if node is not ty:
            # nested classes: nothing of their own (the main class's setting cascades), or JSONPyWizard (NONE by itself)
            tag = (node['info'].get('meta') or {}).get('tag')          # a member of a tagged Union keeps its tag
            node['info']['meta'] = {'tag': tag} if tag else None
            node['info']['wizard'] = rng.choice([True, False, False, 'py'])
    style = rng.choice(NONE_STYLES)
    info = ty['info']
    info.pop('meta_steps', None)
    if style == 'py':
        info['wizard'], info['meta'] = 'py', None
    elif style == 'inner':
        info['wizard'], info['meta'] = True, {'key_transform_with_dump': 'NONE'}
    elif style == 'file':
        info['wizard'], info['meta'] = 'file', {'key_transform_with_dump': 'NONE'}
    elif style == 'bound':
        info['wizard'], info['meta'] = False, {'key_transform_with_dump': 'NONE'}
    elif style == 'dumpmeta':
        info['wizard'], info['meta'] = rng.choice([True, False]), {'key_transform_with_dump': 'NONE'}
        info['meta_steps'] = [{'via': 'dump', 'meta': {'key_transform_with_dump': 'NONE'}}]
    else:
        info['wizard'], info['meta'] = 'toml', None
    return ty, style


# --------------------------------------------------------------------------- family: text over the whole character range × process settings
# "... and the same through the YAML, TOML and JSON-file mixins for payloads those formats can carry": which payloads a format can
# carry is a fact about the format (its standard writer and reader carry them), not about the text the mixin happens to write.
# (1) every `str` of the instance - field, element, dict key and value, text below Any, at every position - is drawn from all texts
#     (gen.any_text: C0 / C1 controls, the line breaks of other standards, Latin-1 / code-page / BMP / astral characters, format and
#     non-characters, lone surrogates, look-alikes of other scalars, texts longer than a writer's line width);
# (2) the file round trips of the same cases run again in child interpreters started under every process setting that decides what
#     `open()` without an encoding means: the locale encodings this machine offers (ASCII for LC_ALL=C, ...) and UTF-8 mode on / off.
TEXT_WIZARDS = ['yaml', 'yaml', 'yaml', 'toml', 'toml', 'file', 'file', True]


def make_text_case(rng):
    w = rng.choice(TEXT_WIZARDS)
    o = gen.Opts(**dict(OPTS, leaves=['str', 'str', 'str', 'str', 'any', 'int', 'bool', 'float', 'path']))
    o.meta_keys = ['key_transform_with_dump']
    o.py_wizard_prob = 0.0
    o.containers = ['list', 'list', 'dict', 'dict', 'set', 'frozenset', 'deque', 'tuple', 'vtuple', 'defaultdict', 'ordereddict']
    if w == 'yaml':
        # kept out: tuple / NamedTuple / OrderedDict values (recorded finding yaml-python-tags, findings/yaml-python-tags.py)
        o.containers = ['list', 'list', 'dict', 'dict', 'set', 'frozenset', 'deque', 'defaultdict']
        o.allow_nt = False
    if w == 'toml':
        # TOML has no null: keep the share of payloads it can carry high
        o.leaves = ['str', 'str', 'str', 'str', 'int', 'bool', 'float']
        o.allow_optional = False
        o.allow_union = False
        o.nt_default_prob = 0.0
    ty = gen.gen_cls(rng, rng.choice([0, 1, 1, 2]), o)
    if not model.contains_kind(ty, 'str'):
        _add_field(rng, ty, rng.choice([lambda u: u, lambda u: T('list', u), lambda u: T('dict', u, u)])(T('str')))
    ty['info']['wizard'] = w
    if w in ('yaml', 'toml'):
        ty['info']['meta'] = None
    return ty


def process_settings():
    """the settings of a child interpreter that decide the encoding of `open()` without one: for every locale of this machine with
    an encoding of its own (UTF-8 mode off, no coercion of the C locale), and UTF-8 mode switched on"""
    base = {'PYTHONUTF8': '0', 'PYTHONCOERCECLOCALE': '0'}
    try:
        names = subprocess.run(['locale', '-a'], capture_output=True, text=True, timeout=20).stdout.split()
    except Exception:
        names = []
    names = ['C'] + [n for n in names if n not in ('C', 'POSIX')]
    out, seen = [], set()
    probe = 'import locale, sys; sys.stdout.write(locale.getencoding())'
    for n in names[:60]:
        env = dict(base, LC_ALL=n, LANG=n)
        try:
            enc = subprocess.run([sys.executable, '-c', probe], env=_child_env(env), capture_output=True, text=True, timeout=30).stdout.strip()
        except Exception:
            continue
        import codecs
        try:
            enc_n = codecs.lookup(enc).name
        except LookupError:
            continue
        if enc_n in seen:
            continue
        seen.add(enc_n)
        out.append({'name': f'locale {n} ({enc}), UTF-8 mode off', 'env': env})
        if len(out) >= 4:
            break
    out.append({'name': 'locale C, UTF-8 mode on', 'env': {'LC_ALL': 'C', 'LANG': 'C', 'PYTHONUTF8': '1'}})
    return out


def _child_env(extra):
    env = {k: v for k, v in os.environ.items() if not k.startswith('LC_') and k not in ('LANG', 'LANGUAGE', 'PYTHONUTF8', 'PYTHONCOERCECLOCALE',
                                                                                      'PYTHONIOENCODING')}
    env.update(extra)
    env['VERIF_REPO'] = str(C.REPO)
    return env


def run_under_settings(ctx, jobs):
    """jobs = [(case index, j, case)] of the family text-charset: the file round trips of each, in a child interpreter per process setting"""
    if not jobs:
        return
    payload = json.dumps({'seed': ctx.seed, 'js': [j for _i, j, _c in jobs]})
    by_j = {j: (i, c) for i, j, c in jobs}
    for st in process_settings():
        try:
            p = subprocess.run([sys.executable, '-m', 'harness.props.c01', '--file-roundtrips'], input=payload.encode('ascii'), cwd=str(C.VERIF),
                               env=_child_env(st['env']), capture_output=True, timeout=600)
        except subprocess.TimeoutExpired:
            ctx.notes.setdefault('process_setting_timeouts', []).append(st['name'])
            raise
        lines = [json.loads(l) for l in p.stdout.decode('ascii', 'backslashreplace').splitlines() if l.startswith('{')]
        done = [l for l in lines if 'done' in l]
        if p.returncode != 0 or not done:
            raise RuntimeError(f'child interpreter under {st["name"]} exited {p.returncode}: {p.stderr.decode("utf-8", "replace")[-1500:]}')
        ctx.notes.setdefault('process_settings', {})[st['name']] = dict(done[0], encoding=done[0].get('encoding'))
        for l in lines:
            if 'j' not in l:
                continue
            i, case = by_j[l['j']]
            ctx.current = i
            ctx.seen('file-roundtrip-under-setting', [st['name'], case], nontrivial=False)
            for kind, what, k2 in l['failures']:
                ctx.fail(kind + ':process-setting', dict(case, process_setting=st), f'[{st["name"]}, open() encoding {done[0].get("encoding")}] {what}', key=k2)


def child_main():
    """(child interpreter) regenerate the cases of the family text-charset named on stdin, run their file round trips, report per case"""
    import locale
    C.setup_repo_path()
    req = json.loads(sys.stdin.buffer.read().decode('ascii'))
    gen.SUBS = False
    n = 0
    for j in req['js']:
        crng = random.Random(f'C01:{req["seed"]}:text-charset:{j}')
        gen.TEXT = gen.any_text
        try:
            ty = make_text_case(crng)
            built = model.Built(ty)
        except Exception:
            continue
        finally:
            gen.TEXT = None
        try:
            gen.TEXT = gen.any_text
            x = gen.gen_instance(crng, ty, built)
            gen.TEXT = None
            fails = file_roundtrips(x, built.root)
            n += 1
            sys.stdout.write(json.dumps({'j': j, 'failures': fails}) + '\n')
        finally:
            gen.TEXT = None
            built.close()
    sys.stdout.write(json.dumps({'done': n, 'encoding': locale.getencoding(), 'utf8_mode': sys.flags.utf8_mode}) + '\n')
    return 0


def standalone_first_candidates(ty):
    """(nested class N, allowed uses) for uses of N on its own that may precede the first use of `ty`.

    Kept out (recorded finding `shared-nested-config-leak`, listed for C06 / C07, architectural: the per-class tables are
    keyed by class, not by (class, config); see also findings/standalone-load-fixes-tag-key.py):
    (a) an N that itself cascades a Meta to classes below it - their per-class binding would survive into the use of `ty`;
    (b) *loading* an N on its own when a class in its subtree dispatches a Union on a tag and `ty` cascades another tag_key /
        auto_assign_tags to it - the Union parser cached for the field keeps the tag settings of the first use."""
    infos = nestfirst.class_nodes(ty)
    under_root = nestfirst.effective_table(ty)

    def tag_cfg(eff):
        return (eff.get('tag_key') or '__tag__', bool(eff.get('auto_assign_tags')))
    out = []
    for name, node in infos.items():
        if node is ty or nestfirst.cascades_below(node):
            continue
        alone = nestfirst.effective_table(node)
        loadable = all(tag_cfg(alone[n2]) == tag_cfg(under_root[n2]) or not nestfirst.has_dataclass_union(infos[n2]) for n2 in alone)
        out.append((name, ['dump', 'roundtrip'] if loadable else ['dump']))
    return out


def load_outcome(fn):
    try:
        return ('ok', fn())
    except Exception as e:
        return ('err', e)


def err_class(e):
    from dataclass_wizard.errors import ParseError, MissingFields, MissingData, UnknownKeysError, JSONWizardError
    if isinstance(e, MissingData):
        return ['MissingData']
    if isinstance(e, ParseError):
        return ['ParseError']
    if isinstance(e, MissingFields):
        return ['MissingFields', sorted(e.missing_fields)]
    if isinstance(e, UnknownKeysError):
        k = e.unknown_keys
        return ['UnknownKeysError', sorted([k] if isinstance(k, str) else list(k))]
    if isinstance(e, JSONWizardError):
        return [type(e).__name__]
    return ['raw']


def model_err(r):
    kind = r[0]
    if kind == 'ParseError':
        return ['ParseError']
    if kind == 'MissingData':
        return ['MissingData']
    if kind == 'MissingFields':
        return ['MissingFields', sorted(r[2])]
    if kind == 'UnknownKeysError':
        return ['UnknownKeysError', sorted(r[2])]
    if kind == 'raw':
        return ['raw']
    return [kind, r[1] if len(r) > 1 else None]


def compare_load(ctx, kind, case, impl_out, o, built):
    """impl_out = ('ok', obj) | ('err', exc); o = driver output line"""
    if o is None:
        return
    if 'err' in o and 'r' not in o:
        ctx.agree(kind, case, 'impl', {'driver_error': o['err']})
        return
    r = o['r']
    if model.has_miss(r):
        ctx.count('std_miss')
        return
    if 'err' in r and r['err'][0] == 'unsupported':
        ctx.count('model_unsupported')
        return
    if impl_out[0] == 'ok':
        impl = {'ok': model.canon_py(model.enc_py(impl_out[1], built, full_inst=False))}
    else:
        impl = {'err': err_class(impl_out[1])}
    if 'ok' in r:
        m = {'ok': model.canon_py(r['ok'])}
    else:
        m = {'err': model_err(r['err'])}
    ctx.agree(kind, case, impl, m)


def run(ctx: C.Ctx):
    rng = ctx.rng
    gen.SUBS = False
    from dataclass_wizard import asdict, fromdict
    ctx.rule = ('random class models over the C01 grammar (depth ≤ 3, every leaf at every container position, Union of '
                'JSON-distinguishable members, tagged dataclass unions, NamedTuple/TypedDict/Enum/Literal; dump key transform in '
                '{unset,CAMEL,PASCAL,LISP,SNAKE,NONE}) with one conforming instance each: fromdict(asdict(x)), from_json(to_json(x)), '
                'from_list/list_to_json, YAML/TOML/JSON-file mixins when the format carries the payload; the load of the dumped '
                'document is also compared with the Lean model. Non-trivial = distinct (class model, instance).')
    ctx.rule += (' Further dimensions (family tagged-config): tag_key / auto_assign_tags / a tag on the main class, given as an inner '
                 'Meta or bound from outside the class (LoadMeta / DumpMeta style); Unions of dataclasses with explicit, automatic and '
                 'mixed tags at several container positions; plain nested classes whose field names come from the same pool as the tag '
                 'keys; histories in which nested classes are dumped / round-tripped on their own before the first use of the main class.')
    ctx.rule += (' The Union of dataclasses as a field of the main class or of a nested class one or two levels below it (at container positions); '
                 'recursive_classes = True on the main class, with and without a self reference (Optional / list / dict of the main class itself); '
                 'the first operation on the freshly defined classes is the dump.')
    ctx.rule += (' Family value-shapes: Enums written as lookup tables (member values that read like the name of another / the same '
                 'member, in several letter-case / blank spellings; plain and str mix-in) at field / container / dict-key / Optional '
                 'positions; falsy-but-valid values (empty string, 0, 0.0, False, empty containers, zero Decimal / timedelta, midnight) '
                 'directly below Optional[Any | Literal with falsy members | Enum with a falsy-valued member | str | ...] as field, '
                 'list / deque / tuple element, dict value, nested-class field.')
    ctx.rule += (' Family any-identifier: every class of the tree (main and nested, at container positions) with field names drawn from '
                 'all identifiers - camelCase / PascalCase / CAPS / single letters / leading, trailing, doubled underscores / digits / non-ASCII '
                 'letters, and several names of one class that coincide under a folding of letter case or underscores (t / T, id / ID / Id, '
                 'userName / user_name / username) - dumped with key_transform_with_dump = NONE set through JSONPyWizard, an inner Meta, a Meta '
                 'bound from outside, DumpMeta(..).bind_to, TOMLWizard or the JSON-file mixin.')
    ctx.rule += (' Family text-charset: str-heavy class models deriving from the YAML / TOML / JSON-file mixins (and plain JSONWizard) whose texts - '
                 'fields, elements, dict keys and values, texts below Any - are drawn from all texts: C0 and C1 controls (U+0085 among them), '
                 'U+2028 / U+2029, Latin-1, code-page, BMP, combining, format, private-use and non-characters, astral characters, lone surrogates, '
                 'look-alikes of other scalars and of syntax, texts beyond a line width, blanks / breaks at either end. A format carries a payload '
                 'when its standard writer and reader give the document back (not: when the text the mixin wrote happens to); round trips in '
                 'memory and through to_*_file / from_*_file; the file round trips of every case again in child interpreters under each locale '
                 'encoding the machine offers (UTF-8 mode off, no C-locale coercion: LC_ALL=C is ASCII) and under UTF-8 mode.')
    n = ctx.quick(1200, 15000)
    reqs, pend = [], []
    for i in range(n):
        if ctx.done(i):
            break
        ty = make_case(rng)
        try:
            built = model.Built(ty)
        except Exception as e:
            ctx.count('build_error')
            ctx.notes.setdefault('build_errors', []).append(repr(e)[:200])
            continue
        try:
            x = gen.gen_instance(rng, ty, built)
            if not ctx.begin_case(i):
                continue
            one_case(ctx, ty, built, x, reqs, pend)
        finally:
            built.close()
    # ---- directed family; each case has its own RNG (seed, family, j), so a replay regenerates just that case
    base = n
    jobs = []
    for fam, count in (('tagged-config', ctx.quick(500, 6000)), ('value-shapes', ctx.quick(500, 6000)), ('any-identifier', ctx.quick(400, 5000)),
                       ('text-charset', ctx.quick(700, 8000))):
        for j in range(count):
            idx = base + j
            if ctx.done(idx):
                break
            if ctx.only is not None and ctx.only != idx:
                continue
            crng = random.Random(f'C01:{ctx.seed}:{fam}:{j}')
            if fam == 'tagged-config':
                ty, pre = make_tagged_case(crng)
            elif fam == 'value-shapes':
                ty, pre = make_value_case(crng), []
            elif fam == 'text-charset':
                gen.TEXT = gen.any_text
                try:
                    ty, pre = make_text_case(crng), []
                finally:
                    gen.TEXT = None
            else:
                (ty, style), pre = make_ident_case(crng), []
            try:
                built = model.Built(ty)
            except Exception as e:
                ctx.count('build_error')
                ctx.notes.setdefault('build_errors', []).append(repr(e)[:200])
                continue
            try:
                pre_insts = [(n_, op, gen.gen_instance(crng, built.infos[n_], built)) for n_, op in pre]
                gen.TEXT = gen.any_text if fam == 'text-charset' else None
                try:
                    x = gen.gen_instance(crng, ty, built)
                finally:
                    gen.TEXT = None
                if not ctx.begin_case(idx):
                    continue
                one_case(ctx, ty, built, x, reqs, pend, pre=pre_insts, fam=fam)
                if fam == 'text-charset' and any(hasattr(built.root, m[1]) for m in FILE_MIXINS):
                    jobs.append((idx, j, {'ty': ty, 'inst': ascii(x)[:500]}))
            finally:
                built.close()
        base += count
    # the file round trips of the family text-charset once more, under every process setting that decides what open() means
    run_under_settings(ctx, jobs)
    if ctx.model_available:
        outs = ctx.driver.run(reqs)
        for (case, impl_out, built), o in zip(pend, outs):
            compare_load(ctx, 'load-of-dump', case, impl_out, o, built)


def one_case(ctx, ty, built, x, reqs, pend, pre=(), fam='roundtrip'):
    """all round trips of one (class model, history of stand-alone uses of nested classes `pre`, instance)"""
    from dataclass_wizard import asdict, fromdict
    case = {'ty': ty, 'inst': (ascii(x) if fam == 'text-charset' else repr(x))[:500]}
    src = dict(src=built.source)
    # ---- history: nested classes used on their own (as main classes) before the first use of the main class;
    # each such use is itself an instance of the property
    if pre:
        case['standalone_first'] = [[n_, op, repr(y)[:200]] for n_, op, y in pre]
    for n_, op, y in pre:
        try:
            d_y = asdict(y)
        except Exception as e:
            ctx.fail('roundtrip:standalone-first', case, f'asdict of the nested class {n_} on its own raised {e!r}', detail=src)
            continue
        if op == 'roundtrip':
            check_rt(ctx, 'roundtrip:standalone-first', case, load_outcome(lambda: fromdict(type(y), d_y)), y, src, _known_key(y))
    ctx.seen(fam, case)
    Cls = built.root
    try:
        d = asdict(x)
    except Exception as e:
        ctx.fail('roundtrip:dump', case, f'asdict raised {e!r}', detail=src)
        return
    key = _known_key(x)
    # -- fromdict(asdict(x))
    out = load_outcome(lambda: fromdict(Cls, d))
    check_rt(ctx, 'roundtrip:dict', case, out, x, src, key)
    # -- through JSON text
    try:
        jd = json.loads(json.dumps(d))
    except Exception:
        jd = None
    if jd is not None:
        out_j = load_outcome(lambda: fromdict(Cls, jd))
        check_rt(ctx, 'roundtrip:jsonified', case, out_j, x, src, key)
        # the class model of the driver is a tree: self-referential models are carried by the oracle alone; so are documents with
        # lone surrogates (the driver speaks UTF-8)
        if not model.contains_kind(ty, 'selfref') and not _SURROGATE.search(json.dumps(jd, ensure_ascii=False)):
            st = model.StdTables()
            st.add_json(jd)
            reqs.append({'op': 'load', 'ty': model.enc_ty(ty), 'doc': model.enc_j(jd), 'std': st.build()})
            pend.append((case, out_j, built))
    if hasattr(Cls, 'from_json'):
        out = load_outcome(lambda: Cls.from_json(x.to_json()))
        check_rt(ctx, 'roundtrip:json', case, out, x, src, key)
        out = load_outcome(lambda: Cls.from_list(json.loads(Cls.list_to_json([x, x]))))
        if out[0] == 'ok':
            ok = len(out[1]) == 2 and all(ref.same_typed(y, x) for y in out[1])
            if not ok and key is None:
                ctx.fail('roundtrip:list', case, f'from_list(list_to_json([x, x])) = {out[1]!r} != [x, x]', detail=src)
        elif key is None:
            ctx.fail('roundtrip:list', case, f'from_list(list_to_json([x, x])) raised {out[1]!r}', detail=src)
    text_formats(ctx, case, x, Cls, built, src, key)


import re
_SURROGATE = re.compile('[\ud800-\udfff]')


def _known_key(x):
    """known-finding attribution: does the instance contain a negative timedelta?"""
    import dataclasses
    import collections

    def walk(v):
        if isinstance(v, dt.timedelta):
            return v < dt.timedelta(0)
        if dataclasses.is_dataclass(v) and not isinstance(v, type):
            return any(walk(getattr(v, f.name)) for f in dataclasses.fields(v) if hasattr(v, f.name))
        if isinstance(v, dict):
            return any(walk(k) or walk(y) for k, y in v.items())
        if isinstance(v, (list, tuple, set, frozenset, collections.deque)):
            return any(walk(y) for y in v)
        return False
    return 'neg-timedelta' if walk(x) else None


def check_rt(ctx, kind, case, out, x, src, key):
    if out[0] == 'err':
        ctx.fail(kind, case, f'load of the dumped instance raised {type(out[1]).__name__}: {str(out[1])[:300]}', key=key, detail=src)
    elif not ref.same_typed(out[1], x):
        ctx.fail(kind, case, f'load(dump(x)) differs from x at {ref.first_diff(out[1], x)} (loaded vs original)'[:1500], key=key, detail=src)


def text_formats(ctx, case, x, Cls, built, src, key):
    """YAML / TOML / JSON-file mixins (the root class derives from the mixin): in memory and through files.

    A payload counts as carried by a format when the text the mixin wrote reads back (plain reader of the format) as the dumped
    document - then the load must give x back; and when the mixin's text does NOT read back as the document (or writing raised)
    although the format's standard writer and reader carry it, that is a failure of the round trip as well."""
    from dataclass_wizard import asdict
    d = asdict(x)
    try:
        jd = json.loads(json.dumps(d))
    except Exception:
        return
    ordered = model.contains_kind(built.root_ty, 'ordereddict')
    for fmt, attr in (('yaml', 'to_yaml'), ('toml', 'to_toml')):
        if not hasattr(Cls, attr):
            continue
        reader = _reader(fmt)
        txt, err = None, None
        try:
            txt = getattr(x, attr)()
            carriable = _same_doc(reader(txt), jd, ordered) and _fmt_can(fmt, jd)
        except Exception as e:
            carriable, err = False, e
        ctx.count(f'{fmt}_carriable' if carriable else f'{fmt}_not_carriable')
        if carriable:
            check_rt(ctx, f'roundtrip:{fmt}', case, load_outcome(lambda: getattr(Cls, 'from_' + fmt)(txt)), x, src, key)
        elif _plain_doc(d, jd) and ref_carries(fmt, jd, ordered):
            ctx.count(f'{fmt}_carriable_by_reference_only')
            ctx.fail(f'roundtrip:{fmt}', case, _not_carried_msg(fmt, attr, txt, err), key=key or _python_tags_key(fmt, d), detail=src)
    for kind, what, k2 in file_roundtrips(x, Cls, ordered, jd):
        ctx.fail(kind, case, what, key=key or k2, detail=src)


YAML_PLAIN_TYPES = (dict, list, str, int, float, bool, type(None))


def _python_tags_key(fmt, d):
    """known-finding attribution (findings/yaml-python-tags.py): the dict handed to yaml.dump holds a value whose type is not one
    of YAML's own (asdict keeps tuple, NamedTuple and OrderedDict objects); to_yaml writes a !!python/... tag for it, which from_yaml
    (safe_load) rejects. Only the failure 'the text written does not read back as the document' of such an instance is attributed."""
    def walk(v):
        if type(v) not in YAML_PLAIN_TYPES:
            return True
        if isinstance(v, dict):
            return any(walk(k) or walk(y) for k, y in v.items())
        if isinstance(v, list):
            return any(walk(y) for y in v)
        return False
    if fmt == 'toml':
        return 'toml-int-mixin-enum-member' if _holds(d, lambda v: isinstance(v, enum.Enum) and isinstance(v, int) and not isinstance(v, enum.IntEnum)) else None
    return 'yaml-python-tags' if fmt == 'yaml' and walk(d) else None


def _holds(d, pred):
    """known-finding attribution (findings/toml-int-mixin-enum-member.py): asdict leaves a member of an `(int, Enum)` mix-in as the
    member; tomli_w writes an int through str(), which for such a member is 'E.M' - not a TOML value"""
    if pred(d):
        return True
    if isinstance(d, dict):
        return any(_holds(y, pred) for y in d.values())
    if isinstance(d, (list, tuple)):
        return any(_holds(y, pred) for y in d)
    return False


def _not_carried_msg(fmt, attr, txt, err):
    if err is not None and txt is None:
        return f'{fmt.upper()} carries the dumped document (its standard writer and reader give it back) but {attr} raised {type(err).__name__}: {str(err)[:300]}'
    return (f'{fmt.upper()} carries the dumped document (its standard writer and reader give it back) but the text written by {attr} does not read back '
            f'as that document ({("reader raised " + type(err).__name__ + ": " + str(err)[:200]) if err is not None else "it reads as a different one"}); '
            f'text: {ascii(txt)[:400]}')


def _reader(fmt):
    if fmt == 'yaml':
        import yaml
        return yaml.safe_load
    if fmt == 'toml':
        import tomllib
        return tomllib.loads
    return json.loads


def _fmt_can(fmt, jd):
    """payload shapes kept out as before: NaN (never equal to itself); for TOML a top-level list under the key 'items'"""
    if _has_nan(jd):
        return False
    return not (fmt == 'toml' and isinstance(jd.get('items'), list))


def _plain_doc(d, jd):
    """is the dumped dict, with tuples read as lists and dict subclasses as dicts, the same document as its JSON form (all keys are
    texts already)? Only then is 'the format carries the JSON form' a statement about what the mixin was given to write."""
    def plain(v):
        if isinstance(v, dict):
            return {k: plain(y) for k, y in v.items()}
        if isinstance(v, (list, tuple)):
            return [plain(y) for y in v]
        return v
    try:
        return _same_doc(plain(d), jd, True)
    except Exception:
        return False


def ref_carries(fmt, jd, ordered=True, as_file=False):
    """can the format carry the document at all: its standard writer and reader (default settings) give it back; a file is bytes (UTF-8)"""
    try:
        if fmt == 'yaml':
            import yaml
            txt = yaml.safe_dump(jd)
        elif fmt == 'toml':
            import tomli_w
            txt = tomli_w.dumps(jd)
        else:
            txt = json.dumps(jd)
        if as_file:
            txt = txt.encode('utf-8').decode('utf-8')
        return _same_doc(_reader(fmt)(txt), jd, ordered) and _fmt_can(fmt, jd)
    except Exception:
        return False


FILE_MIXINS = [('json', 'to_json_file', 'from_json_file', '.json', 'r'), ('yaml', 'to_yaml_file', 'from_yaml_file', '.yaml', 'r'),
               ('toml', 'to_toml_file', 'from_toml_file', '.toml', 'rb')]


def file_roundtrips(x, Cls, ordered=None, jd=None):
    """from_<fmt>_file(path) after x.to_<fmt>_file(path) for every file mixin the class has; returns [[kind, what], ...] (no ctx: also
    run in child interpreters under other process settings). Same notion of 'carried' as in memory, applied to the file's bytes."""
    from dataclass_wizard import asdict
    out = []
    try:
        d = asdict(x)
        if jd is None:
            jd = json.loads(json.dumps(d))
    except Exception:
        return out
    if ordered is None:
        ordered = True
    for fmt, to_, from_, suffix, mode in FILE_MIXINS:
        if not (hasattr(Cls, to_) and hasattr(Cls, from_)):
            continue
        kind = f'roundtrip:{fmt}-file'
        fd, path = tempfile.mkstemp(suffix=suffix, prefix='dwverif')
        os.close(fd)
        try:
            by_ref = _plain_doc(d, jd) and ref_carries(fmt, jd, ordered, as_file=True)
            try:
                getattr(x, to_)(path)
                with open(path, 'rb') as f:
                    raw = f.read()
            except Exception as e:
                if by_ref:
                    out.append([kind, f'{fmt.upper()} carries the dumped document (standard writer / reader, UTF-8 bytes) but {to_} raised '
                                      f'{type(e).__name__}: {str(e)[:300]}', None])
                continue
            try:
                carried = _same_doc(_reader(fmt)(raw.decode('utf-8')), jd, ordered) and _fmt_can(fmt, jd)
            except Exception:
                carried = False
            if not (carried or by_ref or fmt == 'json'):
                continue
            res = load_outcome(lambda: getattr(Cls, from_)(path))
            k2 = None if carried else _python_tags_key(fmt, d)
            if res[0] == 'err':
                out.append([kind, f'{from_} of the file written by {to_} raised {type(res[1]).__name__}: {str(res[1])[:300]}; file: {ascii(raw)[:300]}', k2])
            elif not ref.same_typed(res[1], x):
                out.append([kind, (f'{from_}({to_}(x)) differs from x at {ref.first_diff(res[1], x)} (loaded vs original); file: {ascii(raw)[:300]}')[:1500], k2])
        finally:
            try:
                os.unlink(path)
            except OSError:
                pass
    return out


def _same_doc(a, b, ordered=True):
    """does the text carry the document - *including the order of keys* when an OrderedDict field depends on it (YAML's writer sorts
    keys, TOML writes scalar entries before tables); the order of keys means nothing to any other type"""
    try:
        if ordered:
            return a == b and json.dumps(a) == json.dumps(b)
        return a == b and json.dumps(a, sort_keys=True) == json.dumps(b, sort_keys=True)
    except Exception:
        return False


def _has_nan(v):
    if isinstance(v, float):
        return v != v
    if isinstance(v, dict):
        return any(_has_nan(x) for x in v.values())
    if isinstance(v, list):
        return any(_has_nan(x) for x in v)
    return False


if __name__ == '__main__':
    if '--file-roundtrips' in sys.argv[1:]:
        sys.exit(child_main())
