"""C12 — three more families of the Meta cascade of the default engine, each judged against TWIN classes (a class declaring the
documented effective Meta itself, living in a module of its own and only ever used on its own):

SHARED     one nested class N — Meta-less, or lightly configured (one setting / a tag of its own), or a Meta-less holder of a Union of
           tagged dataclasses — is nested by two or three roots with different Metas (recursive Meta / recursive=False / no Meta) and is
           also used on its own; a HISTORY of dumps and loads through the roots and of N alone runs in one process.  At every step the
           nested part must be what the twin for (N, that root) gives: each root sees ITS cascade, whatever ran before.  Observed only
           through settings whose effect the unchanged library keeps per (root, class) — skip_defaults / skip_if / skip_defaults_if on
           dump, raise_on_unknown_json_key on load, tag_key — with single-word field names, so the per-class key / hook caches of the
           recorded finding `shared-nested-config-leak` play no role (key transforms appear as fillers that leave such names alone).
OWN-UNION  a nested class H that HAS a Meta of its own setting only options unrelated to tags (or an empty Meta, or none) and declares a
           Union of dataclasses (direct, List[Union], Optional[Union], Dict[str, Union]) one or two levels below a root whose Meta sets
           tag_key and / or auto_assign_tags (recursive in {unset, True, False}): loads of documents tagged under several keys / values
           and a dump, in both orders, vs the twin.
LAZY       a holder H of a Union of dataclasses reached through a position the root's annotations do not lead to eagerly — a bare
           `list` / `dict`, `Any`, `List[Any]`, a field annotated with H's base class, or a named field under recursive_classes=True —
           below a root with auto_assign_tags / tag_key; the root is dumped before anything was loaded (and, in a part of the cases,
           dumped again or after a load of the root): the nested part must carry the tags the twin writes.

All three draw from generators of their own (derived from (property, seed)), so the case sequences of the older streams are untouched.
"""
from __future__ import annotations

import copy
import dataclasses
import json
import random

from harness import model, ref
from harness.model import T
from harness.props.c01 import load_outcome

RULE = ('SHARED FAMILY: one nested class (Meta-less / one setting / own tag / Meta-less holder of a Union of tagged dataclasses) nested by 2-3 roots '
        '(recursive Meta over {skip_defaults, skip_if, skip_defaults_if, raise_on_unknown_json_key, tag_key} + name-preserving key transforms / recursive=False '
        '/ no Meta; link direct, Optional, list, dict value, tuple, two levels) × history of 3-7 dumps / loads through the roots and of the class on its own: at '
        'every step the nested part equals what a twin class declaring the documented effective Meta for that root gives (and the root dump equals the '
        'reference encoding). OWN-UNION FAMILY: holder of Union / List[Union] / Optional[Union] / Dict[str, Union] of dataclasses with no Meta / an empty Meta / '
        'a Meta of unrelated settings, one or two levels below a root over {tag_key, auto_assign_tags} × recursive × members tagged or not × documents tagged '
        'under the effective / another key with the right / class-name / wrong tag × load-first / dump-first, vs the twin. LAZY FAMILY: such a holder reached '
        'through bare list / bare dict / Any / List[Any] / base-class annotation / recursive_classes=True / (control) its own annotation below a root with '
        'auto_assign_tags and / or tag_key, dumped first (also twice, or after a load of the root), vs the twin.')

SHARED_BASE = 1_000_000
OWNUNION_BASE = 1_100_000
LAZY_BASE = 1_200_000

# --------------------------------------------------------------------------- links root -> nested class

LINKS = ['direct', 'direct', 'optional', 'list', 'dictval', 'tuple', 'two-levels']


class Link:
    """how a root's field `child` reaches the nested class"""

    def __init__(self, shape, n, mid_meta=None, mid_wizard=False):
        self.shape = shape
        self.mid = None
        if shape == 'two-levels':
            self.mid = {'k': 'cls', 'info': {'name': model.fresh('Mid'), 'fields': [{'name': 'deep'}], 'wizard': mid_wizard, 'meta': mid_meta},
                        'ftys': [['deep', n]]}
        self.ty = {'direct': lambda: n, 'optional': lambda: T('optional', n), 'list': lambda: T('list', n),
                   'dictval': lambda: T('dict', T('str'), n), 'tuple': lambda: T('tuple', T('int'), n),
                   'two-levels': lambda: T('list', self.mid)}[shape]()

    def val(self, v, built):
        if self.shape == 'two-levels':
            return [built.get(self.mid['info']['name'])(deep=v)]
        return {'direct': v, 'optional': v, 'list': [v], 'dictval': {'k': v}, 'tuple': (1, v)}[self.shape]

    def doc(self, d):
        return {'direct': d, 'optional': d, 'list': [d], 'dictval': {'k': d}, 'tuple': [1, d], 'two-levels': [{'deep': d}]}[self.shape]

    def get(self, v):
        """the nested instance inside a loaded `child` value"""
        s = self.shape
        return v if s in ('direct', 'optional') else v[0] if s == 'list' else v['k'] if s == 'dictval' else v[1] if s == 'tuple' else v[0].deep

    def part(self, d):
        """the nested object inside a dumped `child` value"""
        s = self.shape
        return d if s in ('direct', 'optional') else d[0] if s == 'list' else d['k'] if s == 'dictval' else d[1] if s == 'tuple' else d[0]['deep']


def describe(v):
    """a loaded value in terms that do not mention modules: class names and field values"""
    if dataclasses.is_dataclass(v) and not isinstance(v, type):
        return [type(v).__name__, [[f.name, describe(getattr(v, f.name))] for f in dataclasses.fields(v)]]
    if isinstance(v, (list, tuple)):
        return [type(v).__name__] + [describe(x) for x in v]
    if isinstance(v, dict):
        return ['dict'] + [[k, describe(x)] for k, x in v.items()]
    return [type(v).__name__, repr(v)]


def outcome(out, get=lambda y: y):
    """what a load did to the nested part: the values, or the kind of rejection"""
    from dataclass_wizard.errors import UnknownKeysError, MissingFields
    if out[0] == 'ok':
        try:
            return ['ok', describe(get(out[1]))]
        except Exception as e:
            return ['ok?', repr(e)[:200]]
    e = out[1]
    if isinstance(e, UnknownKeysError):
        k = e.unknown_keys
        return ['err', 'UnknownKeysError', sorted([k] if isinstance(k, str) else list(k))]
    if isinstance(e, MissingFields):
        return ['err', 'MissingFields', sorted(e.missing_fields)]
    return ['err', type(e).__name__]


def twin_of(node, eff, rng, name=None):
    """the class `node` with another name and the documented effective Meta as its own; classes below it keep their names (the twin is built
    in a module of its own, because an auto-assigned tag is the member's __name__)"""
    tw = copy.deepcopy(node)
    # `recursive` of a nested class says nothing about how the class itself behaves below a root; on the twin (a main class) it would stop
    # the twin's own cascade to the members of its Union, which the root's cascade reaches
    eff = {k: v for k, v in eff.items() if k != 'recursive'}
    tw['info'].update(name=name or model.fresh('Twin'), wizard=rng.random() < 0.5, meta=eff or None)
    return tw


def effective(node, m_root):
    return ref.effective_meta(model.own_meta(node['info']), ref.root_config(m_root) if m_root else None)


# --------------------------------------------------------------------------- Union members and holders

UNION_SHAPES = ['direct', 'direct', 'list', 'optional', 'dictval']


def members(tagged, with_default=True):
    def member(prefix, fname, tag):
        fields = [{'name': fname}]
        ftys = [[fname, T('int')]]
        if with_default:
            fields.append({'name': 'r', 'dflt': ['lit', 0], 'factory': False})
            ftys.append(['r', T('int')])
        return {'k': 'cls', 'info': {'name': model.fresh(prefix), 'fields': fields, 'wizard': False, 'meta': {'tag': tag} if tagged else None}, 'ftys': ftys}
    return member('X', 'p', 'x'), member('Y', 'q', 'y')


def union_field_ty(ushape, X, Y):
    u = T('union', X, Y)
    return {'direct': u, 'list': T('list', u), 'optional': T('optional', u), 'dictval': T('dict', T('str'), u)}[ushape]


def union_wrap(ushape, vs):
    """a value / document of the Union field from one or two member values / documents"""
    return {'direct': vs[0], 'optional': vs[0], 'list': list(vs), 'dictval': {f'k{j}': v for j, v in enumerate(vs)}}[ushape]


def holder(name, ushape, X, Y, meta, wizard):
    fields = [{'name': 'u', 'dflt': ['lit', None], 'factory': False} if ushape == 'optional' else {'name': 'u'},
              {'name': 'num', 'dflt': ['lit', 0], 'factory': False}]
    return {'k': 'cls', 'info': {'name': name, 'fields': fields, 'wizard': wizard, 'meta': meta},
            'ftys': [['u', union_field_ty(ushape, X, Y)], ['num', T('int')]]}


def member_specs(rng, X, Y, ushape):
    """[(member node, field name, value, r)] for one value of the Union field"""
    k = 2 if ushape in ('list', 'dictval') else 1
    out = []
    for _ in range(k):
        m = rng.choice([X, Y])
        out.append((m['info']['name'], m['info']['fields'][0]['name'], rng.choice([1, 5]), rng.choice([0, 0, 4])))
    return out


def build_holder(built, hname, ushape, specs, num):
    vs = []
    for mname, fname, val, r in specs:
        M = built.get(mname)
        kw = {fname: val}
        if any(f.name == 'r' for f in dataclasses.fields(M)):
            kw['r'] = r
        vs.append(M(**kw))
    return built.get(hname)(u=union_wrap(ushape, vs), num=num)


# unrelated to tags, and without an observable effect on the members of the Union (single-word field names, no temporal fields; the
# members' documents never carry unknown keys): the twin cascades ITS Meta (= merge(own, root)) to the members, the root cascades the
# root's, so the family keeps to settings for which the two agree on the members
UNRELATED = {
    'raise_on_unknown_json_key': [True, False],
    'key_transform_with_load': ['SNAKE', 'NONE', 'CAMEL'],
    'key_transform_with_dump': ['SNAKE', 'NONE', 'LISP'],
    'marshal_date_time_as': ['ISO_FORMAT', 'TIMESTAMP'],
}


def pick_unrelated(rng, p=0.4):
    return {k: rng.choice(v) for k, v in UNRELATED.items() if rng.random() < p}


# --------------------------------------------------------------------------- SHARED

OBSERVED = {
    'skip_defaults': [True, True, False],
    'skip_if': [{'op': 'is', 'val': None}, {'op': '==', 'val': 0}],
    'skip_defaults_if': [{'op': '==', 'val': 0}, {'op': 'is', 'val': None}],
    'raise_on_unknown_json_key': [True, True, False],
    'tag_key': ['kind', 'type'],
}
# transforms that leave single-word lower-case names alone (see the module docstring)
FILLERS = {
    'key_transform_with_dump': ['SNAKE', 'NONE', 'LISP'],
    'key_transform_with_load': ['SNAKE', 'NONE', 'CAMEL'],
}
P_SET = {'skip_defaults': 0.4, 'skip_if': 0.35, 'skip_defaults_if': 0.15, 'raise_on_unknown_json_key': 0.45, 'tag_key': 0.45}


def pick_root_meta(rng):
    m = {k: rng.choice(v) for k, v in OBSERVED.items() if rng.random() < P_SET[k]}
    m.update({k: rng.choice(v) for k, v in FILLERS.items() if rng.random() < 0.25})
    return m


def plain_nested(name, meta, wizard):
    fields = [{'name': 'a'}, {'name': 'b', 'dflt': ['lit', None], 'factory': False}, {'name': 'c', 'dflt': ['lit', 0], 'factory': False},
              {'name': 'd', 'dflt': ['lit', 5], 'factory': False}]
    ftys = [['a', T('int')], ['b', T('optional', T('str'))], ['c', T('int')], ['d', T('int')]]
    return {'k': 'cls', 'info': {'name': name, 'fields': fields, 'wizard': wizard, 'meta': meta}, 'ftys': ftys}


def shared_case(rng):
    variant = rng.choice(['plain', 'plain', 'plain', 'tagged', 'holder', 'holder'])
    ushape = None
    if variant == 'holder':
        ushape = rng.choice(UNION_SHAPES)
        X, Y = members(True)
        n = holder(model.fresh('N'), ushape, X, Y, None, rng.random() < 0.4)
    else:
        m_n = None
        r = rng.random()
        if variant == 'tagged':
            m_n = {'tag': 'nt'}
            if r < 0.3:
                k = rng.choice(list(OBSERVED))
                m_n[k] = rng.choice(OBSERVED[k])
        elif r < 0.35:
            k = rng.choice(list(OBSERVED))
            m_n = {k: rng.choice(OBSERVED[k])}
        n = plain_nested(model.fresh('N'), m_n, rng.random() < 0.4)
        X = Y = None
    nroots = rng.choice([2, 2, 3])
    roots = []
    for k in range(nroots):
        kind = 'meta' if k == 0 else rng.choice(['meta', 'meta', 'meta', 'meta', 'isolated', 'plain'])
        m = None
        if kind != 'plain':
            for _ in range(6):
                m = pick_root_meta(rng)
                # the first root sets something observable; a later root differs from the first in what it sets
                if k == 0 and any(x in m and m[x] is not False for x in OBSERVED):
                    break
                if k > 0 and any(m.get(x) != roots[0]['m'].get(x) for x in OBSERVED):
                    break
            if kind == 'isolated':
                m['recursive'] = False
            elif rng.random() < 0.15:
                m['recursive'] = True
            if rng.random() < 0.15:
                m['tag'] = 'roottag'
        link = Link(rng.choice(LINKS), n)
        node = {'k': 'cls', 'info': {'name': model.fresh('R'), 'fields': [{'name': 'child'}], 'wizard': rng.random() < 0.5, 'meta': m},
                'ftys': [['child', link.ty]]}
        roots.append({'node': node, 'm': m, 'link': link, 'kind': kind})
    targets = list(range(nroots)) + ['alone']
    ops = []
    L = rng.randint(3, 6)
    for t in range(L):
        if t == 0:
            tgt = 0 if rng.random() < 0.8 else rng.choice(targets)
        else:
            tgt = rng.choice(targets + list(range(nroots)))
        kind = 'dump' if variant == 'holder' else rng.choice(['dump', 'load'])
        ops.append({'tgt': tgt, 'kind': kind})
    if len({repr(o['tgt']) for o in ops}) < 2:
        ops.append({'tgt': rng.choice([t for t in targets if t != ops[0]['tgt']]), 'kind': ops[0]['kind']})
    effs = {k: effective(n, roots[k]['m']) for k in range(nroots)}
    effs['alone'] = effective(n, None)
    for o in ops:
        eff = effs[o['tgt']]
        if o['kind'] == 'dump':
            if variant == 'holder':
                o['specs'] = member_specs(rng, X, Y, ushape)
                o['num'] = rng.choice([0, 3])
            else:
                o['vals'] = dict(a=rng.choice([0, 3]), b=rng.choice([None, 'x']), c=rng.choice([0, 0, 4]), d=rng.choice([5, 5, 0]))
        else:
            part = {'a': rng.choice([1, 7])}
            if rng.random() < 0.6:
                part['b'] = rng.choice(['x', None])
            if rng.random() < 0.6:
                part['c'] = rng.choice([0, 4])
            if rng.random() < 0.45:
                part['zzz'] = 1
            # the tag key of THIS target's cascade only: a tag key seen under another root stays in the class's key table (per-class
            # key caches, recorded finding shared-nested-config-leak)
            if eff.get('tag') and rng.random() < 0.5:
                part[eff.get('tag_key') or '__tag__'] = eff['tag']
            if rng.random() < 0.1:
                del part['a']
            o['part'] = part
    twins = {k: twin_of(n, effs[k], rng) for k in effs}
    return dict(variant=variant, ushape=ushape, n=n, roots=roots, ops=ops, effs=effs, twins=twins)


def run_shared(ctx):
    from dataclass_wizard import fromdict, asdict
    rng = random.Random(f'{ctx.prop_id}:{ctx.seed}:shared')
    n = ctx.quick(150, 2000)
    for j in range(n):
        i = SHARED_BASE + j
        if ctx.done(i):
            break
        cs = shared_case(rng)
        roots, nnode = cs['roots'], cs['n']
        builts = []
        try:
            built = model.Built(T('tuple', *[r['node'] for r in roots]))
            builts.append(built)
            tb = {}
            for k, tw in cs['twins'].items():
                tb[k] = model.Built(tw)
                builts.append(tb[k])
        except Exception as e:
            ctx.count('build_error')
            ctx.notes.setdefault('build_errors', []).append(repr(e)[:300])
            for b in builts:
                b.close()
            continue
        try:
            if not ctx.begin_case(i):
                continue
            hist = [(o['kind'], 'N alone' if o['tgt'] == 'alone' else f"root {o['tgt']} ({roots[o['tgt']]['kind']})") for o in cs['ops']]
            case = {'family': 'shared', 'variant': cs['variant'], 'union_shape': cs['ushape'], 'ty': T('tuple', *[r['node'] for r in roots]),
                    'links': [r['link'].shape for r in roots], 'history': hist, 'root_metas': [r['m'] for r in roots]}
            ctx.seen('cascade:shared:' + cs['variant'], case)
            src = dict(src=built.source + '\n# ---- twins (each in a module of its own): ' +
                       ', '.join(f"{tw['info']['name']} = {nnode['info']['name']} under {k} with own Meta {tw['info']['meta']!r}" for k, tw in cs['twins'].items()))
            nname = nnode['info']['name']
            for step, o in enumerate(cs['ops']):
                tgt = o['tgt']
                twb = tb[tgt]
                where = 'on its own' if tgt == 'alone' else f"below root {roots[tgt]['node']['info']['name']} (Meta {roots[tgt]['m']!r})"
                ctx.count(f"shared:{o['kind']}:{'alone' if tgt == 'alone' else roots[tgt]['kind']}")
                if o['kind'] == 'dump':
                    if cs['variant'] == 'holder':
                        nv = build_holder(built, nname, cs['ushape'], o['specs'], o['num'])
                        tv = build_holder(twb, cs['twins'][tgt]['info']['name'], cs['ushape'], o['specs'], o['num'])
                    else:
                        nv = built.get(nname)(**o['vals'])
                        tv = twb.root(**o['vals'])
                    try:
                        want = asdict(tv)
                    except Exception as e:
                        ctx.count('shared:twin-dump-raised')
                        src['src'] += f'\n# step {step}: the twin raised {e!r}'
                        continue
                    try:
                        if tgt == 'alone':
                            src['src'] += f'\nasdict({nv!r})'
                            got = asdict(nv)
                        else:
                            r = roots[tgt]
                            x = built.get(r['node']['info']['name'])(child=r['link'].val(nv, built))
                            src['src'] += f'\nasdict({x!r})'
                            d = asdict(x)
                            got = r['link'].part(d['child'])
                            exp = ref.RefEncoder(built.infos).enc_inst(x, None, None, None, top=True)
                            if not ref.same_typed(d, exp):
                                ctx.fail('cascade:shared:dump', case, f'step {step} of {hist}: the root dumped as {d!r}, the documented effective Metas give {exp!r}'[:1200],
                                         detail=src)
                    except Exception as e:
                        ctx.fail('cascade:shared:dump', case, f'step {step} of {hist}: asdict {where} raised {e!r}'[:1000], detail=src)
                        continue
                    if not ref.same_typed(got, want):
                        ctx.fail('cascade:shared:dump', case, f'step {step} of {hist}: the nested class {where} is dumped as {got!r}; a class declaring the documented '
                                 f'effective Meta {cs["effs"][tgt]!r} itself gives {want!r}'[:1200], detail=src)
                else:
                    part = o['part']
                    want = outcome(load_outcome(lambda: fromdict(twb.root, copy.deepcopy(part))))
                    if tgt == 'alone':
                        src['src'] += f'\nfromdict({nname}, {part!r})'
                        got = outcome(load_outcome(lambda: fromdict(built.get(nname), copy.deepcopy(part))))
                    else:
                        r = roots[tgt]
                        doc = json.loads(json.dumps({'child': r['link'].doc(part)}))
                        src['src'] += f"\nfromdict({r['node']['info']['name']}, {doc!r})"
                        got = outcome(load_outcome(lambda: fromdict(built.get(r['node']['info']['name']), doc)), lambda y: r['link'].get(y.child))
                    # class names differ between N and its twin
                    gs, ws = json.dumps(got).replace(nname, '<N>'), json.dumps(want).replace(cs['twins'][tgt]['info']['name'], '<N>')
                    ctx.count('shared:load:' + want[0])
                    if gs != ws:
                        ctx.fail('cascade:shared:load', case, f'step {step} of {hist}: the nested part {part!r} loaded {where} gives {got!r}; a class declaring the '
                                 f'documented effective Meta {cs["effs"][tgt]!r} itself gives {want!r}'[:1200], detail=src)
        finally:
            for b in builts:
                b.close()


# --------------------------------------------------------------------------- OWN-UNION

def pick_tag_meta(rng, p_key=0.6, p_auto=0.6):
    m = {}
    if rng.random() < p_key:
        m['tag_key'] = rng.choice(['type', 'kind'])
    if rng.random() < p_auto:
        m['auto_assign_tags'] = True
    return m


def union_docs(rng, X, Y, ushape, eff, tagged, k=3):
    """documents for the holder: members tagged under the effective tag key (mostly) or another one, with the tag the effective settings assign
    (mostly), the class name, or a wrong one"""
    eff_key = eff.get('tag_key') or '__tag__'
    docs = []
    for _ in range(k):
        uds = []
        for _m in range(2 if ushape in ('list', 'dictval') else 1):
            mem = rng.choice([X, Y])
            ud = {mem['info']['fields'][0]['name']: rng.choice([1, 5])}
            tk = eff_key if rng.random() < 0.8 else rng.choice(['__tag__', 'type', 'kind', None])
            if tk is not None:
                right = mem['info']['meta']['tag'] if tagged else mem['info']['name']
                tv = right if rng.random() < 0.85 else rng.choice([mem['info']['name'], 'nope'])
                ud = dict([(tk, tv)] + list(ud.items())) if rng.random() < 0.5 else dict(list(ud.items()) + [(tk, tv)])
            uds.append(ud)
        hd = {'u': union_wrap(ushape, uds), 'num': rng.choice([0, 3])}
        if ushape == 'optional' and rng.random() < 0.15:
            hd['u'] = None
        if rng.random() < 0.2:
            hd['zzz'] = 1
        docs.append(hd)
    return docs


def ownunion_case(rng):
    tagged = rng.random() < 0.5
    ushape = rng.choice(UNION_SHAPES)
    X, Y = members(tagged, with_default=False)
    if rng.random() < 0.5:
        X, Y = Y, X
    # H never sets tag_key / auto_assign_tags itself: that is the recorded finding `nested-own-union-settings-ignored`
    # (findings/nested-own-union-settings-ignored.py keeps it under observation)
    r = rng.random()
    m_h = None if r < 0.2 else {} if r < 0.3 else pick_unrelated(rng, 0.45)
    if m_h is not None and rng.random() < 0.15:
        m_h['recursive'] = rng.choice([True, False])
    h = holder(model.fresh('H'), ushape, X, Y, m_h, rng.random() < 0.5)
    m_r = {}
    while not m_r:
        m_r = pick_tag_meta(rng)
    m_r.update(pick_unrelated(rng, 0.2))
    recursive = rng.choice([None, None, None, True, False])
    if recursive is not None:
        m_r['recursive'] = recursive
    if rng.random() < 0.15:
        m_r['tag'] = 'roottag'
    shape = rng.choice(LINKS)
    m_mid = dict(pick_tag_meta(rng, 0.5, 0.3)) if rng.random() < 0.4 else None          # an intermediate class's settings never reach H
    link = Link(shape, h, m_mid, rng.random() < 0.5)
    root = {'k': 'cls', 'info': {'name': model.fresh('R'), 'fields': [{'name': 'child'}], 'wizard': rng.random() < 0.5, 'meta': m_r},
            'ftys': [['child', link.ty]]}
    eff = effective(h, m_r)
    twin = twin_of(h, eff, rng, model.fresh('W'))
    docs = union_docs(rng, X, Y, ushape, eff, tagged)
    specs, num = member_specs(rng, X, Y, ushape), rng.choice([0, 3])
    order = rng.choice(['load-first', 'load-first', 'dump-first'])
    return dict(h=h, root=root, link=link, eff=eff, twin=twin, docs=docs, specs=specs, num=num, order=order, ushape=ushape, tagged=tagged, m_r=m_r, m_h=m_h)


def run_ownunion(ctx):
    from dataclass_wizard import fromdict, asdict
    rng = random.Random(f'{ctx.prop_id}:{ctx.seed}:own-union')
    n = ctx.quick(160, 2000)
    for j in range(n):
        i = OWNUNION_BASE + j
        if ctx.done(i):
            break
        cs = ownunion_case(rng)
        root, h, link = cs['root'], cs['h'], cs['link']
        try:
            built = model.Built(root)
        except Exception as e:
            ctx.count('build_error')
            ctx.notes.setdefault('build_errors', []).append(repr(e)[:300])
            continue
        try:
            built_t = model.Built(cs['twin'])
        except Exception as e:
            built.close()
            ctx.count('build_error')
            ctx.notes.setdefault('build_errors', []).append(repr(e)[:300])
            continue
        try:
            if not ctx.begin_case(i):
                continue
            hname, wname = h['info']['name'], cs['twin']['info']['name']
            case = {'family': 'own-union', 'ty': root, 'link': link.shape, 'union_shape': cs['ushape'], 'members_tagged': cs['tagged'], 'own_meta': cs['m_h'],
                    'effective': cs['eff'], 'order': cs['order'], 'twin': wname}
            ctx.seen('cascade:own-union:' + ('own-meta' if cs['m_h'] is not None else 'no-meta'), case)
            src = dict(src=built.source + '\n# ---- twin (module of its own)\n' + built_t.source.replace(model.PRELUDE, ''))

            def do_dump():
                hv = build_holder(built, hname, cs['ushape'], cs['specs'], cs['num'])
                wv = build_holder(built_t, wname, cs['ushape'], cs['specs'], cs['num'])
                x = built.root(child=link.val(hv, built))
                src['src'] += f'\nasdict({x!r})'
                try:
                    want = asdict(wv)
                except Exception:
                    ctx.count('own-union:twin-dump-raised')
                    return
                try:
                    got = link.part(asdict(x)['child'])
                except Exception as e:
                    ctx.fail('cascade:own-union:dump', case, f'asdict of the root raised {e!r}; the twin gives {want!r}'[:1000], detail=src)
                    return
                if not ref.same_typed(got, want):
                    ctx.fail('cascade:own-union:dump', case, f'the nested class with the Union field (own Meta {cs["m_h"]!r}) below the root (Meta {cs["m_r"]!r}) is dumped as '
                             f'{got!r}; a class declaring the documented effective Meta {cs["eff"]!r} itself gives {want!r}'[:1200], detail=src)

            def do_loads():
                for hd in cs['docs']:
                    doc = json.loads(json.dumps({'child': link.doc(hd)}))
                    src['src'] += f"\nfromdict({root['info']['name']}, {doc!r})"
                    want = outcome(load_outcome(lambda: fromdict(built_t.root, copy.deepcopy(hd))))
                    got = outcome(load_outcome(lambda: fromdict(built.root, doc)), lambda y: link.get(y.child))
                    ctx.count('own-union:load:' + want[0])
                    if json.dumps(got).replace(hname, '<H>') != json.dumps(want).replace(wname, '<H>'):
                        ctx.fail('cascade:own-union:load', case, f'the nested class with the Union field (own Meta {cs["m_h"]!r}), given {hd!r}, behaves as {got!r} below '
                                 f'the root (Meta {cs["m_r"]!r}); a class declaring the documented effective Meta {cs["eff"]!r} itself behaves as {want!r}'[:1200], detail=src)

            for step in (do_dump, do_loads) if cs['order'] == 'dump-first' else (do_loads, do_dump):
                step()
        finally:
            built.close()
            built_t.close()


# --------------------------------------------------------------------------- LAZY

REACHES = ['bare-list', 'bare-dict', 'any', 'list-any', 'base', 'recursive-classes', 'recursive-classes', 'eager']


def meta_bind_src(meta, cls_name, style):
    """source binding `meta` to an already defined class: DumpMeta(...) or a BaseJSONWizardMeta subclass"""
    items = ', '.join(f'{k}={v}' for k, v in model.meta_items(meta))
    if style == 'dumpmeta':
        return f'DumpMeta({items}).bind_to({cls_name})\n'
    return f'type("Meta", (BaseJSONWizardMeta,), dict(__slots__=(), {items})).bind_to({cls_name})\n'


def inner_meta_src(meta):
    items = model.meta_items(meta)
    return '    class _(JSONWizard.Meta):\n' + ''.join(f'        {k} = {v}\n' for k, v in items) + ('' if items else '        pass\n')


def lazy_case(rng):
    tagged = rng.random() < 0.3
    ushape = rng.choice(UNION_SHAPES)
    X, Y = members(tagged)
    reach = rng.choice(REACHES)
    m_h = None if rng.random() < 0.6 else pick_unrelated(rng, 0.45)
    hname, rname, bname, wname = model.fresh('H'), model.fresh('R'), model.fresh('B'), model.fresh('W')
    m_r = {'auto_assign_tags': True} if (not tagged or rng.random() < 0.5) else {}
    if rng.random() < (0.6 if m_r else 1.0):
        m_r['tag_key'] = rng.choice(['type', 'kind'])
    m_r.update(pick_unrelated(rng, 0.2))
    r = rng.random()
    if r < 0.12:
        m_r['recursive'] = False
    elif r < 0.3:
        m_r['recursive'] = True
    if reach == 'recursive-classes':
        m_r['recursive_classes'] = True
        # unchanged-code defect, kept out (scratch findings/selfref-recursive-false-auto-tags-dump.py): with recursive=False the
        # recursion-safe parser is not used (recursive_classes is read from the cascaded config), and the dump side of a self-referential
        # main class with auto_assign_tags, which builds the load parsers, ends in a raw RecursionError
        m_r.pop('recursive', None) if m_r.get('recursive') is False else None
    style = rng.choice(['inner', 'dumpmeta', 'basemeta'])
    hstyle = rng.choice(['inner', 'basemeta'])
    defs = {}
    uann = model.ty_src(union_field_ty(ushape, X, Y), defs)
    member_src = '\n'.join(s for s in defs.values() if s)

    def holder_src(name, meta, hstyle, base=None, flat_base=False):
        s = '@dataclass\nclass ' + name + ('(' + ', '.join(([base] if base else []) + (['JSONWizard'] if meta is not None and hstyle == 'inner' else [])) + ')'
                                           if base or (meta is not None and hstyle == 'inner') else '') + ':\n'
        if meta is not None and hstyle == 'inner':
            s += inner_meta_src(meta)
        if flat_base:
            s += '    w: int = 0\n'
        s += f'    u: {uann}' + (' = None' if ushape == 'optional' or base or flat_base else '') + '\n    num: int = 0\n'
        if meta is not None and hstyle != 'inner':
            s += meta_bind_src(meta, name, 'basemeta')
        return s

    ann, extra = {'bare-list': ('list', ''), 'bare-dict': ('dict', ''), 'any': ('Any', ''), 'list-any': ('List[Any]', ''), 'base': (bname, ''),
                  'recursive-classes': (hname, f"    again: Optional['{rname}'] = None\n"), 'eager': (hname, '')}[reach]
    src = member_src + '\n'
    if reach == 'base':
        src += f'@dataclass\nclass {bname}:\n    w: int = 0\n'
    src += holder_src(hname, m_h, hstyle, base=bname if reach == 'base' else None)
    src += '@dataclass\nclass ' + rname + ('(JSONWizard)' if style == 'inner' else '') + ':\n'
    if style == 'inner':
        src += inner_meta_src(m_r)
    src += f'    child: {ann}\n' + extra
    if style != 'inner':
        src += meta_bind_src(m_r, rname, style)
    eff = ref.effective_meta(m_h, ref.root_config(m_r))
    eff.pop('recursive_classes', None)
    twin_src = member_src + '\n' + holder_src(wname, eff or None, rng.choice(['inner', 'basemeta']), flat_base=reach == 'base')
    specs, num = member_specs(rng, X, Y, ushape), rng.choice([0, 3])
    history = rng.choice(['dump', 'dump', 'dump', 'dump-dump', 'load-dump'])
    tk = eff.get('tag_key') or '__tag__'
    load_doc = {'u': union_wrap(ushape, [{tk: (X if mname == X['info']['name'] else Y)['info']['meta']['tag'] if tagged else mname, fname: val}
                                         for mname, fname, val, _r in specs]), 'num': num}
    return dict(reach=reach, ushape=ushape, tagged=tagged, m_r=m_r, m_h=m_h, eff=eff, src=src, twin_src=twin_src, hname=hname, rname=rname, wname=wname,
                specs=specs, num=num, history=history, style=style, load_doc=load_doc)


class SrcBuilt:
    """classes from source text in a registered module (same conventions as model.Built)"""

    def __init__(self, body):
        import sys
        import types
        self.source = model.PRELUDE + '\n' + body
        self.modname = model.fresh('dwv_mod_')
        self.mod = types.ModuleType(self.modname)
        sys.modules[self.modname] = self.mod
        try:
            exec(compile(self.source, f'<{self.modname}>', 'exec', dont_inherit=True), self.mod.__dict__)
        except Exception:
            self.close()
            raise

    def get(self, name):
        return getattr(self.mod, name)

    def close(self):
        import sys
        sys.modules.pop(self.modname, None)


def run_lazy(ctx):
    from dataclass_wizard import fromdict, asdict
    rng = random.Random(f'{ctx.prop_id}:{ctx.seed}:lazy')
    n = ctx.quick(120, 1500)
    for j in range(n):
        i = LAZY_BASE + j
        if ctx.done(i):
            break
        cs = lazy_case(rng)
        try:
            built = SrcBuilt(cs['src'])
        except Exception as e:
            ctx.count('build_error')
            ctx.notes.setdefault('build_errors', []).append(repr(e)[:300])
            continue
        try:
            built_t = SrcBuilt(cs['twin_src'])
        except Exception as e:
            built.close()
            ctx.count('build_error')
            ctx.notes.setdefault('build_errors', []).append(repr(e)[:300])
            continue
        try:
            if not ctx.begin_case(i):
                continue
            reach = cs['reach']
            case = {'family': 'lazy', 'reach': reach, 'union_shape': cs['ushape'], 'members_tagged': cs['tagged'], 'root_meta': cs['m_r'], 'own_meta': cs['m_h'],
                    'effective': cs['eff'], 'history': cs['history'], 'binding': cs['style'], 'source': cs['src']}
            ctx.seen('cascade:lazy:' + reach, case)
            src = dict(src=built.source + '\n# ---- twin (module of its own)\n' + cs['twin_src'])
            R = built.get(cs['rname'])
            hv = build_holder(built, cs['hname'], cs['ushape'], cs['specs'], cs['num'])
            wv = build_holder(built_t, cs['wname'], cs['ushape'], cs['specs'], cs['num'])
            val = {'bare-list': [hv], 'list-any': [hv], 'bare-dict': {'k': hv}}.get(reach, hv)
            x = R(child=val)
            if cs['history'] == 'load-dump':
                # a load of the root that does not construct the holder where the annotation does not name it
                # (where it does — own annotation, recursive_classes — the load goes through the holder and assigns the tags itself; the
                # outcome of the load is not judged here, the dump after it is)
                doc = {'child': {'bare-list': [], 'list-any': [1], 'bare-dict': {}, 'any': None, 'base': {'w': 1}}.get(reach, cs['load_doc'])}
                out = load_outcome(lambda: fromdict(R, doc))
                ctx.count('lazy:load-first:' + out[0])
                src['src'] += f"\nfromdict({cs['rname']}, {doc!r})   # {out[0]}"
            try:
                want = asdict(wv)
            except Exception:
                ctx.count('lazy:twin-dump-raised')
                continue
            for rep in range(2 if cs['history'] == 'dump-dump' else 1):
                src['src'] += f'\nasdict({x!r})'
                try:
                    d = asdict(x)
                    got = d['child']
                    got = got[0] if reach in ('bare-list', 'list-any') else got['k'] if reach == 'bare-dict' else got
                except Exception as e:
                    ctx.fail('cascade:lazy:dump', case, f'asdict of the root raised {e!r}; the twin gives {want!r}'[:1000], detail=src)
                    break
                if reach == 'base':
                    got = dict(got)
                ctx.count('lazy:tags-expected' if cs['eff'].get('auto_assign_tags') or cs['tagged'] else 'lazy:no-tags-expected')
                if not ref.same_typed(got, want):
                    ctx.fail('cascade:lazy:dump', case, f'the holder of the Union (own Meta {cs["m_h"]!r}) reached through a `{reach}` position below the root (Meta '
                             f'{cs["m_r"]!r}) is dumped as {got!r}; a class declaring the documented effective Meta {cs["eff"]!r} itself gives {want!r}'[:1200], detail=src)
                    break
        finally:
            built.close()
            built_t.close()


def run_all(ctx):
    run_shared(ctx)
    run_ownunion(ctx)
    run_lazy(ctx)


# --------------------------------------------------------------------------- SHARED, v1 engine (runs in the v1 stream of c12.py)

V1_SHARED_BASE = 1_000_000          # added to v1streams.OFFSET

RULE_V1 = ('SHARED FAMILY (v1): one nested class (Meta-less, or own Meta {v1} / {v1, v1_on_unknown_key}) nested by 2-3 roots — v1 Meta over '
           '{v1_on_unknown_key in unset, RAISE, IGNORE} + name-preserving v1_key_case / the same with recursive=False / no Meta at all — × history of 3-7 '
           'loads through the roots and of the class on its own, documents with / without an unknown key: at every step the nested part behaves like a '
           'twin class declaring the documented effective settings for that root.')


def shared_v1_case(rng, nm):
    from harness.props import v1streams
    r = rng.random()
    m_n = None if r < 0.6 else {'v1': True} if r < 0.75 else {'v1': True, 'v1_on_unknown_key': rng.choice(['RAISE', 'IGNORE'])}
    n = plain_nested(nm('N'), m_n, rng.random() < 0.4)
    nroots = rng.choice([2, 2, 3])
    roots = []
    for k in range(nroots):
        kind = 'meta' if k == 0 else rng.choice(['meta', 'meta', 'meta', 'isolated', 'plain'])
        if kind == 'plain' and m_n is not None:
            # a root without any Meta is loaded by the default engine, which does not read the v1 settings of a nested class: mixing the
            # engines is outside what the cascade is documented for
            kind = 'isolated'
        m = None
        if kind != 'plain':
            m = {'v1': True}
            for _ in range(6):
                pol = rng.choice(['RAISE', 'RAISE', 'IGNORE', None])
                if (k == 0 and pol == 'RAISE') or (k > 0 and pol != roots[0]['m'].get('v1_on_unknown_key')) or rng.random() < 0.2:
                    break
            if pol is not None:
                m['v1_on_unknown_key'] = pol
            # single-word lower-case names read the same under each of these
            if rng.random() < 0.3:
                m['v1_key_case'] = rng.choice(['SNAKE', 'AUTO', 'CAMEL'])
            if kind == 'isolated':
                m['recursive'] = False
        link = Link(rng.choice(LINKS[:-1]), n)
        node = {'k': 'cls', 'info': {'name': nm('R'), 'fields': [{'name': 'child'}], 'wizard': rng.random() < 0.5, 'meta': m}, 'ftys': [['child', link.ty]]}
        roots.append({'node': node, 'm': m, 'link': link, 'kind': kind})
    targets = list(range(nroots)) + ['alone']
    ops = []
    for t in range(rng.randint(3, 6)):
        tgt = (0 if rng.random() < 0.8 else rng.choice(targets)) if t == 0 else rng.choice(targets + list(range(nroots)))
        ops.append({'tgt': tgt})
    if len({repr(o['tgt']) for o in ops}) < 2:
        ops.append({'tgt': rng.choice([t for t in targets if t != ops[0]['tgt']])})
    for o in ops:
        part = {'a': rng.choice([1, 7])}
        if rng.random() < 0.6:
            part['b'] = rng.choice(['x', None])
        if rng.random() < 0.6:
            part['c'] = rng.choice([0, 4])
        if rng.random() < 0.55:
            part['zzz'] = 1
        if rng.random() < 0.08:
            del part['a']
        o['part'] = part
    effs = {k: v1streams.effective(m_n, roots[k]['m']) for k in range(nroots)}
    effs['alone'] = v1streams.effective(m_n, None)
    twins = {}
    for k, eff in effs.items():
        tw = copy.deepcopy(n)
        tw['info'].update(name=nm('T'), wizard=rng.random() < 0.5, meta={x: y for x, y in eff.items() if x != 'recursive'} or None)
        twins[k] = tw
    return dict(n=n, roots=roots, ops=ops, effs=effs, twins=twins)


def run_shared_v1(ctx, rng):
    from dataclass_wizard import fromdict
    from harness.props import v1streams
    n = ctx.quick(100, 1500)
    for j in range(n):
        i = v1streams.OFFSET + V1_SHARED_BASE + j
        if ctx.done(i):
            break
        cs = shared_v1_case(rng, v1streams.Namer(V1_SHARED_BASE + j))
        roots, nnode = cs['roots'], cs['n']
        builts = []
        try:
            built = model.Built(T('tuple', *[r['node'] for r in roots]))
            builts.append(built)
            tb = {}
            for k, tw in cs['twins'].items():
                tb[k] = model.Built(tw)
                builts.append(tb[k])
        except Exception as e:
            ctx.count('build_error')
            ctx.notes.setdefault('build_errors', []).append(repr(e)[:300])
            for b in builts:
                b.close()
            continue
        try:
            if not ctx.begin_case(i):
                continue
            hist = ['N alone' if o['tgt'] == 'alone' else f"root {o['tgt']} ({roots[o['tgt']]['kind']})" for o in cs['ops']]
            case = {'family': 'shared-v1', 'engine': 'v1', 'ty': T('tuple', *[r['node'] for r in roots]), 'links': [r['link'].shape for r in roots],
                    'history': hist, 'root_metas': [r['m'] for r in roots], 'docs': [o['part'] for o in cs['ops']]}
            ctx.seen('cascade:v1:shared', case)
            src = dict(src=built.source + '\n# ---- twins (each in a module of its own): ' +
                       ', '.join(f"{tw['info']['name']} = {nnode['info']['name']} under {k} with own Meta {tw['info']['meta']!r}" for k, tw in cs['twins'].items()))
            nname = nnode['info']['name']
            for step, o in enumerate(cs['ops']):
                tgt, part = o['tgt'], o['part']
                want = outcome(load_outcome(lambda: fromdict(tb[tgt].root, copy.deepcopy(part))))
                if tgt == 'alone':
                    where = 'on its own'
                    src['src'] += f'\nfromdict({nname}, {part!r})'
                    got = outcome(load_outcome(lambda: fromdict(built.get(nname), copy.deepcopy(part))))
                else:
                    r = roots[tgt]
                    where = f"below root {r['node']['info']['name']} (Meta {r['m']!r})"
                    doc = json.loads(json.dumps({'child': r['link'].doc(part)}))
                    src['src'] += f"\nfromdict({r['node']['info']['name']}, {doc!r})"
                    got = outcome(load_outcome(lambda: fromdict(built.get(r['node']['info']['name']), doc)), lambda y: r['link'].get(y.child))
                ctx.count(f"v1:shared:{'alone' if tgt == 'alone' else roots[tgt]['kind']}:{want[0]}")
                if json.dumps(got).replace(nname, '<N>') != json.dumps(want).replace(cs['twins'][tgt]['info']['name'], '<N>'):
                    ctx.fail('cascade:v1:shared', case, f'step {step} of {hist}: the nested part {part!r} loaded {where} gives {got!r}; a class declaring the documented '
                             f'effective settings {cs["effs"][tgt]!r} itself gives {want!r}'[:1200], detail=src)
        finally:
            for b in builts:
                b.close()
