"""C11 / C10 / C13: what the generated `cls_asdict` DOES, against the Lean interpreter of the generator model.

`DW/Model/GenDumpSem.lean` interprets the statement forms the generator model writes (theorem C11_generated_code_selects is about
that interpreter).  This stream ties the interpreter to the running code: seeded classes over everything the dump generator looks
at (the generator of harness/props/c15_gendump.py, restricted to comparison values the value model carries: None / bool / int /
str), instances with None / bool / int / str field values and mapping catch-all values, every call form (exclude given or not,
skip_defaults on / off / left to the signature default).  The real `asdict` result is compared with the result rebuilt from the
interpreter's emissions (entries in order, catch-all items, path entries, tag), a comparison that raises TypeError with the
interpreter's `raised`; `stuck` (a statement form the interpreter does not know) is always a disagreement.  The generated text is
compared with the model's text first (as in C15), so the interpreter runs on the code the library really generated.
"""
from __future__ import annotations

import dataclasses
import random

from .. import common as C, gencap
from . import c15_gendump as G

BASE = 700_000_000
FIXED = {'config', 'asdict', 'hooks', 'cls_to_asdict', 'NestedDict', '__pre_dict__', '__dataclass_cls_asdict_return_type__'}


class Unsupported(Exception):
    pass


def lit(v):
    if v is None or type(v) in (bool, int, str):
        return v
    raise Unsupported(type(v).__name__)


def closure_json(values):
    out = []
    for name, v in values.items():
        if name in FIXED:
            continue
        if name.startswith('_default_'):
            if type(v) is dict and not v:
                out.append({'name': name, 'kind': 'emptyDict'})
            elif type(v) is list and not v:
                out.append({'name': name, 'kind': 'emptyList'})
            elif callable(v) and v is dict:      # a default_factory is called by dataclasses, the table holds its product
                out.append({'name': name, 'kind': 'emptyDict'})
            else:
                out.append({'name': name, 'kind': 'dflt', 'v': lit(v)})
        else:
            out.append({'name': name, 'kind': 'lit', 'v': lit(v)})
    return out


def supported(case):
    conds = [case['gin'].get('skipIf'), case['gin'].get('skipDefaultsIf')] + [g.get('skipIf') for g in case['gin']['fields']]
    # identity against ints / strs is CPython's object identity (small-int cache, interning): outside the value model, whose
    # `is` is defined for the singletons None / True / False only (DW/Model/Dump.lean, pyIsLit)
    return all(c is None or (c['kind'] in ('none', 'true', 'false', 'int', 'str')
                             and not (c['op'] in ('is', 'is not') and c['kind'] in ('int', 'str'))) for c in conds)


VALS = [0, 1, 5, -3, None, 'd', '', True, False, 2 ** 70]


def make_instances(cls, case, rng):
    from dataclass_wizard import CatchAll
    out = []
    for _ in range(4):
        kw = {}
        for name, tp, fld in case['specs']:
            if tp is CatchAll:
                choices = [{}, {'u1': 1, 'u2': 'x'}, {'k': None, 'z': 0}]
                if fld.default is None:
                    choices.append(None)
                kw[name] = rng.choice(choices)
            elif (fld.default is dataclasses.MISSING and fld.default_factory is dataclasses.MISSING) or rng.random() < 0.6:
                kw[name] = rng.choice(VALS)
        try:
            out.append(cls(**kw))
        except Exception:       # noqa
            pass
    return out


def fields_json(o, case):
    d = {}
    for name, _tp, _fld in case['specs']:
        v = getattr(o, name)
        if isinstance(v, dict):
            d[name] = [[k, lit(x)] for k, x in v.items()]
        else:
            d[name] = lit(v)
    return d


def rebuild(emits, o):
    """the dict the generated function returns, from the interpreter's emissions (field values are scalars: asdict(v) == v)"""
    result, paths, has_paths, tag = [], {}, False, None
    for e in emits:
        if e[0] == 'entry':
            result.append((e[1], getattr(o, e[2])))
        elif e[0] == 'catchAll':
            for k, v in getattr(o, e[1]).items():
                result.append((k, v))
        elif e[0] == 'path':
            has_paths = True
            cur = paths
            for part in e[1][:-1]:
                if not isinstance(cur, dict):
                    raise TypeError('path through a scalar')      # what `paths[a][b] = ..` does after `paths[a] = 5`
                cur = cur.setdefault(part, {})
            if not isinstance(cur, dict):
                raise TypeError('path through a scalar')
            cur[e[1][-1]] = getattr(o, e[2])
        elif e[0] == 'tag':
            tag = (e[1], e[2])
    return result, paths, has_paths, tag


def oracle(ctx, d, case, o, kwargs, actual):
    """clauses of C13 / C10 stated on the real result, without the model"""
    if actual[0] != 'ok':
        return
    res, meta, gin = actual[1], case['meta'], case['gin']
    tag = meta.get('tag')
    tkey = meta.get('tag_key') or '__tag__'
    if tag and res.get(tkey) != tag:
        ctx.fail('gencode:tag', d, f'the class has tag {tag!r} but the dump holds {res.get(tkey)!r} under the tag key {tkey!r}')
    if kwargs or meta.get('skip_defaults') or meta.get('skip_defaults_if'):
        return
    taken = {g['key'] for g in gin['fields'] if isinstance(g.get('key'), str)} | {p[0] for g in gin['fields'] if isinstance(g.get('key'), list) for p in [g['key']]}
    if tag:
        taken.add(tkey)
    for g in gin['fields']:
        if g.get('isCatchAll'):
            v = getattr(o, g['name'])
            if isinstance(v, dict):
                lost = {k: x for k, x in v.items() if k not in taken and (k not in res or res[k] != x or type(res[k]) is not type(x))}
                if lost:
                    ctx.fail('gencode:catch-all-write-back', d, f'captured pairs {lost!r} of the CatchAll field are not written back '
                             f'unchanged at top level: dump = {res!r}'[:500])


def run(ctx: C.Ctx):
    from dataclass_wizard import asdict
    if ctx.only is not None and not (BASE <= ctx.only < BASE + 100000):
        return
    t = ('interpreter DW/Model/GenDumpSem.lean: Boolean abstraction of the _skip_<i> locals, short-circuit or / and, comparisons = evalCond / '
         'pyEqDflt of the dump model; the closure holds the values dump_func_for_dataclass assigns into _locals (keys compared on every '
         'run, values read off the source); tied to the code by rebuilding the returned dict from the emissions')
    if t not in ctx.trusted:
        ctx.trusted.append(t)
    rng = random.Random(f'C11gc:{ctx.seed}')
    n_cases = ctx.quick(260, 4000)
    cap = gencap.Capture()
    jobs, reqs = [], []
    made = 0
    with cap.on():
        i = 0
        while made < n_cases and i < n_cases * 6:
            i += 1
            case = G.make_case(rng)
            seed_i = rng.random()
            if not supported(case):
                continue
            made += 1
            idx = BASE + i
            if ctx.only is not None and idx != ctx.only:
                continue
            try:
                cls = G.build_class(case, i, f'{ctx.seed}c')
            except Exception:      # noqa
                ctx.count('gencode:class-not-built')
                continue
            irng = random.Random(seed_i)
            insts = make_instances(cls, case, irng)
            if not insts:
                continue
            if case['load_first']:
                from dataclass_wizard import fromdict
                try:
                    fromdict(cls, {})
                except Exception:   # noqa
                    pass
            n0 = len(cap.batches)
            try:
                asdict(insts[0])
            except Exception:     # noqa
                pass
            fns = [b for b in cap.batches[n0:] if 'cls_asdict' in b['functions']]
            del cap.batches[n0:]
            if not fns:
                ctx.count('gencode:not-captured')
                continue
            f = fns[0]['functions']['cls_asdict']
            try:
                closure = closure_json(f.get('locals_values') or {})
            except Unsupported:
                ctx.count('gencode:closure-outside-value-model')
                continue
            names = case['names']
            flag = bool(case['meta'].get('skip_defaults') or case['meta'].get('skip_defaults_if'))
            has_paths_cls = 'NestedDict' in (f.get('locals_values') or {})
            for o in insts:
                try:
                    fj = fields_json(o, case)
                except Unsupported:
                    continue
                for kwargs in ({}, {'exclude': []}, {'exclude': names[:1]}, {'exclude': names[1:3]}, {'skip_defaults': True},
                               {'skip_defaults': False}, {'exclude': names[-1:], 'skip_defaults': True}):
                    try:
                        actual = ['ok', asdict(o, **kwargs)]
                    except TypeError as e:
                        actual = ['raised']
                    except Exception as e:      # noqa
                        actual = ['other-error', type(e).__name__ + ': ' + str(e)[:120]]
                    ctx.current = idx
                    oracle(ctx, dict(G.describe(case), call=repr(kwargs), instance=repr(o)[:300]), case, o, kwargs, actual)
                    jobs.append((idx, case, o, kwargs, actual, f, has_paths_cls))
                    reqs.append({'op': 'gendumprun', 'gin': case['gin'], 'fields': fj,
                                 'exclude': kwargs.get('exclude'), 'skipDefaults': kwargs.get('skip_defaults', flag),
                                 'closure': closure})
    text_reqs = {}
    for (idx, case, *_r) in jobs:
        text_reqs.setdefault(idx, {'op': 'gendump', 'nonprintable': G.nonprintable_of(case), 'gin': case['gin']})
    if not ctx.model_available:
        return
    idxs = sorted(text_reqs)
    touts = dict(zip(idxs, ctx.driver.run([text_reqs[k] for k in idxs])))
    outs = ctx.driver.run(reqs)
    text_ok = {}
    for (idx, case, o, kwargs, actual, f, has_paths_cls), out in zip(jobs, outs):
        ctx.current = idx
        d = dict(G.describe(case), call=repr(kwargs), instance=repr(o)[:300])
        if idx not in text_ok:
            t = touts[idx]
            if 'err' in t:
                text_ok[idx] = ctx.agree('gencode:text', G.describe(case), {'code': f['code']}, {'driver-error': t['err']})
            else:
                text_ok[idx] = ctx.agree('gencode:text', G.describe(case),
                                         {'args': f['args'], 'code': f['code'], 'locals': f.get('locals_ordered')},
                                         {'args': t['r']['args'], 'code': t['r']['code'], 'locals': t['r']['locals']})
        if not text_ok[idx]:
            continue
        feats = ('paths' if has_paths_cls else 'plain') + ('+catchall' if any(g.get('isCatchAll') for g in case['gin']['fields']) else '')
        ctx.seen('gencode:' + feats + ':' + ('+'.join(sorted(kwargs)) or 'no-args'), d)
        if 'err' in out:
            ctx.agree('gencode:run', d, actual, ['driver-error', out['err']])
            continue
        r = out['r']
        if 'err' in r:
            ctx.agree('gencode:run', d, actual[:1] if actual[0] == 'raised' else actual, [r['err']])
            continue
        try:
            result, paths, has_paths, tag = rebuild(r['ok'], o)
        except TypeError:
            ctx.agree('gencode:run', d, actual[:1], ['raised'])
            continue
        if has_paths_cls:
            # `result and paths.update(result); result = paths`: the path entries come first, the plain ones after
            exp = dict(paths)
            exp.update(result)
        else:
            exp = dict(result)
        if tag:
            exp[tag[0]] = tag[1]
        if actual[0] == 'ok':
            same = actual[1] == exp and (has_paths_cls or list(actual[1]) == list(exp))
            ctx.agree('gencode:run', d, {'result': repr(actual[1])[:600]} if not same else 'same', 'same' if same else {'result': repr(exp)[:600]})
        else:
            ctx.agree('gencode:run', d, actual, ['ok', repr(exp)[:300]])
    ctx.notes['gencode_runs'] = len(jobs)
