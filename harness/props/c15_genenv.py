"""C15: the generator of an EnvWizard class's `__init__` and `dict` as *text*.

`DW/Model/GenEnv.lean` writes the source `EnvWizard._create_methods` generates: the parameter list, the body, `dict`, the ordered closure
keys and the globals.  This stream defines seeded EnvWizard classes over everything that generator looks at (Meta.env_file /
secrets_dir / env_prefix; per field: required / default / default_factory, no explicit variable name / one / a tuple / a list of names
- via env_field(..) and Meta.field_to_env_var -, names and prefixes with quotes, braces, backslashes, newlines, non-ASCII text; field
names equal to the template's own variables), captures what the library generates and compares byte for byte.  Every statement of the
model carries the names it reads and binds; they are compared with Python's `ast` reading of the corresponding source line (a
comprehension's own variable belongs to the comprehension).  The constructor is then called so that it runs through its branches (no
arguments, every field given, a value that does not parse, a prefix): a NameError / UnboundLocalError / SyntaxError is a violation of
"compiles and refers only to names it binds", and that outcome is compared with the model's scoping verdict (theorems
`C15_geninit_well_scoped`, `C15_geninit_well_scoped_py`, `C15_geninit_defaults_bound`).

Not generated here: field names equal to one of the five fixed parameters of `__init__` (`self`, `_env_file`, `_reload`, `_env_prefix`,
`_secrets_dir`) - a duplicate parameter, recorded finding env-init-field-name-shares-namespace.
"""
from __future__ import annotations

import ast
import os
import random
import shutil
import tempfile

from .. import common as C, gencap
from .c15_genload import names_of_line, model_names

BASE = 300000
NAMES = ['a', 'b', 'my_field', 'other_value', 'x1', 'z', 'the_id']
HOSTILE = ['_vars', '_name', '_env_var', '_var_name', 'e', 'v', 'cls', 'Env', 'MISSING', 'add', 'get_env', 'lookup_exact', 'handle_err',
           'ParseError', 'MissingVars', 'field_names', '_tp_a', '_parser_a', '_dflt_a', 'a', '_dotenv_values', '_secrets_dir_value', 'é',
           'fields_ordered', 'str', 'o']      # not: names of EnvWizard's own attributes (dict, to_dict, ..) - dataclasses reads an inherited
# class attribute as the field's default
TEXTS = ['MY_VAR', 'A"B', "it's", '{x}', '{_name}', 'A{B', 'A}B', 'a\\b', 'a\\nb', 'line\nbreak', 'é', 'x y', '#', "'", '"', '\\', 'V1', 'v2']
PREFIXES = [None, None, 'P_', 'APP_', 'it\'s"', '{x}', 'a\\', 'é_', '']


def make_case(rng):
    hostile = rng.random() < 0.35
    pool = (HOSTILE if hostile else NAMES)[:]
    rng.shuffle(pool)
    nf = rng.choice([0, 1, 1, 2, 3, 4])
    fields, f2v = [], {}
    for name in pool[:nf]:
        dflt = rng.choice(['none', 'value', 'factory'])
        r = rng.random()
        via_meta = False
        if r < 0.35:
            var = None
        elif r < 0.65:
            var = rng.choice(TEXTS)
            via_meta = rng.random() < 0.3
        elif r < 0.85:
            var = {'kind': 'tuple', 'names': rng.sample(TEXTS, rng.choice([2, 2, 3]))}
            if rng.random() < 0.25:
                var = {'kind': 'tuple', 'names': rng.sample(TEXTS, 1)}
                via_meta = True
        else:
            var = {'kind': 'list', 'names': rng.sample(TEXTS, rng.choice([1, 2, 3]))}
            via_meta = True
        fields.append({'name': name, 'var': var, 'dflt': dflt, 'via_meta': via_meta, 'tp': rng.choice(['int', 'str', 'float'])})
    ein = {'envFile': rng.random() < 0.3, 'secretsDir': rng.random() < 0.3, 'envPrefix': rng.choice(PREFIXES),
           'fields': [{'name': f['name'], 'var': f['var'], 'dflt': f['dflt']} for f in fields]}
    return {'ein': ein, 'fields': fields}


def describe(case):
    return {'ein': case['ein'], 'via_meta': [f['name'] for f in case['fields'] if f['via_meta']]}


def nonprintable_of(case):
    texts = [case['ein']['envPrefix'] or '']
    for f in case['ein']['fields']:
        texts.append(f['name'])
        v = f['var']
        texts += [v] if isinstance(v, str) else (v['names'] if v else [])
    return sorted({ord(ch) for t in texts for ch in t if ord(ch) >= 127 and not ch.isprintable()})


def build_class(case, idx, seed, tmp):
    """the class is written as source (an inner Meta is found through its qualified name); every value comes in through the namespace"""
    from dataclass_wizard import EnvWizard, env_field
    ein = case['ein']
    ns = {'EnvWizard': EnvWizard, 'env_field': env_field, 'list': list, 'int': int, 'str': str, 'float': float}
    meta_lines = []
    if ein['envPrefix'] is not None:
        ns['M_PREFIX'] = ein['envPrefix']
        meta_lines.append('env_prefix = M_PREFIX')
    if ein['secretsDir']:
        ns['M_SECRETS'] = os.path.join(tmp, 'secrets')
        meta_lines.append('secrets_dir = M_SECRETS')
    if ein['envFile']:
        ns['M_ENVFILE'] = os.path.join(tmp, 'dot.env')
        meta_lines.append('env_file = M_ENVFILE')
    f2v = {}
    body = []
    for i, f in enumerate(case['fields']):
        ns[f'T{i}'] = {'int': int, 'str': str, 'float': float}[f['tp']]     # the annotation is an object: a field may be called `str`
        v = f['var']
        if v is None:
            explicit = None
        elif isinstance(v, str):
            explicit = v
        elif v['kind'] == 'tuple':
            explicit = tuple(v['names'])
        else:
            explicit = list(v['names'])
        kw = {}
        if f['dflt'] == 'value':
            kw['default'] = {'int': 3, 'str': 'd', 'float': 1.5}[f['tp']]
        elif f['dflt'] == 'factory':
            kw['default_factory'] = {'int': int, 'str': str, 'float': float}[f['tp']]
        if explicit is not None and f['via_meta']:
            f2v[f['name']] = explicit
            explicit = None
        if explicit is not None:
            ns[f'F{i}'] = env_field(explicit, **kw)
            body.append(f'{f["name"]}: T{i} = F{i}')
        elif 'default' in kw:
            ns[f'D{i}'] = kw['default']
            body.append(f'{f["name"]}: T{i} = D{i}')
        elif 'default_factory' in kw:
            import dataclasses
            ns[f'F{i}'] = dataclasses.field(default_factory=kw['default_factory'])
            body.append(f'{f["name"]}: T{i} = F{i}')
        else:
            body.append(f'{f["name"]}: T{i}')
    if f2v:
        ns['M_F2V'] = f2v
        meta_lines.append('field_to_env_var = M_F2V')
    cname = f'Ge{seed}_{idx}'
    src = f'class {cname}(EnvWizard):\n'
    if meta_lines:
        src += '    class _(EnvWizard.Meta):\n' + ''.join(f'        {m}\n' for m in meta_lines)
    src += ''.join(f'    {b}\n' for b in body) or ('' if meta_lines else '    pass\n')
    exec(compile(src, '<genenv>', 'exec', dont_inherit=True), ns)     # not under this module's __future__ flags
    return ns[cname]


def line_names(text):
    """names_of_line, with a comprehension's own variables left out (they live in the comprehension's scope)"""
    out = names_of_line(text)
    src = text.strip()
    if ' for ' in src and not src.startswith(('if ', 'elif ', 'for ', 'except', 'try:', 'else:', '#')):
        comp = set()
        for node in ast.walk(ast.parse('def _f():\n ' + src)):
            if isinstance(node, (ast.ListComp, ast.SetComp, ast.GeneratorExp, ast.DictComp)):
                for gen in node.generators:
                    comp |= {n.id for n in ast.walk(gen.target) if isinstance(n, ast.Name)}
        out = [(sorted(set(lo) - comp), sorted(set(st) - comp)) for lo, st in out]
    return out


def calls(case):
    """argument sets that drive the constructor through its branches"""
    names = [f['name'] for f in case['fields']]
    good = {'int': '7', 'str': 's', 'float': '2.5'}
    yield {}
    yield {f['name']: good[f['tp']] for f in case['fields']}
    yield {f['name']: [object()] for f in case['fields']}
    yield {'_env_prefix': 'Q_'}
    yield {'_reload': True}
    if names:
        yield {names[0]: good[case['fields'][0]['tp']], '_env_file': False}


def run_genenv(ctx: C.Ctx):
    if ctx.only is not None and not (BASE <= ctx.only < BASE + 100000):
        return
    ctx.trusted += ['generator model DW/Model/GenEnv.lean (EnvWizard __init__ / dict): statements carry their text and the names they read / '
                    "bind (compared with Python's ast reading of every source line); tied to the code by byte-for-byte comparison of "
                    'parameter list, body, dict, closure keys, globals']
    rng = random.Random(f'C15ge:{ctx.seed}')
    n_cases = ctx.quick(300, 4000)
    cap = gencap.Capture()
    cases, reqs = [], []
    tmp = tempfile.mkdtemp(prefix='dwgenenv')
    saved_env = dict(os.environ)
    try:
        os.mkdir(os.path.join(tmp, 'secrets'))
        with open(os.path.join(tmp, 'dot.env'), 'w') as fh:
            fh.write('MY_VAR=1\nV1=2\n')
        with cap.on():
            for i in range(n_cases):
                case = make_case(rng)
                idx = BASE + i
                if ctx.only is not None and idx != ctx.only:
                    continue
                case['index'] = idx
                n0 = len(cap.batches)
                errs = []
                cls = None
                try:
                    cls = build_class(case, i, ctx.seed, tmp)
                except (SyntaxError, NameError) as e:
                    errs.append(f'class definition: {type(e).__name__}: {e}')
                except Exception as e:     # noqa
                    case['build_error'] = f'{type(e).__name__}: {e}'[:200]
                fns = [b for b in cap.batches[n0:] if '__init__' in b['functions']]
                del cap.batches[n0:]
                if cls is not None:
                    for kw in calls(case):
                        try:
                            cls(**kw)
                        except (NameError, SyntaxError) as e:
                            errs.append(f'{type(e).__name__}: {e}')
                        except Exception:    # noqa
                            pass
                case['captured'] = fns[0] if fns else None
                case['run_errors'] = sorted(set(errs))[:3]
                cases.append(case)
                reqs.append({'op': 'genenv', 'nonprintable': nonprintable_of(case), 'ein': case['ein']})
    finally:
        shutil.rmtree(tmp, ignore_errors=True)
        for k in list(os.environ):
            if k not in saved_env:
                del os.environ[k]
        os.environ.update(saved_env)
        try:
            from dataclass_wizard.environ.lookups import Env
            Env.reload()
        except Exception:     # noqa
            pass
    outs = ctx.driver.run(reqs) if ctx.model_available else [None] * len(reqs)
    for case, out in zip(cases, outs):
        ctx.current = case['index']
        d = describe(case)
        ein = case['ein']
        kinds = {('none' if f['var'] is None else 'one' if isinstance(f['var'], str) else f['var']['kind']) for f in ein['fields']}
        feats = '+'.join([k for k, on in (('envfile', ein['envFile']), ('secrets', ein['secretsDir']), ('prefix', ein['envPrefix'] is not None),
                                          ('nofields', not ein['fields'])) if on] + sorted(kinds)) or 'plain'
        ctx.seen('genenv:' + feats, d)
        bad = case['run_errors']
        capd = case['captured']
        if bad:
            ctx.fail('genenv:run', d, 'the generated EnvWizard __init__ does not compile or refers to a name it does not bind: ' +
                     '; '.join(bad)[:300], detail={'code': capd['functions']['__init__']['code'] if capd else None})
        if capd is None:
            ctx.count('genenv:not-captured' + (':' + case['build_error'][:40] if case.get('build_error') else ''))
            continue
        f = capd['functions']['__init__']
        fd = capd['functions'].get('dict', {})
        probs = []
        for nm in ('__init__', 'dict'):
            if nm in capd['functions']:
                probs += gencap.scope_report(nm, capd['functions'][nm], capd['globals'], set(capd['functions']))[0]
        if probs and not bad:
            ctx.fail('genenv:scope', d, 'generated EnvWizard method: ' + '; '.join(probs)[:300], detail={'code': f['code']})
        if out is None:
            continue
        if 'err' in out:
            ctx.agree('genenv', d, {'code': f['code']}, {'driver-error': out['err']})
            continue
        r = out['r']
        impl = {'code': f['code'], 'args': list(f['args']), 'dict': fd.get('code'), 'locals': f.get('locals_ordered'),
                'globals': sorted(capd['globals'])}
        mdl = {'code': r['code'], 'args': r['args'], 'dict': r['dict'], 'locals': r['locals'], 'globals': sorted(r['globals'])}
        if not ctx.agree('genenv:text', d, impl, mdl):
            continue
        src_names = [x for x in (line_names(line) for line in f['code'].split('\n')) if x]
        ctx.agree('genenv:names', d, src_names, model_names(r['stmts']))
        ok = not bad and not probs
        ctx.agree('genenv:verdict', d, {'wellScoped': ok, 'wellScopedPy': ok, 'defsBound': ok},
                  {'wellScoped': r['wellScoped'], 'wellScopedPy': r['wellScopedPy'], 'defsBound': r['defsBound']})
    ctx.notes['genenv_cases'] = len(cases)
