"""C15 — generated code is well-formed for every class; spelling never changes behaviour.

Oracle (renaming equivariance): a class model M and its renamed copy r(M) — classes / enums / NamedTuples / TypedDicts
given adversarial `__name__`s (generator-internal names, builtins, one name for several types), fields renamed
injectively into adversarial identifiers, aliases / tags / tag keys into text with quotes, backslashes, braces,
newlines — are both built; the same instance (transported through r) is dumped by both, documents keyed by the field
names / aliases are loaded by both, mutated documents (a key dropped, a junk value) too; results must correspond
position by position, errors by type.  Every function the library generates on the way is captured and checked to
compile and to be well scoped.  The pools of adversarial names are derived on every run from the names that occur in
the code the library generates for the battery, so a new internal name becomes an adversarial field / class name.
Correspondence: Lean `pyRepr`/`pyUnquote` vs Python `repr` / `ast.literal_eval`; `fieldVar` / `typeLocal` vs the names
found in the captured code.
Feature models (harness/feat15.py, `feat_case`): the same oracle on shapes outside the type grammar (user-defined scalar
types in Unions / under Patterns, several aliases — also spelled like other fields of the class —, text-keyed TypedDicts, tag keys
with catch-alls, string operands, operands that are instances of user-defined int / str subclasses).
Identity renaming (`twin_check`, and the twin of a feature model): every model is also defined a SECOND time with the same
spelling (the same definitions executed again: new classes, equal names) and used after the first; each copy must load into
its own classes and dump alike, and the first must be unaffected — equal spelling does not merge two models.
Histories (harness/props/c15_hist.py): the same oracle with the nested classes of a model used on their own before / after the root,
crossed with Meta.recursive = False and shared / number-suffixed __name__s.
"""
from __future__ import annotations

import ast
import builtins
import collections
import copy
import dataclasses
import enum
import json
import keyword
import os
import random
import re

from harness import common as C
from harness import gen, gencap, model, battery15, feat15
from harness.props.c02 import strip_shapes

ADV_TEXT = ["it's", 'a"b', "q'\"x", 'back\\slash', 'C:\\new\\tag', 'tr\\', '{o}', '{0}', '%s', 'new\nline', 'tab\there', 'ключ', 'a b',
            "'", '"', '\\', "x'''y", '"""', '\r', 'é', '#c', 'x;y', '$v', "')", 'k\x00z', '\u200b', '\U0001f600', ' sp ',
            # runs of blanks and other white space: text that any re-formatting of the generated source would alter
            'two  blanks', '   ', 'a   b  c', '  lead', 'trail  ', 'x \t  y', ' \n  ', 'if  x :', 'or  else']


def norm(s):
    return re.sub(r'[^0-9a-z]', '', s.lower())


def internal_names():
    """names occurring in the code the library generates for the battery (minus user-derived ones)"""
    cap = gencap.Capture()
    with cap.on():
        battery15.run_all()
    rows, bound, ref = gencap.analyse(cap)
    mark = battery15.MARK.lower()
    names = {n for n in (bound | ref) if mark not in n.lower()}
    init_names = set()
    for b in cap.batches:
        for name, f in b['functions'].items():
            if name == '__init__':
                _p, bnd, rf = gencap.scope_report(name, f, b['globals'], set(b['functions']))
                init_names |= {n for n in (bnd | rf | set(f['locals'] or [])) if mark not in n.lower()}
    # high-value candidates: a user name that, put into one of the observed derived shapes, *is* an internal name
    hv_f, hv_c = set(), set()
    for n in (bound | ref):
        m = re.search(r'zq7_[a-z0-9]+', n)
        if m:
            pre, suf = n[:m.start()], n[m.end():]
            for N in names:
                if N.startswith(pre) and N.endswith(suf) and len(N) > len(pre) + len(suf) and (pre or suf):
                    hv_f.add(N[len(pre):len(N) - len(suf)])
        m = re.search(r'Zq7[A-Za-z0-9]+', n)
        if m:
            pre, suf = n[:m.start()], re.sub(r'\d+', r'\\d+', re.escape(n[m.end():]))
            for N in names:
                mm = re.fullmatch(re.escape(pre) + r'(.+?)' + suf, N)
                if mm and (pre or suf):
                    hv_c.add(mm.group(1))
    HV['fields'] = sorted(x for x in hv_f if x.isidentifier() and not keyword.iskeyword(x) and not x.startswith('__'))
    HV['classes'] = sorted(x for x in hv_c if x.isidentifier() and not keyword.iskeyword(x) and not x.startswith('__'))
    return names, rows, init_names


HV = {'fields': [], 'classes': []}


def pools(names):
    from dataclass_wizard import JSONWizard
    taken = set(dir(JSONWizard)) | {'_'}
    fld, cls_ = set(), set()
    for n in names:
        parts = n.split('_')
        for i in range(len(parts)):
            fld.add('_'.join(parts[i:]))
            cls_.add('_'.join(parts[:i + 1]))
        fld.add(n)
        fld.add(n.lstrip('_'))
        cls_.add(n)
    fld |= {'str', 'int', 'len', 'isinstance', 'type', 'list', 'dict', 'float', 'bool', 'tuple', 'locals', 'Exception', 'KeyError',
            'self', 'cls', 'o', 'field', 'fields', 'i', 'e', 'v1', 'tp', 'result', 'config', 'hooks', 'exclude', 'init_kwargs', 'MISSING',
            'value', 'if_0', 'if_1', 'if_2', 'defaults_value', 'as_datetime', 'datetime_fromisoformat', 'tz', 'name', 'key', 'k', 'v'}
    cls_ |= {'str', 'int', 'float', 'bool', 'list', 'dict', 'tuple', 'type', 'len', 'isinstance', 'datetime', 'date', 'time', 'Decimal', 'UUID',
             'o', 'field', 'v1', 'e', 'tp', 'i', 'init_kwargs', 'cls', 'fields', 'Item', 'Item', 'Item', 'Color', 'Color', 'Enum', 'MISSING',
             'ParseError', 'LOG', 're_raise', 'as_int', 'as_str', 'NoneType', 'None_'}

    def ok(n, field_):
        if not n.isidentifier() or keyword.iskeyword(n) or n.startswith('__'):
            return False
        if field_ and (n in taken or norm(n) == ''):
            return False
        return True
    return sorted(n for n in fld if ok(n, True)), sorted(n for n in cls_ if ok(n, False))


# ----------------------------------------------------------------------------------------------- models
def add_features(rng, t, depth=0):
    """aliases on some fields (default engine), in place"""
    if t['k'] == 'cls':
        info = t['info']
        v1 = bool((info.get('meta') or {}).get('v1'))
        for f in info['fields']:
            if not v1 and rng.random() < 0.2 and not f.get('catch_all'):
                f['load_keys'] = [model.fresh('alias')] + ([model.fresh('alt')] if rng.random() < 0.3 else [])
                f['dump_all'] = True
        for _n, ft in t['ftys']:
            add_features(rng, ft, depth + 1)
    elif t['k'] == 'namedtuple':
        for f in t['fields']:
            add_features(rng, f[1], depth + 1)
    elif t['k'] == 'typeddict':
        for f in t['fields']:
            add_features(rng, f[1], depth + 1)
    else:
        for x in t.get('a', []):
            add_features(rng, x, depth + 1)


def members_of_unions(t, out):
    k = t['k']
    if k == 'union':
        out.extend(m for m in t['a'] if m['k'] == 'cls')
    if k == 'cls':
        for _n, ft in t['ftys']:
            members_of_unions(ft, out)
    elif k in ('namedtuple', 'typeddict'):
        for f in t['fields']:
            members_of_unions(f[1], out)
    else:
        for x in t.get('a', []):
            members_of_unions(x, out)


def directed_model(rng, engine):
    """shapes in which several types share one field / one model, so that a shared __name__ matters"""
    T = model.T
    e1, e2 = gen.gen_enum(rng), gen.gen_enum(rng)
    for e in (e1, e2):
        e['members'] = [[m, (v if isinstance(v, str) else f'v{v}')] for m, v in e['members']]      # str-valued: usable as dict keys
    def cls(fields):
        return {'k': 'cls', 'info': {'name': model.fresh('D'), 'fields': [{'name': n} for n, _ in fields], 'wizard': rng.random() < 0.5, 'meta': None},
                'ftys': [[n, ft] for n, ft in fields]}
    c1, c2 = cls([('val_one', T('int'))]), cls([('txt_two', T('str')), ('num_two', T('int'))])
    nt1 = T('namedtuple', name=model.fresh('N'), fields=[['fa', T('int'), None]])
    nt2 = T('namedtuple', name=model.fresh('N'), fields=[['fb', T('str'), None], ['fc', T('int'), None]])
    td1 = T('typeddict', name=model.fresh('TD'), fields=[['ka', T('int'), True]])
    td2 = T('typeddict', name=model.fresh('TD'), fields=[['kb', T('str'), True]])
    shape = rng.choice(['enums-tuple', 'enums-dict', 'classes', 'nts', 'tds', 'mixed'])
    if shape == 'enums-tuple':
        fields = [('pair_fld', T('tuple', e1, e2)), ('lst_fld', T('list', e2))]
    elif shape == 'enums-dict':
        fields = [('map_fld', T('dict', e1, e2)), ('one_fld', e1)]
    elif shape == 'classes':
        fields = [('one_fld', c1), ('two_fld', c2), ('lst_fld', T('list', c2))]
    elif shape == 'nts':
        fields = [('one_fld', nt1), ('two_fld', nt2)]
    elif shape == 'tds':
        fields = [('one_fld', td1), ('two_fld', td2)]
    else:
        fields = [('one_fld', c1), ('enum_fld', e1), ('nt_fld', nt2), ('pair_fld', T('tuple', e2, e1))]
    root = cls(fields)
    root['info']['wizard'] = True
    root['info']['meta'] = {'v1': True, 'v1_key_case': 'AUTO'} if engine == 'v1' else {}
    root['_directed'] = shape
    return root


def make_model(rng, engine):
    if rng.random() < 0.2:
        return directed_model(rng, engine)
    o = gen.Opts(meta_keys=['key_transform_with_dump', 'marshal_date_time_as', 'skip_defaults'] if engine == 'default' else [],
                 meta_prob=0.4 if engine == 'default' else 0.0, wizard_prob=0.8, py_wizard_prob=0.0, max_fields=4)
    ty = gen.gen_cls(rng, rng.choice([0, 1, 2, 2]), o)
    if engine == 'v1':
        ty = strip_shapes(ty)
        ty['info']['wizard'] = True
        ty['info']['meta'] = {'v1': True, 'v1_key_case': 'AUTO'}
    else:
        ty['info']['wizard'] = True
        m = dict(ty['info'].get('meta') or {})
        if rng.random() < 0.4:
            m['tag_key'] = model.fresh('tagkey')
        # a float default: the operand of a condition on it is kept in a closure variable, not inlined
        if rng.random() < 0.4:
            fn = model.fresh('num_extra')
            ty['info']['fields'].append({'name': fn, 'dflt': ['lit', 2.5], 'factory': False})
            ty['ftys'].append([fn, model.T('float')])
            which = rng.choice(['meta', 'meta_dflt', 'field'])
            if which == 'meta':
                m['skip_if'] = {'op': '==', 'val': 2.5}
            elif which == 'meta_dflt':
                m['skip_defaults_if'] = {'op': '==', 'val': 2.5}
            else:
                ty['info']['fields'][-1]['skip_if'] = {'op': '==', 'val': 2.5}
        # conditions that actually select something: compare with the default of a defaulted field
        dflts = [f['dflt'][1] for f in ty['info']['fields'] if f.get('dflt') and f['dflt'][0] == 'lit']
        r = rng.random()
        if dflts and r < 0.35 and 'skip_if' not in m and 'skip_defaults_if' not in m:
            v = rng.choice(dflts)
            m['skip_if'] = {'op': 'is', 'val': None} if v is None else {'op': '==', 'val': v}
        elif dflts and r < 0.5 and 'skip_if' not in m and 'skip_defaults_if' not in m:
            v = rng.choice(dflts)
            m['skip_defaults_if'] = {'op': 'is', 'val': None} if v is None else {'op': '==', 'val': v}
        for f in ty['info']['fields']:
            if f.get('dflt') and f['dflt'][0] == 'lit' and rng.random() < 0.15 and not f.get('load_keys'):
                v = f['dflt'][1]
                f['skip_if'] = {'op': 'is', 'val': None} if v is None else {'op': '==', 'val': v}
        ty['info']['meta'] = m
        mem = []
        members_of_unions(ty, mem)
        for c in mem:
            if rng.random() < 0.5 and not any(f.get('catch_all') for f in c['info']['fields']):
                c['info']['fields'].append({'name': 'rest_items', 'catch_all': True, 'dflt': ['dict'], 'factory': True})
                c['ftys'].append(['rest_items', model.T('any')])
    add_features(rng, ty)
    return ty


def walk_defs(t, out, seen):
    k = t['k']
    if k == 'cls':
        n = t['info']['name']
        if n not in seen:
            seen.add(n)
            out.append(t)
            for _n, ft in t['ftys']:
                walk_defs(ft, out, seen)
    elif k in ('enum', 'namedtuple', 'typeddict'):
        if t['name'] not in seen:
            seen.add(t['name'])
            out.append(t)
            for f in t.get('fields', []):
                walk_defs(f[1], out, seen)
    else:
        for x in t.get('a', []):
            walk_defs(x, out, seen)


def pick_fields(rng, pool, n, nt=False):
    out, norms = [], set()
    tries = 0
    while len(out) < n and tries < 500:
        tries += 1
        c = rng.choice(HV['fields']) if HV['fields'] and rng.random() < 0.5 else rng.choice(pool)
        if nt and c.startswith('_'):
            continue
        if norm(c) in norms or c in out:
            continue
        norms.add(norm(c))
        out.append(c)
    while len(out) < n:
        out.append(model.fresh('fz'))
    return out


def adv_text(rng, n):
    """adversarial text number `n` (the number keeps the texts of one model distinct)"""
    c = rng.choice(ADV_TEXT) + (rng.choice(ADV_TEXT) if rng.random() < 0.5 else '')
    if rng.random() < 0.2:
        c += ' ' * rng.randint(2, 4) + rng.choice(['', 'w', '.'])
    return c + str(n)


def feat_names(spec, rng, fld_pool, cls_pool):
    """adversarial naming of a feature model (harness/feat15.py): type / class __name__s from the class pool (one shared name
    with high probability, high-value candidates often), field names from the field pool, text from ADV_TEXT"""
    same = rng.choice(HV['classes']) if HV['classes'] and rng.random() < 0.3 else rng.choice(cls_pool)

    def pn():
        x = rng.random()
        if x < 0.45:
            return same
        if x < 0.7 and HV['classes']:
            return rng.choice(HV['classes'])
        return rng.choice(cls_pool)
    nm = len(spec['members'])
    nf = len(spec['fields'])
    fl = pick_fields(rng, fld_pool, nf + 2 * nm + 1)
    texts = []
    for i in range(spec['ntexts']):
        for _ in range(50):
            c = adv_text(rng, i)
            if c not in texts:
                break
        texts.append(c)
    # load aliases spelled like fields of the same class: the alias of one aliased field is the python name of another aliased
    # field (or its own) — a swap / rotation / partial overlap of keys and names.  Only names of ALIASED fields are used (their
    # own name is not a key of the document), so the keys of the document stay distinct: the renaming is injective.
    al = [i for i, f in enumerate(spec['fields']) if f['feat'] == 'multi_alias']
    if al and rng.random() < 0.6:
        keys = [k for i in al for k in spec['fields'][i]['keys']]
        targets = [fl[i] for i in al]
        rng.shuffle(keys)
        rng.shuffle(targets)
        for k, nm_ in zip(keys, targets):
            if rng.random() < 0.85 and nm_ not in texts:
                texts[k] = nm_
    return {'root': pn(), 'types': [pn() for _ in spec['types']], 'fields': fl[:nf], 'members': [pn() for _ in range(nm)],
            'mfields': fl[nf:nf + nm], 'mrest': fl[nf + nm:nf + 2 * nm], 'rest': fl[-1], 'tds': [pn() for _ in range(nf)], 'text': texts}


def feat_case(ctx, rng, i, engine, fld_pool, cls_pool):
    """one feature model under its benign and its adversarial naming; -> the case (for the scope check of the caller) or None"""
    rng = random.Random(f'C15:{ctx.seed}:{i}:feat:{rng.random()}')     # the case's own generator, seeded from the stream
    spec = feat15.gen_spec(rng, engine)
    names = feat_names(spec, rng, fld_pool, cls_pool)
    drop = rng.random()
    if not ctx.begin_case(i):
        return None
    case = {'feat': spec, 'names': names}
    ctx.seen('feat:' + engine, case)
    if set(names['text']) & set(names['fields']):
        ctx.count('dim:feat-alias-spelled-like-a-field')
    if any(f['feat'] == 'skip_user' for f in spec['fields']):
        ctx.count('dim:feat-operand-of-user-type')
    base = feat15.benign_names(spec)
    try:
        a = feat15.Side(spec, base)
    except Exception as e:      # noqa
        ctx.count('feat_build_error_base')
        ctx.notes.setdefault('feat_build_errors_base', []).append(repr(e)[:200])
        return case
    try:
        try:
            b = feat15.Side(spec, names)
        except Exception as e:      # noqa
            ctx.fail('feat:build', case, f'the model builds under benign names but not under {names}: {e!r}'[:600])
            return case
        try:
            det = {'src': b.source[-5000:]}
            da, db = feat15.document(spec, base), feat15.document(spec, names)
            docs = [('doc', da, db)]
            if len(da) == len(db) and da:
                k = int(drop * len(da))
                docs.append(('drop', {x: v for j, (x, v) in enumerate(da.items()) if j != k},
                             {x: v for j, (x, v) in enumerate(db.items()) if j != k}))
            for kind, d1, d2 in docs:
                oa, ob = feat15.observe(a, d1), feat15.observe(b, d2)
                ctx.count('feat_load_ok' if oa[0][0] == 'ok' else 'feat_load_err')
                if C.canon(oa[0]) != C.canon(ob[0]):
                    ctx.fail('feat:load', dict(case, doc=d2), f'load of the renamed document by the renamed model: {json.dumps(ob[0])[:400]}; '
                             f'benign spelling: {json.dumps(oa[0])[:400]}', detail=det)
                    break
                if C.canon(oa[1]) != C.canon(ob[1]):
                    ctx.fail('feat:dump', dict(case, doc=d2), f'dump of the loaded instance, renamed model: {json.dumps(ob[1])[:400]}; '
                             f'benign spelling: {json.dumps(oa[1])[:400]}', detail=det)
                    break
            else:
                # ---- the spelling of the operands of skip conditions: an instance of a user-defined int / str subclass written as
                # the equal value of the builtin type (`EQ(Level.A)` / `EQ(Celsius(1))` as `EQ(1)`) is the same condition
                if any(f['feat'] == 'skip_user' for f in spec['fields']):
                    try:
                        c = feat15.Side(spec, dict(base, plain_operands=True))
                    except Exception as e:      # noqa
                        ctx.fail('feat:build', case, f'the model builds with operands of user types but not with the equal plain values: {e!r}'[:600])
                        return case
                    try:
                        for kind, d1, d2 in docs:
                            oa, oc = feat15.observe(a, d1), feat15.observe(c, d1)
                            ctx.count('feat_operand_spelling')
                            if C.canon(oa) != C.canon(oc):
                                ctx.fail('feat:operand-spelling', dict(case, doc=d1), f'[load, dump] with the operands of the skip conditions written as '
                                         f'instances of user-defined int / str subclasses: {json.dumps(oa)[:400]}; written as the equal plain values: '
                                         f'{json.dumps(oc)[:400]}', detail={'src': a.source[-5000:]})
                                break
                    finally:
                        c.close()
                # ---- the identity renaming: the same source executed once more (same spelling — incl. __qualname__s —, new classes);
                # each copy loads into its own classes (Side.canon identifies classes by identity), the first one is unaffected
                which = 'benign' if (i // 2) % 2 == 0 else 'adversarial'
                first = a if which == 'benign' else b
                try:
                    twin = first.twin()
                except Exception as e:      # noqa
                    ctx.fail('feat:twin-build', dict(case, twin_of=which), f'the same source does not build a second time: {e!r}'[:500], detail=det)
                    return case
                try:
                    for kind, d1, d2 in docs:
                        d = d1 if which == 'benign' else d2
                        o1, o2, o3 = feat15.observe(first, d), feat15.observe(twin, d), feat15.observe(first, d)
                        ctx.count('feat_twin')
                        if C.canon(o1) != C.canon(o2) or C.canon(o1) != C.canon(o3):
                            ctx.fail('feat:twin', dict(case, twin_of=which, doc=d), f'[load, dump] by a second, identically spelled definition of the model: '
                                     f'{json.dumps(o2)[:500]}; by the first definition: {json.dumps(o1)[:500]}; by the first again afterwards: '
                                     f'{json.dumps(o3)[:300]} ("foreign" = an instance of a class that is not the copy\'s own)', detail=det)
                            break
                finally:
                    twin.close()
        finally:
            b.close()
    finally:
        a.close()
    return case


def rename(root, rng, fld_pool, cls_pool):
    """-> (renamed model, maps).  Binding names (module level) are kept; `pyname` carries the adversarial __name__."""
    r = copy.deepcopy(root)
    defs = []
    walk_defs(r, defs, set())
    maps = {'fields': {}, 'ntfields': {}, 'text': {}, 'pynames': {}}
    same = rng.choice(cls_pool)

    def text(s):
        if s not in maps['text']:
            for _ in range(50):
                c = adv_text(rng, len(maps['text']))
                if c not in maps['text'].values():
                    break
            maps['text'][s] = c
        return maps['text'][s]
    for d in defs:
        bind = d['info']['name'] if d['k'] == 'cls' else d['name']
        pn = same if rng.random() < (0.8 if root.get('_directed') else 0.3) else \
            (rng.choice(HV['classes']) if HV['classes'] and rng.random() < 0.3 else rng.choice(cls_pool))
        maps['pynames'][bind] = pn
        if d['k'] == 'cls':
            info = d['info']
            info['pyname'] = pn
            olds = [f['name'] for f in info['fields']]
            news = pick_fields(rng, fld_pool, len(olds))
            # the names of aliased fields must stay clear of the other fields' spellings
            fm = dict(zip(olds, news))
            maps['fields'][bind] = fm
            # an alias may be spelled like a field of the same class: the first alias of an aliased field becomes the (new)
            # python name of an aliased field of this class (another one or itself; the own name of an aliased field is not a
            # key of the documents here — dump uses the alias —, so the keys of a document stay distinct).  Own generator,
            # seeded by the renaming: the shared stream is not touched.
            aliased = [f for f in info['fields'] if f.get('load_keys')]
            arng = random.Random('C15:alias-as-field:' + C.canon([bind, fm]))
            # (default engine only: below a v1 root the json_field aliases of the type grammar are not read at all, there the
            # own name of the field IS the key and an alias spelled like it would change the structure)
            if aliased and arng.random() < 0.5 and not (root['info'].get('meta') or {}).get('v1'):
                targets = [fm[f['name']] for f in aliased]
                arng.shuffle(targets)
                for f, nm_ in zip(aliased, targets):
                    k0 = f['load_keys'][0]
                    if k0 not in maps['text'] and nm_ not in maps['text'].values() and arng.random() < 0.85:
                        maps['text'][k0] = nm_
            for f in info['fields']:
                f['name'] = fm[f['name']]
                if f.get('load_keys'):
                    f['load_keys'] = [text(k) for k in f['load_keys']]
            d['ftys'] = [[fm[n], ft] for n, ft in d['ftys']]
            meta = info.get('meta')
            if meta:
                if meta.get('tag'):
                    meta['tag'] = text(meta['tag'])
                if meta.get('tag_key'):
                    meta['tag_key'] = text(meta['tag_key'])
        elif d['k'] == 'namedtuple':
            d['pyname'] = pn
            olds = [f[0] for f in d['fields']]
            news = pick_fields(rng, fld_pool, len(olds), nt=True)
            maps['ntfields'][bind] = dict(zip(olds, news))
            d['fields'] = [[maps['ntfields'][bind][f[0]], f[1], f[2]] for f in d['fields']]
        else:
            d['pyname'] = pn
    return r, maps


# ----------------------------------------------------------------------------------------------- values
class Side:
    def __init__(self, root):
        self.root_ty = root
        self.built = model.Built(root)
        self.defs = []
        walk_defs(root, self.defs, set())
        self.by_bind = {(d['info']['name'] if d['k'] == 'cls' else d['name']): d for d in self.defs}
        self.bind_of = {}
        for b in self.by_bind:
            self.bind_of[id(self.built.get(b))] = b
        rm = root['info'].get('meta') or {}
        self.root_tag_key = rm.get('tag_key')

    def bind(self, obj_or_cls):
        c = obj_or_cls if isinstance(obj_or_cls, type) else type(obj_or_cls)
        return self.bind_of.get(id(c))

    def close(self):
        self.built.close()


def transport(v, a: Side, b: Side, maps):
    """the value `v` of side a rebuilt with side b's classes"""
    bn = a.bind(v)
    if bn is not None:
        d = a.by_bind[bn]
        Cb = b.built.get(bn)
        if d['k'] == 'cls':
            fm = maps['fields'][bn]
            kw = {}
            for f in dataclasses.fields(v):
                if f.init:
                    kw[fm[f.name]] = transport(getattr(v, f.name), a, b, maps)
            return Cb(**kw)
        if d['k'] == 'enum':
            return Cb[v.name]
        if d['k'] == 'namedtuple':
            return Cb(*[transport(e, a, b, maps) for e in v])
    if isinstance(v, collections.defaultdict):
        return collections.defaultdict(v.default_factory, {transport(k, a, b, maps): transport(x, a, b, maps) for k, x in v.items()})
    if isinstance(v, collections.OrderedDict):
        return collections.OrderedDict((transport(k, a, b, maps), transport(x, a, b, maps)) for k, x in v.items())
    if isinstance(v, dict):
        return {transport(k, a, b, maps): transport(x, a, b, maps) for k, x in v.items()}
    if isinstance(v, collections.deque):
        return collections.deque(transport(x, a, b, maps) for x in v)
    if type(v) in (list, tuple, set, frozenset):
        return type(v)(transport(x, a, b, maps) for x in v)
    return v


def canon_obj(v, s: Side):
    """positional canonical form of a loaded value"""
    bn = s.bind(v)
    if bn is not None:
        d = s.by_bind[bn]
        if d['k'] == 'cls':
            return ['inst', bn, [canon_obj(getattr(v, f.name, '<unset>'), s) for f in dataclasses.fields(v)]]
        if d['k'] == 'enum':
            return ['enum', bn, v.name]
        if d['k'] == 'namedtuple':
            return ['nt', bn, [canon_obj(e, s) for e in v]]
    if dataclasses.is_dataclass(v) or isinstance(v, enum.Enum):
        return ['foreign', type(v).__name__, repr(v)]
    if isinstance(v, dict):
        return [type(v).__name__, [[canon_obj(k, s), canon_obj(x, s)] for k, x in v.items()]]
    if isinstance(v, (set, frozenset)):
        return [type(v).__name__, sorted((canon_obj(x, s) for x in v), key=C.canon)]
    if isinstance(v, (list, tuple, collections.deque)):
        return [type(v).__name__, [canon_obj(x, s) for x in v]]
    if isinstance(v, float) and v != v:
        return ['float', 'nan']
    return [type(v).__name__, repr(v)]


def field_of_key(d, k):
    """index of the field of class def `d` that the dumped / supplied key `k` belongs to"""
    for i, f in enumerate(d['info']['fields']):
        if k in (f.get('load_keys') or []):
            return i
    for i, f in enumerate(d['info']['fields']):
        if not f.get('load_keys') and (k == f['name'] or norm(k) == norm(f['name'])):
            return i
    return None


def tag_index(s: Side, tag):
    for i, d in enumerate(s.defs):
        if d['k'] == 'cls' and (d['info'].get('meta') or {}).get('tag') == tag:
            return i
    return ['?', tag]


def canon_dump(x, dd, s: Side, rekey=False):
    """instance-directed walk of the dump `dd` of `x`: -> (positional canonical form, document keyed by field names)"""
    bn = s.bind(x)
    if bn is not None and s.by_bind[bn]['k'] == 'cls' and isinstance(dd, dict):
        d = s.by_bind[bn]
        tk = (d['info'].get('meta') or {}).get('tag_key') or s.root_tag_key or '__tag__'
        out, doc = [], {}
        flds = dataclasses.fields(x)
        for k, v in dd.items():
            if k == tk and (d['info'].get('meta') or {}).get('tag') is not None:
                out.append(['tag', tag_index(s, v)])
                doc[k] = v
                continue
            i = field_of_key(d, k)
            if i is None:
                out.append(['?', k, C.canon(v)[:80]])
                doc[k] = v
                continue
            c, sub = canon_dump(getattr(x, flds[i].name), v, s)
            out.append([i, c])
            f = d['info']['fields'][i]
            doc[(f.get('load_keys') or [f['name']])[0]] = sub
        return ['cls', bn, out], doc
    if bn is not None and s.by_bind[bn]['k'] == 'namedtuple':
        if isinstance(dd, dict):
            cs = [canon_dump(e, v, s) for e, v in zip(x, dd.values())]
            return ['ntd', [c for c, _ in cs]], dict(zip(dd.keys(), [m for _, m in cs]))
        if isinstance(dd, (list, tuple)) and len(dd) == len(x):
            cs = [canon_dump(e, v, s) for e, v in zip(x, dd)]
            return ['nt', [c for c, _ in cs]], [m for _, m in cs]
    if isinstance(x, dict) and isinstance(dd, dict) and len(x) == len(dd):
        cs = [(k2, canon_dump(v, v2, s)) for (k, v), (k2, v2) in zip(x.items(), dd.items())]
        return ['dict', [[k2 if isinstance(k2, (str, int, float, bool, type(None))) else repr(k2), c] for k2, (c, _) in cs]], {k2: m for k2, (_, m) in cs}
    if isinstance(x, (list, tuple, collections.deque)) and isinstance(dd, (list, tuple)) and len(x) == len(dd):
        cs = [canon_dump(e, v, s) for e, v in zip(x, dd)]
        return ['seq', [c for c, _ in cs]], [m for _, m in cs]
    if isinstance(x, (set, frozenset)) and isinstance(dd, (list, tuple, set, frozenset)) and len(x) == len(dd):
        cs = [canon_dump(e, v, s) for e, v in zip(list(x), list(dd))]
        return ['set', sorted((c for c, _ in cs), key=C.canon)], [m for _, m in cs]
    try:
        return ['leaf', json.loads(json.dumps(dd))], dd
    except Exception:
        return ['leaf', repr(dd)], dd


def outcome(fn, s: Side):
    from dataclass_wizard.errors import ParseError, MissingFields, MissingData, UnknownKeysError, JSONWizardError
    try:
        return ['ok', canon_obj(fn(), s)]
    except Exception as e:      # noqa
        if isinstance(e, MissingFields):
            # positions of the missing fields
            cls = e.kwargs.get('cls') if hasattr(e, 'kwargs') else None
            return ['err', 'MissingFields', len(e.missing_fields)]
        for t in (MissingData, ParseError, UnknownKeysError):
            if isinstance(e, t):
                return ['err', t.__name__]
        if isinstance(e, JSONWizardError):
            return ['err', type(e).__name__]
        return ['err', 'raw:' + type(e).__name__]


def twin_check(ctx, case, first: Side, root, docs, det):
    """Equal spelling does not merge two models.  `first` has been built from `root` and used; the same definitions are now
    executed a second time (another module: a factory called twice, a re-imported / re-executed definition) and the copy is
    driven through the same documents, the first model again after it.  The copy is the renaming of the model under the
    identity map, so load / dump must correspond like for any other renaming — in particular every instance, Enum member
    and NamedTuple in a result of the copy must be of the COPY's classes (canon_obj identifies classes by identity) — and
    the first model must not be affected by the existence of the copy."""
    from dataclass_wizard import fromdict, asdict
    try:
        twin = Side(root)
    except Exception as e:      # noqa
        ctx.fail('rename:twin-build', case, f'the same definitions do not build a second time: {e!r}'[:500], detail=det)
        return
    try:
        for kind, d in docs:
            got = {}

            def load(side, tag, d=d):
                def f():
                    got[tag] = fromdict(side.built.root, copy.deepcopy(d))
                    return got[tag]
                return outcome(f, side)
            o1 = load(first, 'first')
            o2 = load(twin, 'twin')
            o3 = load(first, 'again')
            ctx.seen('rename:twin-' + kind, case, nontrivial=False)
            if C.canon(o1) != C.canon(o2):
                ctx.fail('rename:twin-load', dict(case, doc=d, kind=kind), f'load by a second, identically spelled definition of the model: {json.dumps(o2)[:500]}; '
                         f'by the first definition: {json.dumps(o1)[:500]} ("foreign" = an instance of a class that is not the copy\'s own)', detail=det)
                break
            if C.canon(o1) != C.canon(o3):
                ctx.fail('rename:twin-load', dict(case, doc=d, kind=kind), f'load by the first definition after its identically spelled copy was used: '
                         f'{json.dumps(o3)[:500]}; before: {json.dumps(o1)[:500]}', detail=det)
                break
            if o1[0] == 'ok':
                d1, d2 = outcome_dump(lambda: asdict(got['first'])), outcome_dump(lambda: asdict(got['twin']))
                if d1[0] != d2[0] or (d1[0] == 'ok' and C.canon(canon_dump(got['first'], d1[1], first)[0]) != C.canon(canon_dump(got['twin'], d2[1], twin)[0])):
                    ctx.fail('rename:twin-dump', dict(case, doc=d, kind=kind), f'dump by a second, identically spelled definition: {str(d2)[:400]}; by the first: '
                             f'{str(d1)[:400]}', detail=det)
                    break
    finally:
        twin.close()


def mutate_docs(rng, doc_a, doc_b):
    """the same positional mutations applied to both documents (top level): drop the k-th key / junk the k-th value"""
    out = []
    if isinstance(doc_a, dict) and isinstance(doc_b, dict) and len(doc_a) == len(doc_b) and doc_a:
        ka, kb = list(doc_a), list(doc_b)
        k = rng.randrange(len(ka))
        a2, b2 = dict(doc_a), dict(doc_b)
        del a2[ka[k]], b2[kb[k]]
        out.append(('drop', a2, b2))
        k = rng.randrange(len(ka))
        j = rng.choice([None, 'junk', [1, 'x'], {'zz': 1}, 5, True, 1.5])
        a3, b3 = dict(doc_a), dict(doc_b)
        a3[ka[k]] = j
        b3[kb[k]] = copy.deepcopy(j)
        out.append(('junk', a3, b3))
    return out


# ----------------------------------------------------------------------------------------------- env wizard
def env_case(rng, fld_pool, init_names):
    n = rng.randint(1, 4)
    tys = [rng.choice(['int', 'str', 'float', 'bool', 'list[int]']) for _ in range(n)]
    vals = {'int': '5', 'str': 'text', 'float': '1.5', 'bool': 'true', 'list[int]': '1,2'}
    base = [model.fresh('ev_') + '_x' for _ in range(n)]
    from dataclass_wizard import EnvWizard
    api = set(dir(EnvWizard)) | {'dict'}
    env_norms = {norm(k) for k in os.environ}
    # names that are part of the EnvWizard API, or that an unrelated variable of the real environment would satisfy
    pool = [p for p in fld_pool if p not in api and norm(p) not in env_norms]
    ren = pick_fields(rng, pool, n)
    return {'tys': tys, 'base': base, 'ren': ren, 'vals': [vals[t] for t in tys],
            'hits': sorted(set(ren) & (init_names | {'self', '_env_file', '_reload', '_env_prefix', '_secrets_dir'}))}


def env_run(names, tys, vals, supplied_kw):
    from dataclass_wizard import EnvWizard
    for nm, v in zip(names, vals):
        os.environ[nm] = v
    try:
        src = 'class E(_EW, reload_env=True):\n' + ''.join(f'    {nm}: {t}\n' for nm, t in zip(names, tys))
        ns = {'_EW': EnvWizard, '__name__': 'dwv_c15_env'}
        exec(compile(src, '<c15-env>', 'exec', dont_inherit=True), ns)
        e = ns['E']()
        out = [repr(getattr(e, nm)) for nm in names]
        d = e.dict()
        out.append([repr(d.get(nm)) for nm in names])
        if supplied_kw is not None:
            e2 = ns['E'](**{names[supplied_kw]: vals[supplied_kw]})
            out.append(repr(getattr(e2, names[supplied_kw])))
        return ['ok', out]
    except Exception as ex:      # noqa
        return ['err', type(ex).__name__, str(ex)[:120]]
    finally:
        for nm in names:
            os.environ.pop(nm, None)


# ----------------------------------------------------------------------------------------------- run
def run(ctx: C.Ctx):
    import logging
    from dataclass_wizard import fromdict, asdict
    rng = ctx.rng
    gen.SUBS = False
    model.SAFE = True
    ctx.rule = ('class models over the type grammar (both engines; aliases, tags, tag keys, enums, NamedTuples, TypedDicts, nested classes, '
                'containers) × a renaming into adversarial names (pools derived on every run from the names in the code generated for the '
                'battery: generator-internal names, their suffixes / prefixes at "_" boundaries, builtins; one __name__ for several types; '
                'alias / tag text with quotes, backslashes, braces, newlines, NUL, non-BMP): dump(r(x)) ≙ dump(x), load_rM(r(j)) ≙ load_M(j) '
                'for conforming, key-dropped and junk documents (errors by type), every generated function compiles and is well scoped; '
                'EnvWizard classes with adversarial field names; Lean pyRepr/pyUnquote vs repr()/literal_eval, fieldVar/typeLocal vs the '
                'captured names. Non-trivial = distinct (model, renaming). Two cases in five are feature models (harness/feat15.py) '
                'outside the type grammar: user-defined Enum / str / int / float / Decimal / date / datetime / time subclasses as members of '
                'real Unions, bare, in containers and under Pattern annotations (several types of one base and one __name__ sharing the '
                'pattern strings), several load aliases per field (both engines), functional TypedDicts with text keys (required / '
                'NotRequired / total=False), tagged roots and tagged Union members with text tag keys × CatchAll × unknown-key policies, '
                'string operands of skip conditions and string defaults; skip conditions (skip_if_field / Annotated SkipIf, all six '
                'comparison operators; Meta.skip_if / skip_defaults_if) whose operand is an instance of a user-defined int / str subclass '
                '(IntEnum / StrEnum / IntFlag member, subclass with the base repr() or one of its own built from its __name__), also '
                'compared with the same model written with the equal plain values (operand spelling); one to three aliased fields of '
                'different types through json_field / Annotated json_key / Meta.json_key_to_field / Alias, whose alias text is — under '
                'the adversarial naming, 60% — the python name of another aliased field of the class or its own (swap / rotation of '
                'keys and names; keys of the document stay distinct); rendered under benign and adversarial names (text incl. runs of '
                'blanks), loaded from the correspondingly keyed documents and dumped back; results compared positionally. '
                'Every model (original or renamed, benign or adversarial, alternating) is also defined a second time with the SAME spelling '
                '(definitions re-executed in another module) and used after the first: the copy loads into its own classes (class identity), '
                'dumps alike, and the first model is unaffected. '
                'Generator-as-text stream (harness/props/c15_gendump.py): seeded dataclasses over everything dump_func_for_dataclass reads '
                '(0-12 fields in any order, defaults, all=True aliases with adversarial text, dump=False, JSON paths with str / int / bool '
                'parts, CatchAll with / without default, per-field SkipIf and Meta skip_if / skip_defaults_if with every operator x inlined / '
                'closure-bound comparison values, skip_defaults, tag / tag_key text, _pre_dict, key transforms, field names equal to the '
                "template's own variables, load before dump): parameter list, body text and ordered closure keys of the captured cls_asdict "
                '== the Lean generator model byte for byte; names read / bound per symtable == model; the function is run through every branch '
                'of its bookkeeping (NameError / UnboundLocalError = violation) and that outcome == the model verdict (theorem '
                'C15_gendump_well_scoped). The same for the default-engine load generator (harness/props/c15_genload.py, model '
                'DW/Model/GenLoad.lean): _pre_from_dict, CatchAll with / without default, raise_on_unknown_json_key, path fields (required / '
                'default / default_factory; str / int / bool parts), all-path classes, tag keys next to CatchAll, hostile field names: body '
                "text, ordered closure keys and globals byte for byte; the names every model statement declares vs Python's ast reading of "
                'the source line; the function run on documents driving every branch; scoping verdict of the model. '
                'History stream (harness/props/c15_hist.py, case indices 400000+): a root wizard class (v1 / default engine) x Meta.recursive '
                '(default / False) over 2-4 structurally different nested definitions (wizard dataclasses with their OWN Meta, plain '
                'dataclasses, NamedTuples, TypedDicts; shared below the root; bare / list / dict / Optional / tuple positions) under the benign '
                'and an adversarial spelling (one __name__ for several definitions with probability 0.8 each, also <shared name><small '
                'number>, the shape of a collision suffix) driven through the SAME history: any subset of the nested classes in any order '
                'loaded / dumped / both on their own first, then the root loaded (conforming, key-dropped, junk documents) and dumped, then '
                'nested classes on their own again; every step must correspond (classes by identity, errors by type), every function '
                'generated on the way compiles and is well scoped.')
    ctx.assumptions += ['strings with lone surrogates are outside the Lean Char type and not generated',
                        'field names that are attributes of JSONWizard itself (to_dict, from_json, ...) or start with "__" are excluded: '
                        'they conflict with the class API / Python name mangling, not with the generators']
    logging.disable(logging.CRITICAL)
    try:
        names, rows, init_names = internal_names()
        fld_pool, cls_pool = pools(names)
        ctx.notes['pool_sizes'] = {'fields': len(fld_pool), 'classes': len(cls_pool)}
        ctx.notes['high_value_names'] = dict(HV)
        if ctx.only is None:
            for n, r in rows:
                ctx.seen('scope:battery', {'fn': n}, nontrivial=False)
                if r != 'ok':
                    ctx.current = -1
                    ctx.fail('scope:battery', {'fn': n}, f'generated function {n}: {r}')
        n_cases = ctx.quick(1500, 15000)      # two in five are feature models (harness/feat15.py)
        cap = gencap.Capture()
        repr_strs = list(ADV_TEXT)
        field_names_seen, type_locals_seen = set(), set()
        def check_generated(case, n_before, src):
            """every function generated since batch `n_before` compiles and is well scoped"""
            for bt in cap.batches[n_before:]:
                fnames = set(bt['functions'])
                for name, f in bt['functions'].items():
                    probs, bound, ref = gencap.scope_report(name, f, bt['globals'], fnames)
                    ctx.count('generated_functions')
                    if bt['error']:
                        probs = probs + [f'batch failed: {bt["error"][:200]}']
                    if probs:
                        ctx.fail('scope', case, f'generated function {name}: {"; ".join(sorted(set(probs)))[:400]}',
                                 detail={'fn_src': gencap.fn_source(name, f)[:4000], 'src': src})
                    if name.startswith('__dataclass_wizard_from_dict_'):
                        for bn in bound:
                            if bn.startswith('__') and bn.endswith('__v'):
                                field_names_seen.add(bn)

        with cap.on():
            for i in range(n_cases):
                if ctx.done(i) or (ctx.only is not None and ctx.only >= 200000):      # (replay of a case of one of the sub-streams below)
                    break
                engine = 'v1' if i % 2 else 'default'
                if i % 5 in (1, 3):
                    n_before = len(cap.batches)
                    case = feat_case(ctx, rng, i, engine, fld_pool, cls_pool)
                    if case is not None:
                        check_generated(case, n_before, '')
                    del cap.batches[n_before:]
                    continue
                if i % 9 == 8:
                    ec = env_case(rng, fld_pool, init_names)
                    kw = rng.choice([None] + list(range(len(ec['tys']))))
                    if not ctx.begin_case(i):
                        continue
                    case = {'env': ec, 'kw': kw}
                    ctx.seen('env', case)
                    a = env_run(ec['base'], ec['tys'], ec['vals'], kw)
                    b = env_run(ec['ren'], ec['tys'], ec['vals'], kw)
                    if a != b:
                        ctx.fail('env', case, f'EnvWizard with fields {ec["ren"]} gives {b}, with fields {ec["base"]} gives {a}'[:700],
                                 key='env-init-field-name-shares-namespace' if ec['hits'] else None)
                    continue
                try:
                    M = make_model(rng, engine)
                    R, maps = rename(M, rng, fld_pool, cls_pool)
                except Exception as e:      # noqa
                    ctx.count('gen_error')
                    continue
                n_before = len(cap.batches)
                try:
                    a = Side(M)
                except Exception as e:      # noqa
                    ctx.count('build_error_base')
                    continue
                try:
                    try:
                        b = Side(R)
                    except Exception as e:      # noqa
                        ctx.count('build_error_renamed')
                        ctx.notes.setdefault('build_errors_renamed', []).append(repr(e)[:200])
                        continue
                    try:
                        x = gen.gen_instance(rng, M, a.built)
                        if not ctx.begin_case(i):
                            continue
                        case = {'engine': engine, 'ty': M, 'pynames': maps['pynames'], 'fields': maps['fields'], 'text': maps['text']}
                        ctx.seen('rename:' + engine, case)
                        if set(maps['text'].values()) & {n for fm in maps['fields'].values() for n in fm.values()}:
                            ctx.count('dim:alias-spelled-like-a-field')
                        det = {'src': b.built.source[-6000:], 'base_src': a.built.source[-3000:]}
                        xr = transport(x, a, b, maps)
                        da = outcome_dump(lambda: asdict(x))
                        db = outcome_dump(lambda: asdict(xr))
                        if da[0] != db[0]:
                            ctx.fail('rename:dump', case, f'dump of the renamed model: {str(db)[:300]}; of the original: {str(da)[:300]}', detail=det)
                            continue
                        if da[0] == 'err':
                            if da[1] != db[1]:
                                ctx.fail('rename:dump', case, f'dump errors differ: renamed {db}, original {da}', detail=det)
                            continue
                        ca, doc_a = canon_dump(x, da[1], a)
                        cb, doc_b = canon_dump(xr, db[1], b)
                        if C.canon(ca) != C.canon(cb):
                            if os.environ.get("C15DBG"): print("CA", C.canon(ca)[:3000]); print("CB", C.canon(cb)[:3000])
                            ctx.fail('rename:dump', case, f'dumps do not correspond: renamed {json.dumps(db[1], default=repr)[:400]} vs original '
                                     f'{json.dumps(da[1], default=repr)[:400]}', detail=det)
                            continue
                        try:
                            ja, jb = json.loads(json.dumps(doc_a)), json.loads(json.dumps(doc_b))
                        except Exception:
                            ctx.count('doc_not_json')
                            continue
                        # (own generator: nothing after begin_case may draw from the shared stream, or a replay of a later
                        # case index would regenerate different cases)
                        docs = [('roundtrip', ja, jb)] + mutate_docs(random.Random(f'C15:{ctx.seed}:{i}:mutate'), ja, jb)
                        for kind, d1, d2 in docs:
                            oa = outcome(lambda: fromdict(a.built.root, copy.deepcopy(d1)), a)
                            ob = outcome(lambda: fromdict(b.built.root, copy.deepcopy(d2)), b)
                            ctx.seen('rename:load-' + kind, case, nontrivial=False)
                            if C.canon(oa) != C.canon(ob):
                                ctx.fail('rename:load-' + kind, dict(case, doc=d2), f'load of the renamed document by the renamed model: {json.dumps(ob)[:400]}; '
                                         f'original: {json.dumps(oa)[:400]}', detail=det)
                                break
                        # ---- the identity renaming: the same definitions executed once more (same spelling, new classes)
                        which = 'original' if (i // 2) % 2 == 0 else 'renamed'
                        twin_check(ctx, dict(case, twin_of=which), a if which == 'original' else b, M if which == 'original' else R,
                                   [(kind, d1 if which == 'original' else d2) for kind, d1, d2 in docs], det)
                    finally:
                        b.close()
                finally:
                    a.close()
                # ---- generated code of this case
                check_generated(case, n_before, b.built.source[-4000:])
                for t in maps['text'].values():
                    repr_strs.append(t)
                del cap.batches[n_before:]
            # ---- histories: nested classes used on their own before / after the root (harness/props/c15_hist.py)
            from . import c15_hist
            c15_hist.run_hist(ctx, fld_pool, cls_pool, cap, check_generated)
        # ---- correspondence: quoting and naming schemes
        if ctx.model_available and ctx.only is None:
            strs = sorted(set(repr_strs + [rng.choice(ADV_TEXT) + chr(rng.choice([0, 7, 27, 39, 34, 92, 127, 128, 160, 173, 0x378, 0x2028, 0xe000, 0xfffe, 0x10ffff]))
                                           + rng.choice(ADV_TEXT) for _ in range(ctx.quick(300, 3000))]))
            nonp = sorted({ord(c) for s in strs for c in s if not c.isprintable()})
            fvs = sorted(field_names_seen)
            req = {'op': 'names', 'strs': strs, 'nonprintable': nonp, 'fields': [v[2:-3] for v in fvs], 'types': [['Color', 3], ['_x', 0], ['fields', 12]]}
            o = ctx.driver.run([req])[0].get('r') or {}
            for s, m in zip(strs, o.get('reprs', [])):
                ctx.agree('repr', {'s': s}, repr(s), m)
            for s, m in zip(strs, o.get('unq', [])):
                ctx.agree('unquote', {'s': s}, s, m)
            req2 = {'op': 'names', 'strs': [repr(s) for s in strs], 'nonprintable': nonp}
            o2 = ctx.driver.run([req2])[0].get('r') or {}
            for s, m in zip(strs, o2.get('read', [])):
                ctx.agree('read-literal', {'s': s}, ast.literal_eval(repr(s)), m)
            for v, m in zip(fvs, o.get('fieldVars', [])):
                ctx.agree('fieldVar', {'name': v}, v, m)
            ctx.agree('typeLocal', {}, ['Color_3', '_x_0', 'fields_12'], o.get('typeLocals'))
        # ---- the generator of cls_asdict as text (model: lean/DW/Model/GenDump.lean)
        from . import c15_gendump
        c15_gendump.run_gendump(ctx)
        # ---- the generator of the default-engine cls_fromdict as text (model: lean/DW/Model/GenLoad.lean)
        from . import c15_genload
        c15_genload.run_genload(ctx)
        # ---- the generator of an EnvWizard class's __init__ / dict as text (model: lean/DW/Model/GenEnv.lean)
        from . import c15_genenv
        c15_genenv.run_genenv(ctx)
        # ---- the EnvWizard copy of the dump-function generator, tied to the GenDump model modulo a stated substitution
        from . import c15_genenvdump
        c15_genenvdump.run_genenvdump(ctx)
        # ---- the skeleton of the v1 load-function generator as text (model: lean/DW/Model/GenLoadV1.lean)
        from . import c15_genloadv1
        c15_genloadv1.run_genloadv1(ctx)
    finally:
        model.SAFE = False
        logging.disable(logging.NOTSET)


def outcome_dump(fn):
    try:
        return ['ok', fn()]
    except Exception as e:      # noqa
        return ['err', type(e).__name__ + ': ' + str(e)[:150]]
