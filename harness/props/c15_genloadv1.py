"""C15: the skeleton of the v1 load-function generator (`v1/loaders.py: load_func_for_dataclass`) as *text*.

`DW/Model/GenLoadV1.lean` writes the source of `__dataclass_wizard_from_dict_<Class>__` around the per-field value expressions: the
`_pre_from_dict` line, `init_kwargs` / `i`, the `try` block with one lookup + `if` + assignment per constructor field (one key - the
variable `field` or a literal -, several keys tried in order, one path, several paths), the tag-key line, the handler, the catch-all
entry / the unknown-key block, the constructor call inside `try / except UnboundLocalError`.  The value expression of a field
(`generate_field_code`, which depends on the field's type) is an *input* of the model: its text is cut out of the generated line and the
names it reads before binding them / surely binds / binds at all are computed here by an evaluation-order-aware walk of its `ast`.

This stream defines seeded v1 classes over everything the skeleton looks at (key case None / CAMEL / PASCAL / KEBAB / SNAKE / AUTO,
`Alias` with one / several names, `AliasPath` with one / several paths, required / defaulted / default_factory fields, a CatchAll field
required at any constructor position / defaulted, `v1_on_unknown_key`, a tag with / without a field called like the tag key,
`_pre_from_dict`, init=False defaults, field names equal to the template's own variables, keys with quotes / braces / backslashes /
newlines), compares the generated body byte for byte, the declared names of every skeleton statement with `ast`, the set of names the
function binds with the compiler's (`symtable`-free: `co_varnames`), runs the function on documents that drive its branches (a
NameError other than the UnboundLocalError the template catches is a violation) and compares the verdict of the model's scoping checker
(theorem `C15_genloadv1_well_scoped`: for every class, provided each value expression reads only `v1` and outside names).
"""
from __future__ import annotations

import ast
import builtins
import dataclasses
import random
import typing

from .. import common as C, gencap
from .c15_genload import names_of_line

BASE = 600000
NAMES = ['a', 'b', 'my_field', 'other_value', 'x1', 'z', 'the_id', 'some_long_name']
HOSTILE = ['o', 'i', 'e', 'v1', 'field', 'fields', 'cls', 'tp', 'f', 'k', 'init_kwargs', 'aliases', 'safe_get', 'MISSING', 're_raise',
           'extra_keys', 'locals', 'len', 'set', 'LOG', 'raise_missing_fields', 'as_int', 'int', 'str', 'v2', 'UnknownKeysError',
           'Exception', 'é']
TEXTS = ['Key', "it's", 'say "hi"', 'a\\b', 'new\nline', '{o}', 'x y', 'é', '#', '__tag__', 'v1', 'k-1']
PATHS = ['a.b', 'c[0]', 'data.inner.x', 'k["x y"]', "q['it\\'s']", 'top', 'a[1].z']
import datetime as _dt
import enum as _enum
import decimal as _decimal


class _Color(_enum.Enum):
    RED = 'r'
    BLUE = 'b'


class _NT(typing.NamedTuple):
    p: int
    q: str = 'x'


class _TD(typing.TypedDict):
    u: int


@dataclasses.dataclass
class _Inner:
    m: int
    n: str = 'z'


TYPES = [('int', int), ('str', str), ('float', float), ('bool', bool), ('list[int]', list[int]), ('Optional[int]', typing.Optional[int]),
         ('dict[str, int]', dict[str, int]), ('Literal', typing.Literal['a', 'b', 3]), ('Union[int, str]', typing.Union[int, str]),
         ('Enum', _Color), ('datetime', _dt.datetime), ('date', _dt.date), ('timedelta', _dt.timedelta), ('Decimal', _decimal.Decimal),
         ('tuple[int, str]', tuple[int, str]), ('tuple[int, ...]', tuple[int, ...]), ('set[int]', set[int]), ('NamedTuple', _NT),
         ('TypedDict', _TD), ('Inner', _Inner), ('list[Inner]', list[_Inner]), ('Optional[list[int]]', typing.Optional[list[int]]),
         ('Union[int, None, str]', typing.Union[int, None, str]), ('Any', typing.Any), ('bytes', bytes)]


def make_case(rng):
    hostile = rng.random() < 0.35
    pool = (HOSTILE if hostile else NAMES)[:]
    rng.shuffle(pool)
    n = rng.choice([0, 1, 1, 2, 3, 4, 5])
    key_case = rng.choice([None, None, 'CAMEL', 'PASCAL', 'KEBAB', 'SNAKE', 'AUTO'])
    unknown = rng.choice([None, None, 'IGNORE', 'RAISE', 'WARN'])
    catch = rng.choice([None, None, 'required', 'dflt'])
    tag = rng.random() < 0.3
    tag_key = rng.choice([None, None, 'kind', "it's"] + (pool[:1] if n else [])) if tag else None
    fields = []
    for name in pool[:n]:
        tname, tp = rng.choice(TYPES)
        dflt = rng.choice(['none', 'none', 'value', 'factory'])
        r = rng.random()
        if r < 0.4:
            decl = ('plain',)
        elif r < 0.6:
            decl = ('alias', [rng.choice(TEXTS)])
        elif r < 0.75:
            decl = ('alias', rng.sample(TEXTS, rng.choice([2, 3])))
        elif r < 0.9:
            decl = ('path', [rng.choice(PATHS)])
        else:
            decl = ('path', rng.sample(PATHS, rng.choice([2, 3])))
        fields.append({'name': name, 'tname': tname, 'tp': tp, 'dflt': dflt, 'decl': decl})
    # dataclasses wants required fields first
    fields.sort(key=lambda f: f['dflt'] != 'none')
    case = {'fields': fields, 'key_case': key_case, 'unknown': unknown, 'catch': catch, 'tag': tag, 'tag_key': tag_key,
            'pre': rng.random() < 0.2, 'noninit': rng.random() < 0.2, 'catch_name': rng.choice(['rest', 'extra_', 'o_rest']),
            'catch_pos': rng.randrange(0, len([f for f in fields if f['dflt'] == 'none']) + 1)}
    return case


def describe(case):
    return {k: ([{kk: vv for kk, vv in f.items() if kk != 'tp'} for f in v] if k == 'fields' else v) for k, v in case.items()
            if k not in ('captured', 'cls', 'run_errors', 'vin')}      # (a nested-class case carries its root's description)


def build_class(case, idx, seed):
    from dataclass_wizard import JSONWizard, CatchAll
    from dataclass_wizard.v1 import Alias, AliasPath
    ns = {'JSONWizard': JSONWizard, 'dataclass': dataclasses.dataclass, 'CatchAll': CatchAll}
    cname = f'Gv{seed}_{idx}'
    lines = ['@dataclass', f'class {cname}(JSONWizard):', '    class _(JSONWizard.Meta):', '        v1 = True']
    if case['key_case'] is not None:
        lines.append(f'        v1_key_case = {case["key_case"]!r}')
    if case['unknown'] is not None:
        lines.append(f'        v1_on_unknown_key = {case["unknown"]!r}')
    if case['tag']:
        lines.append("        tag = 'T'")
        if case['tag_key'] is not None:
            ns['TAGKEY'] = case['tag_key']
            lines.append('        tag_key = TAGKEY')
    if case['pre']:
        ns['PRE'] = staticmethod(lambda o: o)
        lines.append('    _pre_from_dict = PRE')
    decls = []
    # a nested class of its own per case: the loader of a shared one would be configured by whichever root reached it first
    inner = dataclasses.make_dataclass('_Inner', [('m', int), ('n', str, dataclasses.field(default='z'))])
    for i, f in enumerate(case['fields']):
        ns[f'T{i}'] = {'Inner': inner, 'list[Inner]': list[inner]}.get(f['tname'], f['tp'])
        kw = {}
        base = {'int': 3, 'str': 'd', 'float': 1.5, 'bool': True}.get(f['tname'])
        if f['dflt'] == 'value':
            kw['default'] = base
        elif f['dflt'] == 'factory':
            kw['default_factory'] = {'int': int, 'str': str, 'float': float, 'bool': bool, 'list[int]': list, 'dict[str, int]': dict,
                                     'set[int]': set, 'bytes': bytes}.get(f['tname'], list)
        kind = f['decl'][0]
        if kind == 'plain':
            if not kw:
                decls.append((f['dflt'] != 'none', f'    {f["name"]}: T{i}'))
                continue
            ns[f'F{i}'] = dataclasses.field(**kw)
        elif kind == 'alias':
            ns[f'F{i}'] = Alias(*f['decl'][1], **kw)
        else:
            ns[f'F{i}'] = AliasPath(*f['decl'][1], **kw)
        decls.append((f['dflt'] != 'none', f'    {f["name"]}: T{i} = F{i}'))
    req = [d for has, d in decls if not has]
    opt = [d for has, d in decls if has]
    if case['catch'] == 'required':
        req.insert(min(case['catch_pos'], len(req)), f'    {case["catch_name"]}: CatchAll')
    elif case['catch'] == 'dflt':
        opt.append(f'    {case["catch_name"]}: CatchAll = None')
    if case['noninit']:
        ns['NI'] = dataclasses.field(init=False, default=7)
        opt.append('    ni_: int = NI')
    lines += req + opt
    if not (req or opt):
        lines.append('    pass')
    exec(compile('\n'.join(lines) + '\n', '<genloadv1>', 'exec', dont_inherit=True), ns)
    return ns[cname]


def vin_of(case):
    """the inputs of the skeleton, from the declarations (key transforms through the library's own helpers, which the generator calls)"""
    from dataclass_wizard.v1.enums import KeyCase
    from dataclass_wizard.utils.string_conv import possible_json_keys
    from dataclass_wizard.utils.object_path import split_object_path
    kc = case['key_case']
    out = []
    for f in case['fields']:
        kind = f['decl'][0]
        has_default = f['dflt'] != 'none'
        if kind == 'alias':
            names = f['decl'][1]
            lk = {'kind': 'assign', 'key': names[0]} if len(names) == 1 else {'kind': 'anyOf', 'keys': list(names)}
        elif kind == 'path':
            paths = [list(split_object_path(p)) for p in f['decl'][1]]
            lk = {'kind': 'pathAssign', 'path': paths[0]} if len(paths) == 1 else {'kind': 'pathAnyOf', 'paths': paths}
        elif kc is None:
            lk = {'kind': 'assign', 'key': None}
        elif kc == 'AUTO':
            lk = {'kind': 'anyOf', 'keys': [None] + list(possible_json_keys(f['name']))}
        else:
            lk = {'kind': 'assign', 'key': KeyCase[kc](f['name'])}
        out.append({'name': f['name'], 'hasDefault': has_default, 'lookup': lk})
    names = [f['name'] for f in case['fields']] + ([case['catch_name']] if case['catch'] else []) + (['ni_'] if case['noninit'] else [])
    init_names = [n for n in names if n != 'ni_']
    tag_key = (case['tag_key'] if case['tag_key'] is not None else '__tag__') if case['tag'] else None
    expect_tag = case['tag'] and tag_key not in init_names
    catch = None
    if case['catch'] == 'required':
        nreq = len([f for f in case['fields'] if f['dflt'] == 'none'])
        catch = [case['catch_name'], min(case['catch_pos'], nreq)]
    elif case['catch'] == 'dflt':
        catch = [case['catch_name']]
    unknown = {'RAISE': 'raise', 'WARN': 'warn'}.get(case['unknown'])
    return {'preFromDict': case['pre'], 'otherDefaults': bool(case['noninit']), 'catchAll': catch, 'unknown': unknown,
            'tagKey': tag_key if expect_tag else None, 'fields': out}


def expr_names(src):
    """evaluation-order-aware reading of an expression: (names read before they are bound, names surely bound, all names bound)"""
    tree = ast.parse(src.strip(), mode='eval').body
    reads, binds = [], set()

    def seq(nodes, bound, comp):
        for n in nodes:
            bound = ev(n, bound, comp)
        return bound

    def cond(node, bound, comp):
        """(what is surely bound when the test came out true, when it came out false)"""
        if isinstance(node, ast.BoolOp):
            is_and = isinstance(node.op, ast.And)
            t, f = cond(node.values[0], bound, comp)
            for v in node.values[1:]:
                if is_and:         # evaluated only when everything before was true
                    t2, f2 = cond(v, t, comp)
                    t, f = t2, f & f2
                else:              # evaluated only when everything before was false
                    t2, f2 = cond(v, f, comp)
                    t, f = t & t2, f2
            return t, f
        if isinstance(node, ast.UnaryOp) and isinstance(node.op, ast.Not):
            t, f = cond(node.operand, bound, comp)
            return f, t
        b = ev(node, bound, comp)
        return b, b

    def ev(node, bound, comp):
        if node is None:
            return bound
        if isinstance(node, ast.Name):
            if isinstance(node.ctx, ast.Load) and node.id not in bound and node.id not in comp and node.id not in reads:
                reads.append(node.id)
            return bound
        if isinstance(node, ast.NamedExpr):
            b = ev(node.value, bound, comp)
            binds.add(node.target.id)
            return b | {node.target.id}
        if isinstance(node, ast.IfExp):
            bt, bf = cond(node.test, bound, comp)
            return ev(node.body, bt, comp) & ev(node.orelse, bf, comp)
        if isinstance(node, ast.BoolOp):
            b_first = ev(node.values[0], bound, comp)
            b = b_first
            for v in node.values[1:]:
                b = ev(v, b, comp)
            return b_first
        if isinstance(node, ast.Compare):
            b = ev(node.left, bound, comp)
            b = ev(node.comparators[0], b, comp)
            rest = b
            for c in node.comparators[1:]:
                rest = ev(c, rest, comp)
            return b
        if isinstance(node, (ast.ListComp, ast.SetComp, ast.GeneratorExp, ast.DictComp)):
            b = ev(node.generators[0].iter, bound, comp)
            comp2 = set(comp)
            inner = b
            for gi, gen in enumerate(node.generators):
                if gi:
                    inner = ev(gen.iter, inner, comp2)
                comp2 |= {n.id for n in ast.walk(gen.target) if isinstance(n, ast.Name)}
                for c_if in gen.ifs:
                    inner = ev(c_if, inner, comp2)
            if isinstance(node, ast.DictComp):
                inner = ev(node.key, inner, comp2)
                ev(node.value, inner, comp2)
            else:
                ev(node.elt, inner, comp2)
            return b
        if isinstance(node, ast.Lambda):
            args = {a.arg for a in node.args.args + node.args.kwonlyargs}
            ev(node.body, bound, comp | args)
            return bound
        return seq(list(ast.iter_child_nodes(node)), bound, comp)

    sure = ev(tree, frozenset(), frozenset())
    return reads, sorted(sure), sorted(binds)


def cut_exprs(code, vin):
    """the value expression of each constructor field, cut out of the generated body (the line after the field's `if`)"""
    lines = code.split('\n')
    out = []
    pos = 0
    pre = 'i+=1; ' if (vin['catchAll'] or vin['unknown']) else ''
    for f in vin['fields']:
        target = 'init_kwargs[field]' if f['hasDefault'] else f'__{f["name"]}__v'
        head = f'      {pre}{target} = '
        marker = f'field={f["name"]!r}'
        found = None
        while pos < len(lines):
            if lines[pos].strip().startswith(marker):
                break
            pos += 1
        j = pos + 1
        while j < len(lines):
            if lines[j].startswith(head):
                found = lines[j][len(head):]
                break
            j += 1
        if found is None:
            return None
        out.append(found)
        pos = j + 1
    return out


def documents(case, rng):
    base = {}
    for f in case['fields']:
        base[f['name']] = rng.choice([1, '2', None, [1], {'a': 1}])
        if f['decl'][0] == 'alias':
            base[f['decl'][1][-1]] = rng.choice([1, 'x'])
    docs = [{}, None, [1], base, dict(base, unknown_key=1), {k.upper() if isinstance(k, str) else k: v for k, v in base.items()},
            {'a': {'b': 1, 'q': 2}, 'c': [5], 'top': 3, 'data': {'inner': {'x': 1}}, 'k': {'x y': 2}, 'q': {"it's": 3}}]
    if case['tag']:
        docs.append(dict(base, **{case['tag_key'] or '__tag__': 'T'}))
    return docs


def model_names(stmts, expr_texts):
    out = []
    for s in stmts:
        if s['kind'] == 'line':
            row = []
            for p in s['parts']:
                if any(p['text'].endswith(' = ' + e) for e in expr_texts):
                    row.append('expr')
                else:
                    row.append((sorted(set(p['reads'])), sorted(set(p['writes']))))
            out.append(row)
        elif s['kind'] == 'exit':
            out.append([(sorted(set(s['reads'])), [])])
        else:
            out.append([(sorted(set(s['reads'])), sorted(set(s.get('writes', []))))])
    return out


def source_names(code, expr_texts):
    """per logical line (a condition spread over several physical lines is one line) the names of each simple statement"""
    logical, buf = [], None
    for line in code.split('\n'):
        if buf is not None:
            buf += ' ' + line.strip()
            if line.rstrip().endswith('):'):
                logical.append(buf)
                buf = None
            continue
        if line.strip().startswith('if (') and not line.rstrip().endswith(':'):
            buf = line
            continue
        logical.append(line)
    out = []
    for line in logical:
        st = line.strip()
        if st.startswith('if '):
            tree = ast.parse(st + '\n  pass').body[0].test
            loads = {n.id for n in ast.walk(tree) if isinstance(n, ast.Name) and isinstance(n.ctx, ast.Load)}
            stores = {n.id for n in ast.walk(tree) if isinstance(n, ast.Name) and isinstance(n.ctx, ast.Store)}
            out.append([(sorted(loads), sorted(stores))])
            continue
        if st == 'try:':
            continue
        if st.startswith('except'):
            rest = st[len('except'):].rstrip(':').strip()
            name, _, alias = rest.partition(' as ')
            out.append([([name.strip()], [alias.strip()] if alias.strip() else [])])
            continue
        row = []
        tree = ast.parse('def _f():\n ' + st)
        for node in tree.body[0].body:
            seg = ast.get_source_segment('def _f():\n ' + st, node) or ''
            if any(seg.endswith(' = ' + e) for e in expr_texts):
                row.append('expr')
                continue
            comp = set()
            for sub in ast.walk(node):
                if isinstance(sub, (ast.ListComp, ast.SetComp, ast.GeneratorExp, ast.DictComp)):
                    for gen in sub.generators:
                        comp |= {n.id for n in ast.walk(gen.target) if isinstance(n, ast.Name)}
            loads = {n.id for n in ast.walk(node) if isinstance(n, ast.Name) and isinstance(n.ctx, ast.Load)} - comp
            stores = {n.id for n in ast.walk(node) if isinstance(n, ast.Name) and isinstance(n.ctx, ast.Store)} - comp
            if isinstance(node, ast.AugAssign) and isinstance(node.target, ast.Name):
                loads.add(node.target.id)          # `i+=1` reads `i`
            row.append((sorted(loads), sorted(stores)))
        out.append(row)
    return out


def run_genloadv1(ctx: C.Ctx):
    if ctx.only is not None and not (BASE <= ctx.only < BASE + 100000):
        return
    ctx.trusted += ['generator model DW/Model/GenLoadV1.lean (skeleton of the v1 load function): the value expression of each field is an '
                    'input cut out of the generated line, its names computed by an evaluation-order-aware ast walk (harness); skeleton '
                    'statements carry their text and declared names (compared with ast); tied to the code byte for byte']
    rng = random.Random(f'C15gv:{ctx.seed}')
    n_cases = ctx.quick(300, 4000)
    cap = gencap.Capture()
    cases, reqs = [], []
    bi = sorted(n for n in dir(builtins) if not n.startswith('_'))
    with cap.on():
        for i in range(n_cases):
            case = make_case(rng)
            seed_i = rng.random()
            idx = BASE + i
            if ctx.only is not None and idx != ctx.only:
                continue
            case['index'] = idx
            n0 = len(cap.batches)
            errs = []
            try:
                cls = build_class(case, i, ctx.seed)
            except (SyntaxError, NameError) as e:
                errs.append(f'class definition: {type(e).__name__}: {e}')
                cls = None
            except Exception as e:     # noqa
                ctx.count('genloadv1:class-not-built')
                del cap.batches[n0:]
                continue
            if cls is not None:
                for doc in documents(case, random.Random(seed_i)):
                    try:
                        cls.from_dict(doc)
                    except (NameError, SyntaxError) as e:
                        errs.append(f'{type(e).__name__}: {e}')
                    except Exception:    # noqa
                        pass
            fn_name = f'__dataclass_wizard_from_dict_{cls.__name__}__' if cls is not None else None
            fns = [b for b in cap.batches[n0:] if fn_name in b['functions']]
            del cap.batches[n0:]
            case['captured'] = fns[0] if fns else None
            case['fn_name'] = fn_name
            case['run_errors'] = sorted(set(errs))[:3]
            try:
                vin = vin_of(case)
            except Exception as e:     # noqa
                ctx.count('genloadv1:inputs-not-derived')
                continue
            if case['captured'] is not None:
                f = case['captured']['functions'][fn_name]
                exprs = cut_exprs(f['code'], vin)
                if exprs is None:
                    case['cut_failed'] = True
                    exprs = ['v1'] * len(vin['fields'])
                for fld, e in zip(vin['fields'], exprs):
                    try:
                        r, w, b = expr_names(e)
                    except SyntaxError:
                        r, w, b = ['v1'], [], []
                    fld.update(expr=e, exprReads=r, exprWrites=w, exprBinds=b)
                outer = sorted(set(f.get('locals_ordered') or []) | set(case['captured']['globals']) | set(case['captured']['functions']) | set(bi))
            else:
                for fld in vin['fields']:
                    fld.update(expr='v1', exprReads=['v1'], exprWrites=[], exprBinds=[])
                outer = bi
            case['vin'] = vin
            cases.append(case)
            texts = [case.get('tag_key') or ''] + [x for fl in case['fields'] for x in ([fl['name']] + (fl['decl'][1] if len(fl['decl']) > 1 else []))]
            nonp = sorted({ord(ch) for tx in texts for ch in tx if ord(ch) >= 127 and not ch.isprintable()})
            reqs.append({'op': 'genloadv1', 'nonprintable': nonp, 'vin': vin, 'outer': outer})
            # the loader of the nested class `_Inner`, generated into the same batch under the root's Meta: the same skeleton
            inner_fn = '__dataclass_wizard_from_dict__Inner__'
            if case['captured'] is not None and inner_fn in case['captured']['functions']:
                sub = {'fields': [{'name': 'm', 'tname': 'int', 'tp': int, 'dflt': 'none', 'decl': ('plain',)},
                                  {'name': 'n', 'tname': 'str', 'tp': str, 'dflt': 'value', 'decl': ('plain',)}],
                       'key_case': case['key_case'], 'unknown': case['unknown'], 'catch': None, 'tag': False, 'tag_key': None,
                       'pre': False, 'noninit': False, 'catch_name': 'rest', 'catch_pos': 0, 'index': idx, 'nested_of': describe(case),
                       'captured': case['captured'], 'fn_name': inner_fn, 'run_errors': []}
                vin2 = vin_of(sub)
                f2 = case['captured']['functions'][inner_fn]
                exprs2 = cut_exprs(f2['code'], vin2) or ['v1'] * 2
                for fld, e in zip(vin2['fields'], exprs2):
                    try:
                        r, w, b = expr_names(e)
                    except SyntaxError:
                        r, w, b = ['v1'], [], []
                    fld.update(expr=e, exprReads=r, exprWrites=w, exprBinds=b)
                outer2 = sorted(set(f2.get('locals_ordered') or []) | set(case['captured']['globals']) | set(case['captured']['functions']) | set(bi))
                sub['vin'] = vin2
                cases.append(sub)
                reqs.append({'op': 'genloadv1', 'nonprintable': [], 'vin': vin2, 'outer': outer2})
    outs = ctx.driver.run(reqs) if ctx.model_available else [None] * len(reqs)
    for case, out in zip(cases, outs):
        ctx.current = case['index']
        d = describe(case)
        vin = case['vin']
        kinds = sorted({f['lookup']['kind'] for f in vin['fields']})
        feats = ('nested+' if case.get('nested_of') else '') + '+'.join([k for k, on in (('pre', vin['preFromDict']), ('catch', bool(vin['catchAll'])), ('unknown', bool(vin['unknown'])),
                                          ('tag', bool(vin['tagKey'])), ('nofields', not vin['fields'])) if on] + kinds) or 'plain'
        ctx.seen('genloadv1:' + feats, d)
        bad = case['run_errors']
        capd = case['captured']
        if bad:
            ctx.fail('genloadv1:run', d, 'the generated v1 loader does not compile or refers to a name it does not bind: ' + '; '.join(bad)[:300],
                     detail={'code': capd['functions'][case['fn_name']]['code'] if capd else None})
        if capd is None:
            ctx.count('genloadv1:not-captured')
            continue
        f = capd['functions'][case['fn_name']]
        probs = gencap.scope_report(case['fn_name'], f, capd['globals'], set(capd['functions']))[0]
        if probs and not bad:
            ctx.fail('genloadv1:scope', d, 'generated v1 loader: ' + '; '.join(probs)[:300], detail={'code': f['code']})
        if out is None:
            continue
        if 'err' in out:
            ctx.agree('genloadv1', d, {'code': f['code']}, {'driver-error': out['err']})
            continue
        r = out['r']
        if not ctx.agree('genloadv1:text', d, {'code': f['code'], 'args': list(f['args'])}, {'code': r['code'], 'args': ['o']}):
            continue
        exprs = [fl['expr'] for fl in vin['fields']]
        ctx.agree('genloadv1:names', d, source_names(f['code'], exprs), model_names(r['stmts'], exprs))
        # what the function binds: the compiler's view against the model's
        try:
            ns = {}
            exec(compile('def _f(o):\n' + f['code'], '<v1>', 'exec', dont_inherit=True), ns)
            co = ns['_f'].__code__
            compiler_locals = sorted(set(co.co_varnames) | set(co.co_cellvars))
        except SyntaxError:
            compiler_locals = None
        comp_vars = set()
        if compiler_locals is not None:
            for node in ast.walk(ast.parse('def _f(o):\n' + f['code'])):
                if isinstance(node, (ast.ListComp, ast.SetComp, ast.GeneratorExp, ast.DictComp)):
                    for gen in node.generators:
                        comp_vars |= {n.id for n in ast.walk(gen.target) if isinstance(n, ast.Name)}
            mdl_locals = sorted(set(['o'] + r['binds']))
            ctx.agree('genloadv1:locals', d, sorted(set(compiler_locals) - (comp_vars - set(mdl_locals))), mdl_locals)
        ok = not bad and not probs
        ctx.agree('genloadv1:verdict', d, {'wellScoped': ok}, {'wellScoped': r['wellScoped']})
        # the premises of C15_genloadv1_well_scoped_inputs hold for what the library generated (theorem C15_genloadv1_premises_sound)
        ctx.agree('genloadv1:premises', d, {'premises': ok}, {'premises': r['premises']})
    ctx.notes['genloadv1_cases'] = len(cases)
