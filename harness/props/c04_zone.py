"""C04, two further input dimensions, on the three engines.

(1) THE LOCAL TIME ZONE OF THE PROCESS.  An epoch number denotes an instant; what it is loaded as must not depend on
    where the process runs, except where the documentation says "builtin fromtimestamp" for a type that has no zone:
      * default engine / EnvWizard, `datetime`: the aware UTC datetime of that instant (type_conv.as_datetime docstring,
        README example `created_at=datetime(2010, 6, 10, 15, 50, tzinfo=timezone.utc)`, property text "(UTC)");
      * `date` (all engines): docs/overview.rst "de-serialized using the builtin fromtimestamp method" -
        date.fromtimestamp is the *local* calendar day of the instant.  The reference derives it from C localtime(),
        not from the datetime module.  (That a `datetime` is the UTC instant while a `date` is the local day of the same
        number is recorded in findings/date-epoch-local-day.md of the helper that added this stream; the oracle follows
        the documentation.)
      * v1, `datetime`: the README v1 notes do not fix the zone (DESIGN §7); the zone-agnostic part is checked: the
        result denotes the given instant (aware: equal to it; naive: local wall-clock time of it, the builtin's reading).
      * ISO strings (all engines, all three temporal types) never depend on the zone.
    Cases run under rotating POSIX rule strings (no tz database needed), `os.environ['TZ']` + `time.tzset()`, always
    restored; a start-up probe makes sure the switch has an effect.  The Std tables of the Lean model are built inside
    the zone, so the correspondence covers the same cases.

(2) USER SUBCLASSES OF LEAF TYPES as annotations (`class Stamp(datetime): ...`).  The conversion of an annotated
    subclass is the documented conversion of its base type (same value, same zone), and for datetime / date / time /
    Decimal the result is an instance of exactly the annotated class.  Numeric and string inputs, every nesting context
    of the engine.  (timedelta / str / int subclasses: value and base type only - the library returns plain base
    instances there, see the code comment at SUB_EXACT.)

A case = (engine, leaf kind, subclass?, input, nesting context, zone); every case has its own RNG derived from
(seed, engine, j), so a replay regenerates just that case.
"""
from __future__ import annotations

import contextlib
import copy
import datetime as dt
import decimal
import json
import os
import random
import time

from harness import model
from harness.model import T

ZONE_BASE = 600000
ZONE_V1_BASE = 610000
ZONE_ENV_BASE = 620000

UTC = dt.timezone.utc
EPOCH0 = dt.datetime(1970, 1, 1, tzinfo=UTC)

# POSIX rule strings; every DST switch is at 02:00 / 03:00 local time
TZS = ['EST5EDT,M3.2.0,M11.1.0', 'IST-5:30', 'NZST-12NZDT,M9.5.0,M4.1.0/3', 'CET-1CEST,M3.5.0,M10.5.0/3', 'HST10',
       'LINT-14', '<-03>3', 'NST3:30NDT,M3.2.0,M11.1.0', 'XXX+9:30']


@contextlib.contextmanager
def local_tz(tz):
    """run the block with the process's local time zone set to `tz` (None: leave it alone); always restored"""
    if tz is None:
        yield
        return
    old = os.environ.get('TZ')
    os.environ['TZ'] = tz
    time.tzset()
    try:
        yield
    finally:
        if old is None:
            os.environ.pop('TZ', None)
        else:
            os.environ['TZ'] = old
        time.tzset()


def probe_tz(ctx):
    """the zone switch must really take effect, or the dimension silently disappears"""
    offs = []
    for tz in TZS:
        with local_tz(tz):
            offs.append(time.localtime(1_600_000_000).tm_gmtoff)
    with local_tz(None):
        here = time.localtime(1_600_000_000).tm_gmtoff
    ctx.notes['c04_tz_offsets_s'] = dict(zip(TZS, offs))
    if len(set(offs)) < len(TZS) - 1 or all(o == here for o in offs):
        raise RuntimeError(f'time.tzset() has no effect here: {offs}')
    if time.localtime(1_600_000_000).tm_gmtoff != here:
        raise RuntimeError('the local time zone was not restored')


# instants around the DST switches of the zones above (2024), besides c04.EPOCHS and random ones
EDGES = [1710053999, 1710054000, 1730611800, 1730613600, 1730615400, 1727531999, 1727532000, 1712411999, 1712412000,
         1711846799, 1711846800, 1729990800, 1700000000, 1720000000, 951782400, 43200, -43200, 1e9, 1234567890.75]

# bases whose annotated subclass the library instantiates itself (Sub.fromisoformat / Sub.fromtimestamp / Sub(str(o))):
# the result is of exactly the annotated class.  For the other bases the unchanged library returns plain base instances
# for some inputs (timedelta subclass: always a plain timedelta; str / int subclass: '' / 0 of the plain type for None
# and ''), so only value and base type are judged there.
SUB_EXACT = ('datetime', 'date', 'time', 'decimal')
SUB_LOOSE = ('timedelta', 'str', 'int')
PY_BASE = {'datetime': dt.datetime, 'date': dt.date, 'time': dt.time, 'decimal': decimal.Decimal, 'timedelta': dt.timedelta,
           'str': str, 'int': int}

KINDS = ['datetime'] * 5 + ['date'] * 3 + ['time'] * 2 + ['decimal', 'timedelta', 'str', 'int']


def rand_epoch(rng, nonneg=False):
    r = rng.random()
    if r < 0.3:
        v = rng.choice(EDGES)
    elif r < 0.5:
        v = None        # filled from c04.EPOCHS by the caller
    else:
        v = rng.randint(-2 ** 31, 2 ** 32)
        if rng.random() < 0.3:
            v += rng.choice([0.25, 0.5, 0.75])      # exact in binary and in microseconds
    if nonneg and v is not None and v < 0:
        v = -v
    return v


def pick_input(rng, c04, eng, tk, engine):
    """an input of the documented domain of tk (for the temporal kinds: an epoch number more often than a string)"""
    if tk in ('datetime', 'date'):
        if rng.random() < 0.65:
            v = rand_epoch(rng, nonneg=(engine == 'env'))
            if v is None:
                v = rng.choice([x for x in c04.EPOCHS if engine != 'env' or x >= 0])
            if engine == 'env' and rng.random() < 0.6:
                s = repr(v) if isinstance(v, float) else str(v)
                return s if 'e' not in s else str(int(v))
            return v
        return rng.choice(c04.ISO_DT if tk == 'datetime' else c04.ISO_D)
    if tk == 'time':
        return rng.choice(c04.ISO_T)
    pool = eng.env_inputs(c04)[tk] if engine == 'env' and rng.random() < 0.7 else [x for x in c04.INPUTS[tk] if not c04._nonjson(x)]
    return rng.choice(pool)


def zone_ref(c04, eng, tk, v, engine):
    """documented result of loading v at (a subclass of) tk; KeyError('out-of-domain') where nothing is documented"""
    num = type(v) in (int, float)
    if engine == 'env' and isinstance(v, str) and tk in ('date', 'datetime') and eng.NUMERIC_RE.match(v):
        v, num = float(v), True          # docs/env_magic.rst: a string in numeric form is an epoch timestamp
    if num and tk == 'datetime':
        inst = EPOCH0 + dt.timedelta(seconds=v)
        return ('instant', inst) if engine == 'v1' else inst
    if num and tk == 'date':
        return c04.local_day(v)
    if engine == 'env':
        return eng.env_ref(c04, tk, v)
    return c04.ref_coerce(tk, v, engine)


def leaf_ok(g, exp, tk, want, exact, eng):
    """is the loaded leaf g the documented value exp, as an instance of `want` (exactly, or as a subclass instance)"""
    if exp == ('none',):
        return g is None
    if isinstance(exp, tuple) and exp and exp[0] == 'instant':
        if type(g) is not want:
            return False
        try:
            if g.tzinfo is not None:
                return g == exp[1]
            # a naive value is local wall-clock time; in the repeated hour after a DST end either reading counts
            # (CPython's fromtimestamp does not carry `fold` over to instances of a datetime subclass)
            return any(g.replace(fold=f).astimezone(UTC) == exp[1] for f in (0, 1))
        except (OverflowError, ValueError, OSError):
            return False
    if exact:
        if type(g) is not want:
            return False
    elif not isinstance(g, want) or (type(exp) is not bool and type(g) is bool):
        return False
    if tk == 'datetime':
        return (g.tzinfo is None) == (exp.tzinfo is None) and g == exp and g.utcoffset() == exp.utcoffset()
    if tk == 'time':
        return ((g.hour, g.minute, g.second, g.microsecond) == (exp.hour, exp.minute, exp.second, exp.microsecond)
                and (g.tzinfo is None) == (exp.tzinfo is None) and g.utcoffset() == exp.utcoffset())
    if tk == 'date':
        return not isinstance(g, dt.datetime) and (g.year, g.month, g.day) == (exp.year, exp.month, exp.day)
    if tk == 'decimal':
        return str(g) == str(exp)
    return g == exp


class Leaf:
    """the leaf annotation of a case: a stdlib type or a user subclass of it"""

    def __init__(self, rng, tk):
        self.tk = tk
        self.sub = rng.random() < (0.45 if tk in SUB_EXACT else 0.8)
        if tk not in SUB_EXACT and not self.sub:
            self.sub = True             # the plain str / int / timedelta positions are the main streams' business
        self.name = model.fresh('Sub') if self.sub else None
        self.ty = T('sub', base=tk, name=self.name) if self.sub else T(tk)

    def want(self, built):
        if self.sub and self.tk in SUB_EXACT:
            return built.get(self.name), True
        return PY_BASE[self.tk], not self.sub


def _judge(ctx, kind, case, out, exp, leaves_of, leaf, built, eng, src, key=None):
    if exp == ('reject',):
        if out[0] == 'ok':
            ctx.fail(kind, case, f'documented as rejected, but loaded {out[1]!r}', key=key, detail=src)
        return
    if out[0] == 'err':
        ctx.fail(kind, case, f'documented conversion to {exp!r}, but the load raised {type(out[1]).__name__}: {str(out[1])[:200]}', key=key, detail=src)
        return
    want, exact = leaf.want(built)
    try:
        leaves = leaves_of(out[1])
    except eng.LengthMismatch as e:
        ctx.fail(kind, case, f'{e.args[0]} element(s) loaded where {e.args[1]} were given', key=key, detail=src)
        return
    for g in leaves:
        if not leaf_ok(g, exp, leaf.tk, want, exact, eng):
            shown = f'the instant {exp[1]!r}' if isinstance(exp, tuple) and exp and exp[0] == 'instant' else repr(exp)
            ctx.fail(kind, case, f'loaded {g!r} ({type(g).__name__}); documented result {shown}'
                     + (f' as an instance of exactly {want.__name__}' if exact else f' as an instance of {want.__name__}'), key=key, detail=src)
            return


def _case_rng(ctx, engine, j):
    return random.Random(f'C04:{ctx.seed}:zone:{engine}:{j}')


def _zone(rng):
    return rng.choice(TZS) if rng.random() < 0.75 else None


def run_default(ctx, c04, eng):
    from dataclass_wizard import fromdict
    from harness.props.c01 import compare_load, load_outcome
    n = ctx.quick(260, 4000)
    reqs, pend = [], []
    for j in range(n):
        i = ZONE_BASE + j
        if ctx.done(i):
            break
        if ctx.only is not None and ctx.only != i:
            continue
        rng = _case_rng(ctx, 'default', j)
        tk = rng.choice(KINDS)
        leaf = Leaf(rng, tk)
        v = pick_input(rng, c04, eng, tk, 'default')
        ck = rng.choice(c04.CONTEXTS)
        tz = _zone(rng)
        ty = {'k': 'cls', 'info': {'name': model.fresh('C'), 'fields': [{'name': 'fld'}], 'wizard': False, 'meta': None},
              'ftys': [['fld', c04.wrap_ty(ck, leaf.ty, rng)]]}
        if not ctx.begin_case(i):
            continue
        doc = {'fld': c04.wrap_doc(ck, v)}
        case = {'engine': 'default', 'type': tk, 'subclass': leaf.sub, 'input': repr(v), 'context': ck, 'tz': tz}
        with local_tz(tz):
            built = model.Built(ty)
            try:
                ctx.seen('zone:default', case)
                out = load_outcome(lambda: fromdict(built.root, copy.deepcopy(doc)))
                try:
                    exp = ('none',) if (ck == 'optional' and v is None) else zone_ref(c04, eng, tk, v, 'default')
                except KeyError:
                    exp = None
                    ctx.count('out_of_domain:zone')
                if exp is not None:
                    _judge(ctx, 'zone:default', case, out, exp, lambda y: c04.unwrap(ck, y.fld), leaf, built, eng, dict(src=built.source))
                if not leaf.sub:
                    st = model.StdTables()
                    st.add_json(doc)
                    reqs.append({'op': 'load', 'ty': model.enc_ty(ty), 'doc': model.enc_j(doc), 'std': st.build()})
                    pend.append((case, out, built))
            finally:
                built.close()
    if ctx.model_available:
        outs = ctx.driver.run(reqs)
        for (case, out, built), o in zip(pend, outs):
            compare_load(ctx, 'zone:default', case, out, o, built)


def run_v1(ctx, c04, eng):
    from dataclass_wizard import fromdict
    from harness.props.c02 import compare_load
    from harness.props.c01 import load_outcome
    n = ctx.quick(200, 4000)
    names = list(eng.V1_CONTEXTS)
    reqs, pend = [], []
    for j in range(n):
        i = ZONE_V1_BASE + j
        if ctx.done(i):
            break
        if ctx.only is not None and ctx.only != i:
            continue
        rng = _case_rng(ctx, 'v1', j)
        tk = rng.choice(KINDS)
        leaf = Leaf(rng, tk)
        v = pick_input(rng, c04, eng, tk, 'v1')
        ck = rng.choice(names)
        mk_ty, mk_doc, unwrap, flags = eng.V1_CONTEXTS[ck]
        if 'str_only' in flags and not isinstance(v, str):
            ck = 'bare'
            mk_ty, mk_doc, unwrap, flags = eng.V1_CONTEXTS[ck]
        tz = _zone(rng)
        ty = eng.v1_class(mk_ty(leaf.ty))
        if not ctx.begin_case(i):
            continue
        doc = {'fld': mk_doc(v)}
        case = {'engine': 'v1', 'type': tk, 'subclass': leaf.sub, 'input': repr(v), 'context': ck, 'tz': tz}
        with local_tz(tz):
            built = model.Built(ty)
            try:
                ctx.seen('zone:v1', case)
                out = load_outcome(lambda: fromdict(built.root, copy.deepcopy(doc)))
                try:
                    exp = ('none',) if (v is None and 'none_stays' in flags) else zone_ref(c04, eng, tk, v, 'v1')
                except KeyError:
                    exp = None
                    ctx.count('out_of_domain:zone')
                if exp is not None:
                    _judge(ctx, 'zone:v1', case, out, exp, lambda y: unwrap(y.fld), leaf, built, eng, dict(src=built.source))
                if not leaf.sub:
                    st = model.StdTables()
                    st.add_json(doc)
                    reqs.append({'op': 'loadv1', 'ty': model.enc_ty(ty), 'doc': model.enc_j(doc), 'std': st.build()})
                    pend.append((case, out, built))
            finally:
                built.close()
    if ctx.model_available:
        outs = ctx.driver.run(reqs)
        for (case, out, built), o in zip(pend, outs):
            compare_load(ctx, 'zone:v1', case, out, o, built)


def run_env(ctx, c04, eng):
    n = ctx.quick(240, 4000)
    lim = eng._Limited(ctx)
    reqs, pend = [], []
    for j in range(n):
        i = ZONE_ENV_BASE + j
        if ctx.done(i):
            break
        if ctx.only is not None and ctx.only != i:
            continue
        rng = _case_rng(ctx, 'env', j)
        tk = rng.choice(KINDS)
        leaf = Leaf(rng, tk)
        v = pick_input(rng, c04, eng, tk, 'env')
        if isinstance(v, str):
            ok = [ck for ck, (_, _, _, fl) in eng.ENV_CONTEXTS.items()
                  if not ('short' in fl and (not eng._shorthand_ok(v, 'key' in fl) or ('json' in fl and v != v.strip())))]
        else:
            ok = [ck for ck, (_, _, _, fl) in eng.ENV_CONTEXTS.items() if 'json' in fl and 'key' not in fl and 'short' not in fl]
        ck = rng.choice(ok)
        mk_ty, mk_val, unwrap, flags = eng.ENV_CONTEXTS[ck]
        tz = _zone(rng)
        fty = mk_ty(leaf.ty)
        value = mk_val(v)
        if not ctx.begin_case(i):
            continue
        if '\x00' in value:
            continue
        case = {'engine': 'env', 'type': tk, 'subclass': leaf.sub, 'input': repr(v), 'context': ck, 'value': value, 'tz': tz}
        with local_tz(tz):
            eb = eng.EnvBuilt(fty)
            try:
                ctx.seen('zone:env', case)
                env_before = dict(os.environ)
                out = eb.load(value)
                if dict(os.environ) != env_before:
                    ctx.fail('zone:env', case, 'os.environ differs after the instantiation')
                eff = v.strip() if ('short' in flags and isinstance(v, str)) else v
                key = eng.KEY_TUPLE_LEN if ('tuple' in flags and eng._tuple_len_defect(ck, value, fty)) else None
                try:
                    exp = zone_ref(c04, eng, tk, eff, 'env')
                except KeyError:
                    exp = None
                    ctx.count('out_of_domain:zone')
                if exp is not None:
                    _judge(lim, 'zone:env', case, out, exp, unwrap, leaf, eb.built, eng, dict(src=eb.source), key=key)
                if not leaf.sub:
                    reqs.append({'op': 'c04', 'fn': 'load', 'ty': model.enc_ty(fty), 'val': value, 'std': eng.env_std(value)})
                    pend.append((case, out, eb.built))
            finally:
                eb.close()
    if ctx.model_available:
        outs = ctx.driver.run(reqs)
        for (case, out, built), o in zip(pend, outs):
            eng.compare_env(ctx, 'zone:env', case, out, o, built)


def run(ctx, c04, eng):
    if not hasattr(time, 'tzset'):
        raise RuntimeError('time.tzset() is not available: the local-time-zone dimension of C04 cannot run')
    probe_tz(ctx)
    run_default(ctx, c04, eng)
    run_v1(ctx, c04, eng)
    run_env(ctx, c04, eng)
