"""C05 — load returns a conforming instance or raises; it never mutates its input."""
from __future__ import annotations

import collections
import copy
import dataclasses
import datetime as dt
import decimal
import enum
import json
import math
import pathlib
import uuid

from harness import common as C
from harness import gen, model, ref
from harness.props.c01 import compare_load, load_outcome


def conforms(y, t, built):
    """is y a value of annotated type t (exact container type, element types, Literal by value and type, ...)"""
    k = t['k']
    a = t.get('a', [])
    if k == 'any':
        return True
    if k == 'none':
        return y is None
    simple = {'int': int, 'float': float, 'str': str, 'bool': bool, 'date': dt.date, 'datetime': dt.datetime,
              'time': dt.time, 'timedelta': dt.timedelta, 'uuid': uuid.UUID, 'decimal': decimal.Decimal,
              'bytes': bytes, 'bytearray': bytearray}
    if k in simple:
        return type(y) is simple[k]
    if k == 'path':
        return isinstance(y, pathlib.PurePath)
    if k == 'enum':
        return isinstance(y, built.get(t['name']))
    if k == 'sub':
        # a user-defined subclass of a stdlib leaf type: exactly that class (a plain base instance does not conform)
        return type(y) is built.get(t['name'])
    if k == 'annpat':
        return conforms(y, a[0], built)
    if k == 'literal':
        return any(type(y) is type(v) and y == v for v in t['vs'])
    if k == 'optional':
        return y is None or conforms(y, a[0], built)
    if k == 'union':
        return any(conforms(y, m, built) for m in a)
    if k in ('list', 'set', 'frozenset', 'deque'):
        want = {'list': list, 'set': set, 'frozenset': frozenset, 'deque': collections.deque}[k]
        return type(y) is want and all(conforms(e, a[0], built) for e in y)
    if k == 'vtuple':
        return type(y) is tuple and all(conforms(e, a[0], built) for e in y)
    if k == 'tuple':
        return type(y) is tuple and len(y) == len(a) and all(conforms(e, m, built) for e, m in zip(y, a))
    if k in ('dict', 'defaultdict', 'ordereddict'):
        want = {'dict': dict, 'defaultdict': collections.defaultdict, 'ordereddict': collections.OrderedDict}[k]
        return type(y) is want and all(conforms(kk, a[0], built) and conforms(vv, a[1], built) for kk, vv in y.items())
    if k == 'namedtuple':
        NT = built.get(t['name'])
        return type(y) is NT and all(conforms(e, ft, built) for e, (_, ft, _d) in zip(y, t['fields']))
    if k == 'typeddict':
        if type(y) is not dict:
            return False
        spec = {n: (ft, req) for n, ft, req in t['fields']}
        if any(kk not in spec for kk in y):
            return False
        if any(req and n not in y for n, (ft, req) in spec.items()):
            return False
        return all(conforms(vv, spec[kk][0], built) for kk, vv in y.items())
    if k == 'cls':
        Cl = built.get(t['info']['name'])
        if type(y) is not Cl:
            return False
        ftys = dict((n, ft) for n, ft in t['ftys'])
        for f in t['info']['fields']:
            if not hasattr(y, f['name']):
                return False
            if f.get('catch_all'):
                if not isinstance(getattr(y, f['name']), dict):
                    return False
                continue
            if not conforms(getattr(y, f['name']), ftys[f['name']], built):
                return False
        return True
    raise ValueError(k)


def strict_eq(a, b):
    """deep equality that distinguishes types and treats NaN as equal to itself"""
    if type(a) is not type(b):
        return False
    if isinstance(a, float):
        return a == b or (a != a and b != b)
    if isinstance(a, dict):
        return list(a.keys()) == list(b.keys()) and all(strict_eq(a[k], b[k]) for k in a)
    if isinstance(a, (list, tuple)):
        return len(a) == len(b) and all(strict_eq(x, y) for x, y in zip(a, b))
    return a == b


def plain_doc(x, t, built):
    """a well-typed document for instance x: field names as keys, JSON-representable values (the dump side is not involved)"""
    enc = ref.RefEncoder(built.infos)

    def go(v, ty):
        k = ty['k']
        if k == 'cls':
            ftys = dict((n, ft) for n, ft in ty['ftys'])
            out = {}
            for f in ty['info']['fields']:
                if not f.get('init', True):
                    continue
                out[f['name']] = go(getattr(v, f['name']), ftys[f['name']])
            eff = model.own_meta(ty['info']) or {}
            if eff.get('tag'):
                out[eff.get('tag_key') or '__tag__'] = eff['tag']
            return out
        if dataclasses.is_dataclass(v) and not isinstance(v, type):
            node = built.infos[type(v).__name__]
            return go(v, node)
        if isinstance(v, tuple) and hasattr(v, '_fields'):
            node_fields = ty['fields'] if k == 'namedtuple' else None
            return [go(e, node_fields[i][1] if node_fields else {'k': 'any'}) for i, e in enumerate(v)]
        if isinstance(v, dict):
            if k == 'typeddict':
                spec = {n: ft for n, ft, _r in ty['fields']}
                return {kk: go(vv, spec[kk]) for kk, vv in v.items()}
            kt, vt = (ty['a'] if k in ('dict', 'defaultdict', 'ordereddict') else ({'k': 'any'}, {'k': 'any'}))
            return {_keytext(enc.enc(kk, False, None)): go(vv, vt) for kk, vv in v.items()}
        if isinstance(v, (list, tuple, set, frozenset, collections.deque)):
            if k == 'tuple':
                return [go(e, m) for e, m in zip(v, ty['a'])]
            et = ty['a'][0] if k in ('list', 'set', 'frozenset', 'deque', 'vtuple') else {'k': 'any'}
            return [go(e, et) for e in v]
        if k == 'optional' and v is not None:
            return go(v, ty['a'][0])
        if k == 'union':
            for m in ty['a']:
                try:
                    if conforms(v, m, built):
                        return go(v, m)
                except Exception:
                    pass
        return enc.enc(v, False, None)
    return go(x, t)


def _keytext(k):
    if isinstance(k, str):
        return k
    return json.dumps(k) if not isinstance(k, bool) else str(k)


def positions(doc, path=()):
    yield path
    if isinstance(doc, dict):
        for k, v in doc.items():
            yield from positions(v, path + (k,))
    elif isinstance(doc, list):
        for i, v in enumerate(doc):
            yield from positions(v, path + (i,))


def replace_at(doc, path, junk):
    if not path:
        return junk
    d = copy.deepcopy(doc)
    cur = d
    for p in path[:-1]:
        cur = cur[p]
    cur[path[-1]] = junk
    return d


def run(ctx: C.Ctx):
    from dataclass_wizard import fromdict
    from harness.props import c05_ext
    rng = ctx.rng
    gen.SUBS = False
    c05_ext.OPT_CASES[:] = []
    ctx.rule = ('random class models (as C01, plus NoneType / unions of any members) with a well-typed document in which one '
                'random position (root included) is replaced by junk (null, bools, huge / nan / inf numbers, strings that look like '
                'numbers / dates, wrong container kinds, dicts with a stray tag); fromdict either raises or returns an object accepted '
                'by an independent conforms() checker; the input is deep-compared before/after; outcome also compared with the Lean model. '
                'Non-trivial = distinct (class model, mutated document).')
    n = ctx.quick(1500, 20000)
    reqs, pend = [], []
    o = gen.Opts(meta_keys=['key_transform_with_load', 'raise_on_unknown_json_key', 'tag_key', 'auto_assign_tags'],
                 leaves=gen.LEAVES_DEFAULT + ['none'], meta_prob=0.3)
    for i in range(n):
        if ctx.done(i):
            break
        ty = gen.gen_cls(rng, rng.choice([0, 1, 1, 2, 2, 3]), o)
        try:
            built = model.Built(ty)
        except Exception as e:
            ctx.count('build_error')
            ctx.notes.setdefault('build_errors', []).append(repr(e)[:200])
            continue
        try:
            x = gen.gen_instance(rng, ty, built)
            try:
                doc = plain_doc(x, ty, built)
                doc = json.loads(json.dumps(doc))
            except Exception as e:
                ctx.count('doc_error')
                ctx.notes.setdefault('doc_errors', []).append(repr(e)[:200])
                continue
            pos = list(positions(doc))
            path = rng.choice(pos) if rng.random() < 0.9 else ()
            j = gen.junk(rng)
            if rng.random() < 0.12:
                bad = copy.deepcopy(doc)          # a control: the unmodified well-typed document
                path, j = None, None
            else:
                bad = replace_at(doc, path, copy.deepcopy(j))
            if not ctx.begin_case(i):
                continue
            case = {'ty': ty, 'doc': repr(bad)[:600], 'path': repr(path), 'junk': repr(j)}
            ctx.seen('junk', case)
            before = copy.deepcopy(bad)
            c05_ext.collect(ctx, 'junk', case, ty, before)
            out = load_outcome(lambda: fromdict(built.root, bad))
            src = dict(src=built.source)
            if not strict_eq(bad, before):
                ctx.fail('junk:input-mutated', case, f'fromdict changed its input: before {before!r}, after {bad!r}'[:1500], detail=src)
            if out[0] == 'ok':
                ctx.count('returned')
                try:
                    okc = conforms(out[1], ty, built)
                except Exception as e:
                    okc = False
                if not okc:
                    ctx.fail('junk:nonconforming', case, f'fromdict returned a non-conforming object {out[1]!r}'[:1500],
                             key=_known(out[1], ty, built), detail=src)
            else:
                ctx.count('raised:' + type(out[1]).__name__)
            st = model.StdTables()
            st.add_json(_nonan(bad))
            try:
                reqs.append({'op': 'load', 'ty': model.enc_ty(ty), 'doc': model.enc_j(bad), 'std': st.build()})
                pend.append((case, out, built))
            except TypeError:
                ctx.count('not_encodable')
        finally:
            built.close()
    near_miss(ctx, n, reqs, pend)
    if ctx.model_available:
        outs = ctx.driver.run(reqs)
        for (case, out, built), o_ in zip(pend, outs):
            compare_load(ctx, 'junk', case, out, o_, built)
    # further streams (Enum families, extended grammar, patterned positions, v1 engine): own index ranges and generators
    import sys
    from harness.props import c05_ext
    c05_ext.run(ctx, sys.modules[__name__])
    ctx.rule += ' || ' + c05_ext.RULE


ELEM_POOL = [('int', 7), ('str', 'a'), ('any', [1]), ('float', 2.5), ('bool', True), ('opt', None), ('optstr', 'q')]


def near_miss(ctx, base_index, reqs, pend):
    """inputs that are *almost* right: wrong arity, a Literal member's value under another type,
    falsy values of a non-member type in a Union, wrong container kind."""
    from dataclass_wizard import fromdict
    from harness.model import T
    from harness.props import c05_ext
    rng = ctx.rng
    n = ctx.quick(700, 8000)
    for j in range(n):
        i = base_index + j
        if ctx.done(i):
            break
        kind = rng.choice(['tuple', 'tuple', 'literal', 'literal', 'union', 'union', 'namedtuple', 'container'])
        if kind == 'tuple':
            elems = [rng.choice(ELEM_POOL) for _ in range(rng.randint(1, 4))]
            ft = T('tuple', *[_elem_ty(e) for e in elems])
            vals = [e[1] for e in elems]
            delta = rng.choice([-2, -1, -1, 1, 0])
            doc = vals[:len(vals) + delta] if delta < 0 else vals + ['x'] * delta
        elif kind == 'literal':
            pool = rng.choice([[True, 7, 'on'], [False, 1, 2], [0, True], [1, 2.5], [12, 'x', None], [7, 3.0], [True, False, 'a']])
            ft = T('literal', vs=pool)
            doc = rng.choice([1, 0, True, False, 7.0, 1.0, 0.0, 2, 3, 12.0, 'on', None, 2.5, 'ON', [], '1'])
        elif kind == 'union':
            ms = rng.sample([T('int'), T('float'), T('str'), T('bool'), T('list', T('int')), T('dict', T('str'), T('int'))], rng.randint(2, 3))
            ft = T('union', *ms)
            doc = rng.choice(['', [], {}, False, 0, 0.0, None, 'x', [1], 5, 2.5, True, {'a': 1}, ['a'], {'a': 'b'}])
        elif kind == 'namedtuple':
            ft = T('namedtuple', name=model.fresh('NT'), fields=[['aa', T('int'), None], ['bb', T('str'), None], ['cc', T('float'), ['lit', 1.5]]])
            doc = rng.choice([[1], [1, 'x'], [1, 'x', 2.0], [1, 'x', 2.0, 9], {'aa': 1}, {'aa': 1, 'bb': 'x', 'zz': 3}, {'aa': 1, 'bb': 'x'}, 'ab', 5, None, []])
        else:
            ft = rng.choice([T('list', T('int')), T('dict', T('str'), T('int')), T('set', T('list', T('int'))), T('set', T('any')),
                             T('dict', T('any'), T('int')), T('frozenset', T('str')), T('deque', T('bool')),
                             T('defaultdict', T('str'), T('list', T('int'))), T('vtuple', T('int'))])
            doc = rng.choice([[1, 2], {'a': 1}, 'ab', [[1], [2]], [{'a': 1}], {'a': [1]}, 5, None, [], {}, [1, True, 1.0], ['1', 1]])
        ty = {'k': 'cls', 'info': {'name': model.fresh('C'), 'fields': [{'name': 'fld'}], 'wizard': False, 'meta': None},
              'ftys': [['fld', ft]]}
        if not ctx.begin_case(i):
            continue
        built = model.Built(ty)
        try:
            bad = {'fld': doc}
            case = {'ty': ty, 'doc': repr(bad), 'near_miss': kind}
            ctx.seen('near-miss:' + kind, case)
            before = copy.deepcopy(bad)
            c05_ext.collect(ctx, 'near-miss', case, ty, before)
            out = load_outcome(lambda: fromdict(built.root, bad))
            src = dict(src=built.source)
            if not strict_eq(bad, before):
                ctx.fail('junk:input-mutated', case, f'fromdict changed its input: before {before!r}, after {bad!r}', detail=src)
            if out[0] == 'ok':
                ctx.count('returned')
                if not conforms(out[1], ty, built):
                    ctx.fail('junk:nonconforming', case, f'fromdict({bad!r}) returned a non-conforming object {out[1]!r}',
                             key=_known(out[1], ty, built), detail=src)
            st = model.StdTables()
            st.add_json(bad)
            reqs.append({'op': 'load', 'ty': model.enc_ty(ty), 'doc': model.enc_j(bad), 'std': st.build()})
            pend.append((case, out, built))
        finally:
            built.close()


def _elem_ty(e):
    from harness.model import T
    if e[0] == 'opt':
        return T('optional', T('int'))
    if e[0] == 'optstr':
        return T('optional', T('str'))
    return T(e[0])


def _nonan(v):
    return v


def _accepts_none(m):
    k = m['k']
    if k == 'optional':
        return True
    if k == 'union':
        return any(x['k'] == 'none' for x in m['a'])
    if k == 'literal':
        return any(v is None for v in m['vs'])
    return False


def _same_shape(v, m):
    k = m['k']
    if k in ('dict', 'defaultdict', 'ordereddict', 'typeddict'):
        return isinstance(v, dict)
    if k in ('list', 'set', 'frozenset', 'deque', 'vtuple', 'tuple'):
        return isinstance(v, (list, set, frozenset, tuple, collections.deque))
    if k == 'cls':
        return dataclasses.is_dataclass(v)
    return False


def _known(y, ty, built):
    """attribute a non-conforming result to a listed known finding, by locating the offending position"""
    bad = []

    def walk(v, t):
        k = t['k']
        a = t.get('a', [])
        try:
            if conforms(v, t, built):
                return
        except Exception:
            pass
        if k == 'none':
            bad.append('none-annotation-identity')
            return
        if k == 'tuple' and type(v) is tuple and len(v) < len(a):
            # the recorded defect: only members that accept None (Optional[..], Union[.., None], Literal[.., None])
            # may be missing; anything shorter than that is a different violation
            required = sum(1 for m in a if not _accepts_none(m))
            if len(v) >= required and all(conforms(e, m, built) for e, m in zip(v, a)):
                bad.append('short-tuple-with-optional')
            else:
                bad.append('other:tuple-arity')
            return
        if k == 'cls' and dataclasses.is_dataclass(v):
            ftys = dict((n, ft) for n, ft in t['ftys'])
            for f in t['info']['fields']:
                if hasattr(v, f['name']) and not f.get('catch_all'):
                    walk(getattr(v, f['name']), ftys[f['name']])
            return
        if k == 'optional' and v is not None:
            walk(v, a[0])
            return
        if k in ('list', 'set', 'frozenset', 'deque', 'vtuple') and isinstance(v, (list, set, frozenset, collections.deque, tuple)):
            for e in v:
                walk(e, a[0])
            return
        if k == 'tuple' and type(v) is tuple:
            for e, m in zip(v, a):
                walk(e, m)
            return
        if k in ('dict', 'defaultdict', 'ordereddict') and isinstance(v, dict):
            for kk, vv in v.items():
                walk(kk, a[0])
                walk(vv, a[1])
            return
        if k == 'namedtuple' and isinstance(v, tuple):
            for e, (_, ft, _d) in zip(v, t['fields']):
                walk(e, ft)
            return
        if k == 'typeddict' and isinstance(v, dict):
            spec = {n: ft for n, ft, _r in t['fields']}
            for kk, vv in v.items():
                if kk in spec:
                    walk(vv, spec[kk])
            return
        if k == 'union':
            if v is None:
                bad.append('union-none-passthrough')
                return
            same = [m for m in a if _same_shape(v, m)]
            if dataclasses.is_dataclass(v):
                # an instance names its member exactly
                same = [m for m in a if m['k'] == 'cls' and m['info']['name'] == type(v).__name__]
            if len(same) == 1:
                walk(v, same[0])
                return
            bad.append('union-member')
            return
        bad.append('other:' + k)
    walk(y, ty)
    kinds = set(bad)
    if len(kinds) == 1 and not next(iter(kinds)).startswith('other') and next(iter(kinds)) != 'union-member':
        return next(iter(kinds))
    return None
