"""C15 (and C11): the generator of `cls_asdict` as *text*.

The Lean model `DW/Model/GenDump.lean` writes the source of the function `dumpers.dump_func_for_dataclass` generates for a class: the
parameter list, the body, and the ordered key list of the closure mapping.  This stream builds seeded dataclasses over every
feature that generator looks at (field order, defaults, aliases with `all=True`, `dump=False`, JSON paths, CatchAll with / without
default, per-field SkipIf conditions, Meta.skip_if / skip_defaults_if / skip_defaults, tag / tag_key text, `_pre_dict`, key transform,
load-before-dump), captures what the library generates (`FunctionBuilder.create_functions`), and compares byte for byte.  The names the
real function reads / binds (Python's `symtable`) are compared with the model's, and the function is then *run* on instances through
every branch of its bookkeeping (exclude given or not, skip_defaults on or off): a NameError / UnboundLocalError is a violation of
"refers only to names it binds".  The model's own verdict (`wellScoped`, the executable side of theorem `C15_gendump_well_scoped`) is
compared with that outcome.
"""
from __future__ import annotations

import dataclasses
import enum
import random
import math

from .. import common as C, gencap, ref

ADV = ["it's", 'say "hi"', 'a\\b', 'new\nline', '{o}', 'tab\there', '', ' ', 'é', 'ключ', '\x00', '\x7f', '​', '𝔘', "'", '"', "'\"",
       '__tag__', 'result', '%s', '\\', "\\'", 'x' * 40]
IDENTS = ['a', 'b', 'my_field', 'other_value', 'x1', 'some_long_name', 'z', 'the_id']
# field names the template's own variables use: harmless only because fields are spliced as attributes / literals
HOSTILE_IDENTS = ['result', 'paths', 'o', 'k', 'v', 'exclude', 'skip_defaults', 'dict_factory', 'config', 'asdict', 'hooks',
                  'cls_to_asdict', 'NestedDict', '_skip_0', '_skip_1', '_default_0', '_default_1', '_skip_if_0', '_skip_value',
                  '_skip_defaults_value', '__pre_dict__', 'items', 'append', 'update', 'é', 'ключ', 'Ünï', 'None_', 'dict', 'not_']
OPS = ['==', '!=', '<', '<=', '>', '>=', 'is', 'is not', '+', '!']


class _Color(enum.Enum):
    RED = 1


class _MyInt(int):
    pass


class _MyStr(str):
    pass


def cond_value(rng):
    """-> (kind, json value, python value)"""
    r = rng.random()
    if r < 0.10:
        return 'none', None, None
    if r < 0.17:
        return 'true', None, True
    if r < 0.24:
        return 'false', None, False
    if r < 0.28:
        return 'ellipsis', None, ...
    if r < 0.48:
        i = rng.choice([0, 1, -1, 5, -17, 10 ** 6, 2 ** 70, -2 ** 65, rng.randrange(-1000, 1000)])
        return 'int', i, i
    if r < 0.72:
        s = rng.choice(ADV + IDENTS)
        return 'str', s, s
    other = rng.choice([1.5, float('nan'), float('inf'), -0.0, [], [1], {}, (1, 2), b'x', _Color.RED, _MyInt(3), _MyStr('s'),
                        object(), frozenset(), 1j, dataclasses.MISSING])
    return 'other', None, other


def make_cond(rng):
    from dataclass_wizard.models import Condition
    op = rng.choice(OPS)
    kind, jv, pv = cond_value(rng)
    if op in '+!':
        kind, jv, pv = 'none', None, None
    d = {'op': op, 'kind': kind}
    if kind in ('int', 'str'):
        d['v'] = jv
    return d, Condition(op, pv)


def path_spec(rng):
    """-> (path text, parts as the generator splices them)"""
    parts, text = [], ''
    for j in range(rng.randint(1, 4)):
        r = rng.random()
        if r < 0.55 or j == 0:
            w = rng.choice(['a', 'b', 'key', 'inner', 'x_y', 'data'])
            text += ('.' if text else '') + w
            parts.append(w)
        elif r < 0.75:
            n = rng.choice([0, 1, 2, 10, -1])
            text += f'[{n}]'
            parts.append(n)
        elif r < 0.9:
            w = rng.choice(['x y', 'a.b', 'é', 'k-1', '#'])
            q = rng.choice('\'"')
            text += f'[{q}{w}{q}]'
            parts.append(w)
        else:
            b = rng.choice([True, False])
            text += '[true]' if b else '[false]'
            parts.append(b)
    return text, parts


def make_case(rng):
    from dataclass_wizard import json_field, path_field, skip_if_field, SkipIf, CatchAll
    from typing import Annotated
    n = rng.choice([0, 1, 1, 2, 3, 3, 4, 5, 6, 8, 12])
    transform = rng.choice(['CAMEL', 'PASCAL', 'LISP', 'SNAKE', 'NONE', None])
    hostile = rng.random() < 0.35
    if hostile:
        transform = 'NONE'
    pool = (HOSTILE_IDENTS if hostile else IDENTS)[:]
    rng.shuffle(pool)
    names = pool[:n]
    while len(names) < n:
        names.append(f'f_{len(names)}')
    n_required = rng.randint(0, n) if rng.random() < 0.5 else 0
    catch_all_at = rng.randrange(n) if n and rng.random() < 0.35 else None
    meta = {}
    gin = {'fields': []}
    if transform is not None:
        meta['key_transform'] = transform
    if rng.random() < 0.3:
        meta['skip_defaults'] = rng.random() < 0.8
        gin['skipDefaults'] = meta['skip_defaults']
    if rng.random() < 0.35:
        gin['skipIf'], meta['skip_if'] = make_cond(rng)
    if rng.random() < 0.35:
        gin['skipDefaultsIf'], meta['skip_defaults_if'] = make_cond(rng)
    if rng.random() < 0.3:
        meta['tag'] = gin['tag'] = rng.choice(ADV + ['T'])
    if rng.random() < 0.3:
        tk = rng.choice([a for a in ADV if a] + ['kind'])
        meta['tag_key'] = gin['tagKey'] = tk
    pre_dict = rng.random() < 0.15
    gin['preDict'] = pre_dict
    load_first = rng.random() < 0.2
    specs, any_path_decl = [], False
    key_fn = ref.KEY_FUNCS[transform or 'CAMEL']
    for i, name in enumerate(names):
        has_default = i >= n_required
        g = {'name': name, 'hasDefault': has_default}
        dflt = rng.choice([0, 1, None, 'd', 2.5]) if has_default else dataclasses.MISSING
        kw = {} if dflt is dataclasses.MISSING else {'default': dflt}
        tp = int
        if i == catch_all_at:
            tp = CatchAll
            if has_default:
                if rng.random() < 0.5:
                    fld = dataclasses.field(default=None)
                else:
                    fld = dataclasses.field(default_factory=dict)
            else:
                fld = dataclasses.field()
            g['key'] = None
            g['isCatchAll'] = True
            specs.append((name, tp, fld))
            gin['fields'].append(g)
            continue
        r = rng.random()
        if r < 0.30:
            fld = dataclasses.field(**kw)
            g['key'] = key_fn(name)
        elif r < 0.45:
            alias = rng.choice(ADV + ['Alias', 'other'])
            if alias == '':
                alias = 'E'            # an empty alias means "this field has a path" to the generator: not an alias
            fld = json_field(alias, all=True, **kw)
            g['key'] = alias
        elif r < 0.52:
            fld = json_field(rng.choice(ADV[:6] + ['Alias']), **kw)          # load-only alias
            g['key'] = key_fn(name)
        elif r < 0.62:
            fld = json_field(rng.choice(['A', 'b']), dump=False, **kw)
            g['key'] = None
        elif r < 0.77:
            text, parts = path_spec(rng)
            dump = rng.random() < 0.8
            fld = path_field(text, dump=dump, **kw)
            any_path_decl = True
            g['key'] = parts if dump else None
        elif r < 0.90:
            cj, cond = make_cond(rng)
            if has_default or rng.random() < 0.5:
                fld = skip_if_field(cond, **kw)
            else:
                fld = dataclasses.field()
                tp = Annotated[int, SkipIf(cond)]
            g['skipIf'] = cj
            g['key'] = key_fn(name)
        else:
            cj, cond = make_cond(rng)
            tp = Annotated[int, SkipIf(cond)]
            fld = dataclasses.field(**kw)
            g['skipIf'] = cj
            g['key'] = key_fn(name)
        specs.append((name, tp, fld))
        gin['fields'].append(g)
    gin['extraPaths'] = bool(load_first and any_path_decl)
    return {'specs': specs, 'meta': meta, 'gin': gin, 'pre_dict': pre_dict, 'load_first': load_first, 'names': names}


def nonprintable_of(case):
    texts = [str(case['gin'].get('tag') or ''), str(case['gin'].get('tagKey') or '')]
    for g in case['gin']['fields']:
        texts.append(g['name'])
        k = g.get('key')
        if isinstance(k, str):
            texts.append(k)
        elif isinstance(k, list):
            texts += [p for p in k if isinstance(p, str)]
        c = g.get('skipIf')
        if c and c.get('kind') == 'str':
            texts.append(c['v'])
    for c in (case['gin'].get('skipIf'), case['gin'].get('skipDefaultsIf')):
        if c and c.get('kind') == 'str':
            texts.append(c['v'])
    return sorted({ord(ch) for t in texts for ch in t if ord(ch) >= 127 and not ch.isprintable()})


def describe(case):
    """JSON-able description for replays"""
    return {'gin': case['gin'], 'meta': {k: repr(v) if k in ('skip_if', 'skip_defaults_if') else v for k, v in case['meta'].items()},
            'fields': [(n, getattr(t, '__name__', repr(t)), repr(f)[:120]) for n, t, f in case['specs']],
            'load_first': case['load_first'], 'pre_dict': case['pre_dict']}


def build_class(case, idx, seed):
    from dataclass_wizard import DumpMeta
    ns = {}
    if case['pre_dict']:
        ns['_pre_dict'] = lambda self: None
    cls = dataclasses.make_dataclass(f'Gd{seed}_{idx}', case['specs'], namespace=ns)
    if case['meta']:
        DumpMeta(**case['meta']).bind_to(cls)
    return cls


def instances(cls, case, rng):
    """instances that drive the generated function through its branches"""
    out = []
    vals = [0, 1, 5, -3]
    for _ in range(3):
        kw = {}
        for name, tp, fld in case['specs']:
            from dataclass_wizard import CatchAll
            if tp is CatchAll:
                kw[name] = rng.choice([{}, {'u1': 1, 'u2': 'x'}, None]) if (fld.default is None) else rng.choice([{}, {'u1': 1}])
            elif fld.default is dataclasses.MISSING and fld.default_factory is dataclasses.MISSING or rng.random() < 0.5:
                kw[name] = rng.choice(vals)
        try:
            out.append(cls(**kw))
        except Exception:       # noqa
            pass
    return out


def run_gendump(ctx: C.Ctx):
    from dataclass_wizard import asdict, fromdict
    if ctx.only is not None and ctx.only < 100000:
        return
    ctx.trusted += ['generator model DW/Model/GenDump.lean: the printer of the statement forms and the definite-assignment checker are a '
                    'reading of Python (three-layer block grammar; a name assigned anywhere in the body is local); tied to the code by '
                    'byte-for-byte comparison of parameter list, body text and ordered closure keys, and by symtable on the real source']
    rng = random.Random(f'C15gd:{ctx.seed}')
    n_cases = ctx.quick(400, 6000)
    cap = gencap.Capture()
    cases, reqs = [], []
    with cap.on():
        for i in range(n_cases):
            case = make_case(rng)
            case['index'] = i
            case['irng'] = rng.random()
            if ctx.only is not None and 100000 + i != ctx.only:
                continue
            try:
                cls = build_class(case, i, ctx.seed)
            except Exception as e:     # noqa  (an invalid class definition is not the generator's business)
                ctx.count('gendump:class-not-built')
                continue
            n0 = len(cap.batches)
            if case['load_first']:
                try:
                    fromdict(cls, {})
                except Exception:   # noqa
                    pass
                del cap.batches[n0:]
            insts = instances(cls, case, random.Random(case['irng']))
            err = None
            try:
                if insts:
                    asdict(insts[0])
                else:
                    from dataclass_wizard.dumpers import dump_func_for_dataclass
                    dump_func_for_dataclass(cls)
            except (NameError, SyntaxError) as e:
                err = f'{type(e).__name__}: {e}'
            except Exception as e:     # noqa  (a comparison that raises is C11's business)
                pass
            fns = [b for b in cap.batches[n0:] if 'cls_asdict' in b['functions']]
            del cap.batches[n0:]
            case['gen_error'] = err
            case['captured'] = fns[0] if fns else None
            # run every branch of the bookkeeping
            run_errs = []
            names = case['names']
            for o in insts:
                for kwargs in ({}, {'exclude': []}, {'exclude': names[:1]}, {'skip_defaults': True}, {'skip_defaults': False},
                               {'exclude': names, 'skip_defaults': True}):
                    try:
                        asdict(o, **kwargs)
                    except (NameError, SyntaxError) as e:       # UnboundLocalError is a NameError
                        run_errs.append(f'{type(e).__name__}: {e} (asdict(.., {kwargs}))')
                    except Exception:   # noqa
                        pass
            case['run_errors'] = sorted(set(run_errs))[:4]
            cases.append(case)
            reqs.append({'op': 'gendump', 'nonprintable': nonprintable_of(case), 'gin': case['gin']})
    outs = ctx.driver.run(reqs) if ctx.model_available else [None] * len(reqs)
    for case, out in zip(cases, outs):
        i = case['index']
        ctx.current = 100000 + i
        d = describe(case)
        feats = sorted({('catchall' if g.get('isCatchAll') else 'path' if isinstance(g.get('key'), list) else 'null' if g.get('key') is None
                         else 'skipif' if g.get('skipIf') else 'key') for g in case['gin']['fields']})
        ctx.seen('gendump:' + '+'.join(feats or ['empty']), d)
        capd = case['captured']
        if capd is None:
            if case['gen_error']:
                ctx.fail('gendump:generate', d, f'generating / first run of cls_asdict failed: {case["gen_error"]}')
            else:
                ctx.count('gendump:not-captured')
            continue
        f = capd['functions']['cls_asdict']
        bad = case['run_errors'] or ([case['gen_error']] if case['gen_error'] else [])
        probs, bound, referenced = gencap.scope_report('cls_asdict', f, capd['globals'], set(capd['functions']))
        if bad:
            ctx.fail('gendump:run', d, 'the generated cls_asdict refers to a name it does not bind: ' + '; '.join(bad),
                     detail={'code': f['code'], 'locals': f.get('locals_ordered')})
        elif probs:
            ctx.fail('gendump:scope', d, 'generated cls_asdict: ' + '; '.join(probs)[:300], detail={'code': f['code']})
        if out is None:
            continue
        if 'err' in out:
            ctx.agree('gendump', d, {'code': f['code']}, {'driver-error': out['err']})
            continue
        r = out['r']
        impl = {'args': f['args'], 'code': f['code'], 'locals': f.get('locals_ordered') or f['locals']}
        mdl = {'args': r['args'], 'code': r['code'], 'locals': r['locals'] if f.get('locals_ordered') else sorted(r['locals'])}
        if not ctx.agree('gendump:text', d, impl, mdl):
            continue
        params = {'o', 'dict_factory', 'exclude', 'skip_defaults'}
        ctx.agree('gendump:names', d, {'reads': sorted(referenced), 'writes': sorted(bound - params)},
                  {'reads': sorted(r['reads']), 'writes': sorted(set(r['writes']))})
        # the model's verdict about scoping vs what running the function showed
        ctx.agree('gendump:verdict', d, {'wellScoped': not bad and not probs}, {'wellScoped': r['wellScoped']})
    ctx.notes['gendump_cases'] = len(cases)
