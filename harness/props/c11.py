"""C11 — dump omits exactly the fields selected by skip rules, exclude and dump=False."""
from __future__ import annotations

import enum
import itertools
import json
import math

from harness import common as C
from harness import gen, model, ref
from harness.model import T


class Obj:
    """an arbitrary comparison object (ordered by its key; identity-comparable)"""

    def __init__(self, k):
        self.k = k

    def __eq__(self, other):
        return isinstance(other, Obj) and other.k == self.k

    def __lt__(self, other):
        if not isinstance(other, Obj):
            return NotImplemented
        return self.k < other.k

    def __le__(self, other):
        if not isinstance(other, Obj):
            return NotImplemented
        return self.k <= other.k

    def __gt__(self, other):
        if not isinstance(other, Obj):
            return NotImplemented
        return self.k > other.k

    def __ge__(self, other):
        if not isinstance(other, Obj):
            return NotImplemented
        return self.k >= other.k

    __hash__ = None

    def __repr__(self):
        return f'Obj({self.k})'


class Col(enum.Enum):
    RED = 1
    BLUE = 'b'


class IE(enum.IntEnum):
    ZERO = 0
    ONE = 1


OPS = ['==', '!=', '<', '<=', '>', '>=', 'is', 'is not', '+', '!']
BUILDER = {'==': 'EQ', '!=': 'NE', '<': 'LT', '<=': 'LE', '>': 'GT', '>=': 'GE', 'is': 'IS', 'is not': 'IS_NOT', '+': 'IS_TRUTHY', '!': 'IS_FALSY'}

# comparison values: (python expression evaluated in the class module, literal encoding for the Lean model or None)
VALS = [
    ('None', None, True), ('True', True, True), ('False', False, True), ('0', 0, True), ('1', 1, True), ('-1', -1, True), ('5', 5, True),
    ('2.5', 2.5, True), ('-0.5', -0.5, True), ("''", '', True), ("'x'", 'x', True), ("'abc'", 'abc', True),
    ("float('nan')", float('nan'), True), ("float('inf')", float('inf'), True), ("float('-inf')", float('-inf'), True),
    ('[]', [], False), ('[1, 2]', [1, 2], False), ('{}', {}, False), ("{'a': 1}", {'a': 1}, False), ('()', (), False), ('(1, 2)', (1, 2), False),
    ('Col.RED', Col.RED, False), ('IE.ONE', IE.ONE, False), ('IE.ZERO', IE.ZERO, False), ('OBJ', None, False), ('10 ** 30', 10 ** 30, True),
    ("'a' * 40", 'a' * 40, True), ('tuple(range(8))', tuple(range(8)), False), ('1000', 1000, True),
]
OBJ = Obj(3)

FIELD_VALUES = [None, True, False, 0, 1, -1, 5, 2.5, -0.5, '', 'x', 'abc', float('nan'), float('inf'), [], [1, 2], {}, {'a': 1}, (), (1, 2),
                Col.RED, IE.ONE, OBJ, Obj(3), Obj(9), 10 ** 30, 'a' * 40, tuple(range(8)), 1000, 7.0]


def py_eval(c, v):
    """Condition.evaluate semantics via the real Condition object (the runtime reference named by the property)"""
    return c.evaluate(v)


SRC_EXTRA = '''
from harness.props.c11 import Obj, Col, IE, OBJ, VALS as _VALS
CV = {e: eval(e) for e, _v, _l in _VALS}
'''


def is_lit(v):
    return v is None or type(v) in (bool, int, float, str)


def run(ctx: C.Ctx):
    from dataclass_wizard import asdict
    rng = ctx.rng
    gen.SUBS = False
    ctx.rule = ('classes of 2..4 fields (plain / defaulted / SkipIf per field / Annotated SkipIf / dump=False) × Meta over '
                '{skip_defaults, skip_if, skip_defaults_if} × every exclude subset × skip_defaults argument in {unset, True, False} × '
                'conditions over all ten operators and comparison values None/bool/int/float incl. nan ±inf/str/list/dict/tuple/Enum/'
                'IntEnum/objects/long values × field values of all those kinds: key set vs the reference computed with Condition.evaluate '
                '(TypeError of an unorderable comparison must be a TypeError both ways), and vs the Lean model when every value is a literal. '
                'Non-trivial = distinct (class, instance, exclude, skip_defaults).')
    ncls = ctx.quick(160, 2500)
    reqs, pend = [], []
    idx = 0
    from dataclass_wizard.models import Condition
    for ci in range(ncls):
        nf = rng.randint(2, 4)
        fields, ftys = [], []
        conds = {}        # field -> (op, expr, value)
        meta_src = []
        meta_conds = {}
        all_lit = True
        mode = rng.choice(['field', 'meta', 'both', 'defaults_if', 'plain'])
        for j in range(nf):
            name = f'fld{j}_val'
            f = {'name': name}
            if rng.random() < 0.6:
                f['dflt_expr'] = rng.choice(['None', '0', '5', "'x'", '2.5', "''", 'True'])
            if rng.random() < 0.12:
                f['dump_skip'] = True
            elif 'dflt_expr' in f and rng.random() < 0.15:
                f['noinit'] = True
            if mode in ('field', 'both') and rng.random() < 0.6 and not f.get('noinit'):
                conds[name] = pick_cond(rng)
                f['ann'] = rng.random() < 0.4
            fields.append(f)
        if mode in ('meta', 'both') and rng.random() < 0.9:
            meta_conds['skip_if'] = pick_cond(rng)
        if mode == 'defaults_if':
            meta_conds['skip_defaults_if'] = pick_cond(rng)
        meta_sd = rng.choice([None, None, True, False])
        cname = model.fresh('C')
        src = render(cname, fields, conds, meta_conds, meta_sd)
        try:
            built = model.Built(T('any'), extra_src=SRC_EXTRA + src)
        except Exception as e:
            ctx.count('build_error')
            ctx.notes.setdefault('build_errors', []).append(repr(e)[:300] + src[:300])
            continue
        try:
            Cls = built.get(cname)
            # fields with a default must come after those without: render() orders them; recompute order
            order = [f for f in fields if 'dflt_expr' not in f] + [f for f in fields if 'dflt_expr' in f]
            names = [f['name'] for f in order]
            for inst_i in range(ctx.quick(2, 3)):
                vals = {}
                for f in order:
                    if 'dflt_expr' in f and rng.random() < 0.35:
                        vals[f['name']] = eval(f['dflt_expr'])
                    elif rng.random() < 0.4 and (conds or meta_conds):
                        # the very comparison object of one of this class's conditions (equality / identity boundary)
                        cc = rng.choice(list(conds.values()) + list(meta_conds.values()))
                        vals[f['name']] = built.get('CV')[cc[1]] if cc[1] is not None else rng.choice(FIELD_VALUES)
                    elif rng.random() < 0.15:
                        vals[f['name']] = rng.choice(list(built.get('CV').values()))
                    else:
                        vals[f['name']] = rng.choice(FIELD_VALUES)
                x = Cls(**{k_: v_ for k_, v_ in vals.items() if not next(f for f in order if f['name'] == k_).get('noinit')})
                for f in order:
                    if f.get('noinit'):
                        if rng.random() < 0.5:
                            setattr(x, f['name'], vals[f['name']])
                        else:
                            vals[f['name']] = getattr(x, f['name'])
                subsets = [None] + [list(s) for r in range(len(names) + 1) for s in itertools.combinations(names, r)]
                if ctx.tier == 'quick':
                    subsets = [None] + rng.sample(subsets[1:], min(5, len(subsets) - 1))
                for E in subsets:
                    for sd in ([None, True, False] if ctx.tier != 'quick' else [rng.choice([None, True, False])]):
                        i = idx
                        idx += 1
                        if ctx.done(i):
                            break
                        if not ctx.begin_case(i):
                            continue
                        case = {'src': src, 'values': repr(vals), 'exclude': E, 'skip_defaults': sd}
                        ctx.seen('skip', case)
                        kw = {}
                        if E is not None:
                            kw['exclude'] = E
                        if sd is not None:
                            kw['skip_defaults'] = sd
                        try:
                            got = ('ok', list(asdict(x, **kw).keys()))
                        except Exception as e:
                            got = ('err', type(e).__name__, str(e)[:200])
                        CV = built.get('CV')
                        exps = [reference(order, conds, meta_conds, meta_sd, vals, E, sd, CV, eager) for eager in (False, True)]
                        # a comparison that raises TypeError on a field that is dropped anyway may or may not be evaluated:
                        # both readings of the statement are accepted
                        okk = False
                        for exp in exps:
                            if exp[0] == 'err':
                                okk = okk or (got[0] == 'err' and got[1] == 'TypeError')
                            else:
                                okk = okk or (got[0] == 'ok' and got[1] == exp[1])
                        if not okk:
                            ctx.fail('skip', case, f'asdict gave {got!r}; reference selection {exps[0]!r} (lazy) / {exps[1]!r} (eager)')
        finally:
            built.close()
        if ctx.done(idx):
            break
    # ---- model correspondence on literal-only class models
    literal_stream(ctx, idx, reqs, pend)
    if ctx.model_available:
        outs = ctx.driver.run(reqs)
        for (case, impl), o in zip(pend, outs):
            if 'err' in o and 'r' not in o:
                ctx.agree('skip:model', case, impl, {'driver_error': o['err']})
                continue
            r = o['r']
            if model.has_miss(r):
                ctx.count('std_miss')
                continue
            if 'ok' in r:
                m = {'ok': [kv[0] for kv in r['ok'][2]]}
            else:
                m = {'err': 'TypeError' if r['err'] == ['raw', 'TypeError'] else r['err']}
            ctx.agree('skip:model', case, impl, m)


def pick_cond(rng):
    op = rng.choice(OPS)
    if op in '+!':
        return (op, None, None)
    expr, val, _ = rng.choice(VALS)
    if expr == 'OBJ':
        val = OBJ
    return (op, expr, val)


def cond_expr(c):
    op, expr, _ = c
    if op in '+!':
        return f'{BUILDER[op]}()'
    return f'{BUILDER[op]}(CV[{expr!r}])'


def render(cname, fields, conds, meta_conds, meta_sd):
    lines = ['@dataclass', f'class {cname}(JSONWizard):', '    class _(JSONWizard.Meta):', "        key_transform_with_dump = 'NONE'"]
    if meta_sd is not None:
        lines.append(f'        skip_defaults = {meta_sd}')
    for k, c in meta_conds.items():
        lines.append(f'        {k} = {cond_expr(c)}')
    order = [f for f in fields if 'dflt_expr' not in f] + [f for f in fields if 'dflt_expr' in f]
    for f in order:
        name = f['name']
        d = f.get('dflt_expr')
        c = conds.get(name)
        if f.get('dump_skip'):
            rhs = f"json_field({name!r}, dump=False" + (f', default={d})' if d is not None else ')')
            lines.append(f'    {name}: Any = {rhs}')
        elif c is not None and f.get('ann'):
            lines.append(f'    {name}: Annotated[Any, SkipIf({cond_expr(c)})]' + (f' = {d}' if d is not None else ''))
        elif c is not None:
            lines.append(f'    {name}: Any = skip_if_field({cond_expr(c)}' + (f', default={d})' if d is not None else ')'))
        elif f.get('noinit'):
            lines.append(f'    {name}: Any = field(init=False, default={d})')
        else:
            lines.append(f'    {name}: Any' + (f' = {d}' if d is not None else ''))
    return '\n'.join(lines) + '\n'


def reference(order, conds, meta_conds, meta_sd, vals, E, sd, CV, eager):
    """key set per the property statement, conditions evaluated by Condition.evaluate on the very comparison
    objects the class was declared with"""
    from dataclass_wizard.models import Condition

    def ev(c, v):
        return Condition(c[0], CV[c[1]] if c[1] is not None else None).evaluate(v)
    out = []
    sd_on = sd if sd is not None else bool(meta_sd or meta_conds.get('skip_defaults_if'))
    try:
        for f in order:
            name = f['name']
            v = vals[name]
            drop = (E is not None and name in E)
            if drop and not eager:
                continue
            if sd_on and 'dflt_expr' in f and not drop:
                c = meta_conds.get('skip_defaults_if')
                if c is not None:
                    drop = bool(ev(c, v))
                else:
                    drop = bool(v == eval(f['dflt_expr']))
            if f.get('dump_skip'):
                drop = True
            if drop and not eager:
                continue
            c = conds.get(name) or meta_conds.get('skip_if')
            if c is not None and ev(c, v):
                drop = True
            if not drop:
                out.append(name)
    except TypeError:
        return ('err', 'TypeError')
    return ('ok', out)


LIT_VALS = [None, True, False, 0, 1, -1, 5, 2.5, -0.5, '', 'x', 'abc', float('inf'), float('nan'), 10 ** 30]


def literal_stream(ctx, base, reqs, pend):
    """class models in the Lean grammar (literal comparison values and field values) through the driver"""
    from dataclass_wizard import asdict
    rng = ctx.rng
    n = ctx.quick(500, 6000)
    for j in range(n):
        i = base + j
        if ctx.done(i):
            break
        nf = rng.randint(1, 4)
        fields, ftys = [], []
        req_part, opt_part = [], []
        for q in range(nf):
            f = {'name': f'fld{q}_val'}
            if rng.random() < 0.55:
                f['dflt'] = ['lit', rng.choice([None, 0, 5, 'x', 2.5, '', True])]
                f['factory'] = False
            if rng.random() < 0.1:
                f['dump_skip'] = True
                f['load_keys'] = [f['name']]
            elif rng.random() < 0.4:
                f['skip_if'] = lit_cond(rng)
            (opt_part if 'dflt' in f else req_part).append(f)
        fields = req_part + opt_part
        ftys = [[f['name'], T('any')] for f in fields]
        meta = {'key_transform_with_dump': rng.choice(['NONE', 'CAMEL', 'SNAKE'])}
        if rng.random() < 0.4:
            meta['skip_if'] = lit_cond(rng)
        if rng.random() < 0.3:
            meta['skip_defaults_if'] = lit_cond(rng)
        if rng.random() < 0.3:
            meta['skip_defaults'] = rng.choice([True, False])
        ty = {'k': 'cls', 'info': {'name': model.fresh('C'), 'fields': fields, 'wizard': True, 'meta': meta}, 'ftys': ftys}
        names = [f['name'] for f in fields]
        E = None if rng.random() < 0.4 else [nm for nm in names if rng.random() < 0.4]
        sd = rng.choice([None, None, True, False])
        vals = {f['name']: (f['dflt'][1] if 'dflt' in f and rng.random() < 0.35 else rng.choice(LIT_VALS)) for f in fields}
        if not ctx.begin_case(i):
            continue
        built = model.Built(ty)
        try:
            x = built.root(**vals)
            kw = {}
            if E is not None:
                kw['exclude'] = E
            if sd is not None:
                kw['skip_defaults'] = sd
            case = {'ty': ty, 'values': repr(vals), 'exclude': E, 'skip_defaults': sd}
            ctx.seen('skip:model', case)
            try:
                impl = {'ok': list(asdict(x, **kw).keys())}
            except Exception as e:
                impl = {'err': type(e).__name__}
            st = model.StdTables()
            st.add_py(x)
            reqs.append({'op': 'dump', 'inst': model.enc_py(x, built), 'std': st.build(), 'exclude': E, 'skip_defaults': sd})
            pend.append((case, impl))
        finally:
            built.close()


def lit_cond(rng):
    op = rng.choice(OPS)
    if op in '+!':
        return {'op': op, 'val': None}
    if op in ('is', 'is not'):
        return {'op': op, 'val': rng.choice([None, True, False])}
    return {'op': op, 'val': rng.choice([None, True, False, 0, 1, -1, 5, 2.5, -0.5, '', 'x', 'abc', float('inf'), float('nan')])}
