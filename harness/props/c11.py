"""C11 — dump omits exactly the fields selected by skip rules, exclude and dump=False."""
from __future__ import annotations

import enum
import itertools
import json
import math
import random
from decimal import Decimal

from harness import common as C
from harness import gen, model, ref
from harness.model import T


class Obj:
    """an arbitrary comparison object (ordered by its key; identity-comparable)"""

    def __init__(self, k):
        self.k = k

    def __eq__(self, other):
        return isinstance(other, Obj) and other.k == self.k

    def __lt__(self, other):
        if not isinstance(other, Obj):
            return NotImplemented
        return self.k < other.k

    def __le__(self, other):
        if not isinstance(other, Obj):
            return NotImplemented
        return self.k <= other.k

    def __gt__(self, other):
        if not isinstance(other, Obj):
            return NotImplemented
        return self.k > other.k

    def __ge__(self, other):
        if not isinstance(other, Obj):
            return NotImplemented
        return self.k >= other.k

    __hash__ = None

    def __repr__(self):
        return f'Obj({self.k})'


class Never:
    """a value that equals nothing, itself included (like a NaN, but for `==` only; hashable, so it can be a plain default)"""

    def __eq__(self, other):
        return False

    def __ne__(self, other):
        return True

    __hash__ = object.__hash__

    def __repr__(self):
        return 'NEVER'


NEVER = Never()


class Col(enum.Enum):
    RED = 1
    BLUE = 'b'


class IE(enum.IntEnum):
    ZERO = 0
    ONE = 1


OPS = ['==', '!=', '<', '<=', '>', '>=', 'is', 'is not', '+', '!']
BUILDER = {'==': 'EQ', '!=': 'NE', '<': 'LT', '<=': 'LE', '>': 'GT', '>=': 'GE', 'is': 'IS', 'is not': 'IS_NOT', '+': 'IS_TRUTHY', '!': 'IS_FALSY'}

# comparison values: (python expression evaluated in the class module, literal encoding for the Lean model or None)
VALS = [
    ('None', None, True), ('True', True, True), ('False', False, True), ('0', 0, True), ('1', 1, True), ('-1', -1, True), ('5', 5, True),
    ('2.5', 2.5, True), ('-0.5', -0.5, True), ("''", '', True), ("'x'", 'x', True), ("'abc'", 'abc', True),
    ("float('nan')", float('nan'), True), ("float('inf')", float('inf'), True), ("float('-inf')", float('-inf'), True),
    ('[]', [], False), ('[1, 2]', [1, 2], False), ('{}', {}, False), ("{'a': 1}", {'a': 1}, False), ('()', (), False), ('(1, 2)', (1, 2), False),
    ('Col.RED', Col.RED, False), ('IE.ONE', IE.ONE, False), ('IE.ZERO', IE.ZERO, False), ('OBJ', None, False), ('10 ** 30', 10 ** 30, True),
    ("'a' * 40", 'a' * 40, True), ('tuple(range(8))', tuple(range(8)), False), ('1000', 1000, True),
]
OBJ = Obj(3)

FIELD_VALUES = [None, True, False, 0, 1, -1, 5, 2.5, -0.5, '', 'x', 'abc', float('nan'), float('inf'), [], [1, 2], {}, {'a': 1}, (), (1, 2),
                Col.RED, IE.ONE, OBJ, Obj(3), Obj(9), 10 ** 30, 'a' * 40, tuple(range(8)), 1000, 7.0]


def py_eval(c, v):
    """Condition.evaluate semantics via the real Condition object (the runtime reference named by the property)"""
    return c.evaluate(v)


SRC_EXTRA = '''
from harness.props.c11 import Obj, Col, IE, OBJ, VALS as _VALS
CV = {e: eval(e) for e, _v, _l in _VALS}
'''


def is_lit(v):
    return v is None or type(v) in (bool, int, float, str)


def run(ctx: C.Ctx):
    from dataclass_wizard import asdict
    rng = ctx.rng
    gen.SUBS = False
    ctx.rule = ('classes of 2..4 fields (plain / defaulted / SkipIf per field / Annotated SkipIf / dump=False) × Meta over '
                '{skip_defaults, skip_if, skip_defaults_if} × every exclude subset × skip_defaults argument in {unset, True, False} × '
                'conditions over all ten operators and comparison values None/bool/int/float incl. nan ±inf/str/list/dict/tuple/Enum/'
                'IntEnum/objects/long values × field values of all those kinds: key set vs the reference computed with Condition.evaluate '
                '(TypeError of an unorderable comparison must be a TypeError both ways), and vs the Lean model when every value is a literal. '
                'Non-trivial = distinct (class, instance, exclude, skip_defaults).')
    ctx.rule += (' The slots per-field / Meta.skip_if / Meta.skip_defaults_if are populated in every combination. Histories: a nested class N '
                 'with or without rules of its own, one or two outer classes whose recursive Meta carries skip rules, and a holder class '
                 'without any Meta, dumped in random orders with N also on its own; the key set at every level of every step vs the '
                 'reference under the documented cascade. Histories in which the first dump / load of a class comes before a class named '
                 'in one of its string annotations is defined (fails inside the per-class setup), then that class is defined and the dump '
                 'is repeated; dump=False / skip_if_field / Annotated SkipIf (also as a string) on the fields around the forward reference. '
                 'Defaults on the identity / equality boundary: NaN float / Decimal NaN / an object that equals nothing / tuples holding '
                 'them, with the instance keeping the default object, a fresh object from the same expression or another value, '
                 'under skip_defaults from Meta and argument; reference = operator == against the default object of the class. '
                 'GENERATED CODE (harness/props/c11_gencode.py): seeded classes over everything the dump generator reads (field order, defaults, '
                 'all=True aliases, dump=False, paths, CatchAll with / without default, per-field and Meta conditions over every operator, tag, '
                 'key transforms, load before dump) x instances with None / bool / int / str values x {no arguments, exclude lists, '
                 'skip_defaults True / False}: generated text == the generator model byte for byte, then the dict the real function returns '
                 '== the dict rebuilt from the emissions of the Lean interpreter of that text (comparison TypeError == raised; stuck never); '
                 'tag entry and catch-all write-back also stated directly on the result.')
    ncls = ctx.quick(160, 2500)
    reqs, pend = [], []
    idx = 0
    from dataclass_wizard.models import Condition
    for ci in range(ncls):
        nf = rng.randint(2, 4)
        fields, ftys = [], []
        conds = {}        # field -> (op, expr, value)
        meta_src = []
        meta_conds = {}
        all_lit = True
        # which condition slots are populated: per field, Meta.skip_if, Meta.skip_defaults_if - every combination of the three
        mode = rng.choice(['field', 'meta', 'both', 'defaults_if', 'plain', 'meta+defaults_if', 'meta+defaults_if', 'all'])
        for j in range(nf):
            name = f'fld{j}_val'
            f = {'name': name}
            if rng.random() < 0.6:
                f['dflt_expr'] = rng.choice(['None', '0', '5', "'x'", '2.5', "''", 'True'])
            if rng.random() < 0.12:
                f['dump_skip'] = True
            elif 'dflt_expr' in f and rng.random() < 0.15:
                f['noinit'] = True
            if mode in ('field', 'both', 'all') and rng.random() < 0.6 and not f.get('noinit'):
                conds[name] = pick_cond(rng)
                f['ann'] = rng.random() < 0.4
            fields.append(f)
        if mode in ('meta', 'both') and rng.random() < 0.9 or mode in ('meta+defaults_if', 'all'):
            meta_conds['skip_if'] = pick_cond(rng)
        if mode in ('defaults_if', 'meta+defaults_if', 'all'):
            meta_conds['skip_defaults_if'] = pick_cond(rng)
        meta_sd = rng.choice([None, None, True, False])
        cname = model.fresh('C')
        src = render(cname, fields, conds, meta_conds, meta_sd)
        try:
            built = model.Built(T('any'), extra_src=SRC_EXTRA + src)
        except Exception as e:
            ctx.count('build_error')
            ctx.notes.setdefault('build_errors', []).append(repr(e)[:300] + src[:300])
            continue
        try:
            Cls = built.get(cname)
            # fields with a default must come after those without: render() orders them; recompute order
            order = [f for f in fields if 'dflt_expr' not in f] + [f for f in fields if 'dflt_expr' in f]
            names = [f['name'] for f in order]
            for inst_i in range(ctx.quick(2, 3)):
                vals = {}
                for f in order:
                    if 'dflt_expr' in f and rng.random() < 0.35:
                        vals[f['name']] = eval(f['dflt_expr'])
                    elif rng.random() < (0.4 if len(meta_conds) < 2 else 0.6) and (conds or meta_conds):
                        # the very comparison object of one of this class's conditions (equality / identity boundary)
                        cc = rng.choice(list(conds.values()) + list(meta_conds.values()))
                        vals[f['name']] = built.get('CV')[cc[1]] if cc[1] is not None else rng.choice(FIELD_VALUES)
                    elif rng.random() < 0.15:
                        vals[f['name']] = rng.choice(list(built.get('CV').values()))
                    else:
                        vals[f['name']] = rng.choice(FIELD_VALUES)
                x = Cls(**{k_: v_ for k_, v_ in vals.items() if not next(f for f in order if f['name'] == k_).get('noinit')})
                for f in order:
                    if f.get('noinit'):
                        if rng.random() < 0.5:
                            setattr(x, f['name'], vals[f['name']])
                        else:
                            vals[f['name']] = getattr(x, f['name'])
                subsets = [None] + [list(s) for r in range(len(names) + 1) for s in itertools.combinations(names, r)]
                if ctx.tier == 'quick':
                    subsets = [None] + rng.sample(subsets[1:], min(5, len(subsets) - 1))
                for E in subsets:
                    for sd in ([None, True, False] if ctx.tier != 'quick' else [rng.choice([None, True, False])]):
                        i = idx
                        idx += 1
                        if ctx.done(i):
                            break
                        if not ctx.begin_case(i):
                            continue
                        case = {'src': src, 'values': repr(vals), 'exclude': E, 'skip_defaults': sd}
                        ctx.seen('skip', case)
                        kw = {}
                        if E is not None:
                            kw['exclude'] = E
                        if sd is not None:
                            kw['skip_defaults'] = sd
                        try:
                            got = ('ok', list(asdict(x, **kw).keys()))
                        except Exception as e:
                            got = ('err', type(e).__name__, str(e)[:200])
                        CV = built.get('CV')
                        exps = [reference(order, conds, meta_conds, meta_sd, vals, E, sd, CV, eager) for eager in (False, True)]
                        # a comparison that raises TypeError on a field that is dropped anyway may or may not be evaluated:
                        # both readings of the statement are accepted
                        okk = False
                        for exp in exps:
                            if exp[0] == 'err':
                                okk = okk or (got[0] == 'err' and got[1] == 'TypeError')
                            else:
                                okk = okk or (got[0] == 'ok' and got[1] == exp[1])
                        if not okk:
                            ctx.fail('skip', case, f'asdict gave {got!r}; reference selection {exps[0]!r} (lazy) / {exps[1]!r} (eager)')
        finally:
            built.close()
        if ctx.done(idx):
            break
    # ---- model correspondence on literal-only class models
    literal_stream(ctx, idx, reqs, pend)
    # ---- histories over a nested class, a configured outer class and an unconfigured holder
    nested_history_stream(ctx)
    # ---- histories in which the first use of a class fails inside the per-class setup and is repeated
    failed_first_stream(ctx)
    # ---- defaults on the identity / equality boundary (a default that does not equal itself, still held by the instance)
    default_identity_stream(ctx)
    if ctx.model_available:
        outs = ctx.driver.run(reqs)
        for (case, impl), o in zip(pend, outs):
            if 'err' in o and 'r' not in o:
                ctx.agree('skip:model', case, impl, {'driver_error': o['err']})
                continue
            r = o['r']
            if model.has_miss(r):
                ctx.count('std_miss')
                continue
            if 'ok' in r:
                m = {'ok': [kv[0] for kv in r['ok'][2]]}
            else:
                m = {'err': 'TypeError' if r['err'] == ['raw', 'TypeError'] else r['err']}
            ctx.agree('skip:model', case, impl, m)
    # ---- the generated code itself: the generator model's text == the generated source, and the Lean interpreter of that text
    #      (theorem C11_generated_code_selects) == what the real function returns
    from . import c11_gencode
    c11_gencode.run(ctx)


def pick_cond(rng):
    op = rng.choice(OPS)
    if op in '+!':
        return (op, None, None)
    expr, val, _ = rng.choice(VALS)
    if expr == 'OBJ':
        val = OBJ
    return (op, expr, val)


def cond_expr(c):
    op, expr, _ = c
    if op in '+!':
        return f'{BUILDER[op]}()'
    return f'{BUILDER[op]}(CV[{expr!r}])'


def render(cname, fields, conds, meta_conds, meta_sd, style='meta', recursive=None):
    """style: 'meta' (JSONWizard with an inner Meta), 'wizard' (JSONWizard, no Meta), 'plain' (a bare dataclass)"""
    if style == 'meta':
        lines = ['@dataclass', f'class {cname}(JSONWizard):', '    class _(JSONWizard.Meta):', "        key_transform_with_dump = 'NONE'"]
        if recursive is not None:
            lines.append(f'        recursive = {recursive}')
        if meta_sd is not None:
            lines.append(f'        skip_defaults = {meta_sd}')
        for k, c in meta_conds.items():
            lines.append(f'        {k} = {cond_expr(c)}')
    else:
        assert not meta_conds and meta_sd is None
        lines = ['@dataclass', f'class {cname}(JSONWizard):' if style == 'wizard' else f'class {cname}:']
    order = [f for f in fields if 'dflt_expr' not in f] + [f for f in fields if 'dflt_expr' in f]
    for f in order:
        name = f['name']
        d = f.get('dflt_expr')
        c = conds.get(name)
        if f.get('dump_skip'):
            rhs = f"json_field({name!r}, dump=False" + (f', default={d})' if d is not None else ')')
            lines.append(f'    {name}: Any = {rhs}')
        elif c is not None and f.get('ann'):
            ann = f'Annotated[Any, SkipIf({cond_expr(c)})]'
            if f.get('ann_quoted'):      # the whole annotation written as a string, resolved by the library on first use
                ann = repr(ann)
            lines.append(f'    {name}: {ann}' + (f' = {d}' if d is not None else ''))
        elif c is not None:
            lines.append(f'    {name}: Any = skip_if_field({cond_expr(c)}' + (f', default={d})' if d is not None else ')'))
        elif f.get('noinit'):
            lines.append(f'    {name}: Any = field(init=False, default={d})')
        else:
            lines.append(f'    {name}: {f.get("ann_src", "Any")}' + (f' = {d}' if d is not None else ''))
    return '\n'.join(lines) + '\n'


# --------------------------------------------------------------------------- histories over nested classes
# Field names that every key transform leaves alone, so that the comparison is about *which* fields are written only (the
# spelling of a nested class's keys after it was reached through a configured class is the recorded finding
# `shared-nested-config-leak`).
NESTED_FIELD_NAMES = ['aa', 'bb', 'cc', 'dd']
NEST_ANN = {'bare': '{0}', 'list': 'List[{0}]', 'optional': 'Optional[{0}]', 'dict': 'Dict[str, {0}]'}


def _gen_fields(rng, names, allow_conds):
    fields, conds = [], {}
    for name in names:
        f = {'name': name}
        if rng.random() < 0.65:
            f['dflt_expr'] = rng.choice(['None', '0', '5', "'x'", '2.5', "''", 'True'])
        if rng.random() < 0.1:
            f['dump_skip'] = True
        if allow_conds and rng.random() < 0.3:
            conds[name] = pick_cond(rng)
            f['ann'] = rng.random() < 0.4
        fields.append(f)
    order = [f for f in fields if 'dflt_expr' not in f] + [f for f in fields if 'dflt_expr' in f]
    return order, conds


def _gen_rules(rng, at_least_one):
    meta_conds, meta_sd = {}, None
    while True:
        if rng.random() < 0.5:
            meta_sd = rng.choice([True, True, False])
        if rng.random() < 0.45:
            meta_conds['skip_if'] = pick_cond(rng)
        if rng.random() < 0.3:
            meta_conds['skip_defaults_if'] = pick_cond(rng)
        if not at_least_one or meta_sd or meta_conds:
            return meta_conds, meta_sd


def _gen_vals(rng, order, conds, meta_conds, CV):
    vals = {}
    pool = list(conds.values()) + list(meta_conds.values())
    for f in order:
        if 'ann_src' in f:
            continue
        if 'dflt_expr' in f and rng.random() < 0.4:
            vals[f['name']] = eval(f['dflt_expr'])
        elif pool and rng.random() < 0.4:
            cc = rng.choice(pool)
            vals[f['name']] = CV[cc[1]] if cc[1] is not None else rng.choice(FIELD_VALUES)
        else:
            vals[f['name']] = rng.choice(FIELD_VALUES)
    return vals


def _vals_of(x, order):
    return {f['name']: getattr(x, f['name']) for f in order}


def _accept(got_keys, refs):
    return any(r[0] == 'ok' and r[1] == got_keys for r in refs)


def nested_history_stream(ctx, base=10_000_000):
    """A nested class N (bare dataclass / JSONWizard without Meta / JSONWizard with rules of its own), one or two outer classes
    whose Meta carries skip rules (recursive unless said otherwise) and a holder class without any Meta; the history dumps them
    in a random order, N also on its own, every step with its own instance, exclude subset and skip_defaults argument.  At every
    step the key set of the main class *and of every nested N* must be the reference selection: N's own rules, completed by the
    rules of the main class it is reached through when that class's Meta is recursive, and by nothing else - whatever was
    dumped before."""
    from dataclass_wizard import asdict
    n = ctx.quick(400, 5000)
    for j in range(n):
        i = base + j
        if ctx.done(i):
            break
        if ctx.only is not None and ctx.only != i:
            continue
        rng = random.Random(f'C11:{ctx.seed}:nested-history:{j}')
        # ---- the class family
        N, O1, O2, H = (model.fresh(p_) for p_ in ('N', 'O', 'P', 'H'))
        n_style = rng.choice(['plain', 'plain', 'wizard', 'meta'])
        n_order, n_conds = _gen_fields(rng, rng.sample(NESTED_FIELD_NAMES, rng.randint(2, 4)), allow_conds=True)
        n_mconds, n_sd = _gen_rules(rng, False) if n_style == 'meta' else ({}, None)
        src = render(N, n_order, n_conds, n_mconds, n_sd, style=n_style)
        outers = {}
        for oname in [O1] + ([O2] if rng.random() < 0.35 else []):
            o_order, o_conds = _gen_fields(rng, ['xx', 'yy'][:rng.randint(1, 2)], allow_conds=False)
            shape = rng.choice(sorted(NEST_ANN))
            o_order.insert(0, {'name': 'nn', 'ann_src': NEST_ANN[shape].format(N)})
            o_mconds, o_sd = _gen_rules(rng, True)
            rec = rng.choice([None, None, None, None, True, False])
            outers[oname] = dict(order=o_order, conds=o_conds, mconds=o_mconds, sd=o_sd, shape=shape, recursive=rec is not False)
            src += render(oname, o_order, o_conds, o_mconds, o_sd, style='meta', recursive=rec)
        h_shape = rng.choice(sorted(NEST_ANN))
        h_order = [{'name': 'nn', 'ann_src': NEST_ANN[h_shape].format(N)}, {'name': 'mm', 'dflt_expr': '2'}]
        outers[H] = dict(order=h_order, conds={}, mconds={}, sd=None, shape=h_shape, recursive=False)
        src += render(H, h_order, {}, {}, None, style=rng.choice(['plain', 'wizard']))
        # ---- the history
        steps = [N, O1, H] + ([O2] if O2 in outers else [])
        rng.shuffle(steps)
        steps = steps[:rng.randint(2, len(steps))]
        if O1 not in steps:
            steps.insert(rng.randint(0, len(steps)), O1)
        steps += [rng.choice(steps) for _ in range(rng.choice([0, 0, 1, 2]))]
        if not ctx.begin_case(i):
            continue
        try:
            built = model.Built(T('any'), extra_src=SRC_EXTRA + src)
        except Exception as e:
            ctx.count('build_error')
            ctx.notes.setdefault('build_errors', []).append(repr(e)[:300] + src[:300])
            continue
        try:
            CV = built.get('CV')
            NC = built.get(N)

            def new_inner():
                return NC(**_gen_vals(rng, n_order, n_conds, n_mconds, CV))

            trace = []
            case = {'src': src, 'history': trace}
            for step_no, cname in enumerate(steps):
                if cname == N:
                    x = new_inner()
                    order, conds, mconds, msd = n_order, n_conds, n_mconds, n_sd
                    nested, n_eff = [], None
                else:
                    o = outers[cname]
                    order, conds, mconds, msd = o['order'], o['conds'], o['mconds'], o['sd']
                    vals = _gen_vals(rng, order, conds, mconds, CV)
                    k_ = rng.choice([0, 1, 2])
                    vals['nn'] = {'bare': new_inner, 'optional': lambda: rng.choice([None, new_inner()]),
                                  'list': lambda: [new_inner() for _ in range(k_)],
                                  'dict': lambda: {f'k{q}': new_inner() for q in range(k_)}}[o['shape']]()
                    x = built.get(cname)(**vals)
                    v = vals['nn']
                    nested = [v] if isinstance(v, NC) else list(v.values()) if isinstance(v, dict) else list(v or [])
                    # the rules N is dumped with below this class: its own, completed by the recursive Meta of the main class
                    if o['recursive']:
                        n_eff = (dict(mconds, **n_mconds), n_sd if n_sd is not None else msd)
                    else:
                        n_eff = (n_mconds, n_sd)
                names = [f['name'] for f in order]
                E = None if rng.random() < 0.5 else [nm for nm in names if rng.random() < 0.3]
                sd = rng.choice([None, None, True, False])
                kw = {}
                if E is not None:
                    kw['exclude'] = E
                if sd is not None:
                    kw['skip_defaults'] = sd
                trace.append({'step': step_no, 'dump': cname, 'instance': repr(x)[:300], 'exclude': E, 'skip_defaults': sd})
                ctx.seen('skip:history', {'src': src, 'step': step_no, 'x': repr(x)[:300], 'E': E, 'sd': sd})
                try:
                    d = asdict(x, **kw)
                    got = ('ok', list(d.keys()))
                except Exception as e:
                    d, got = None, ('err', type(e).__name__, str(e)[:200])
                top_refs = [reference(order, conds, mconds, msd, _vals_of(x, order), E, sd, CV, eager) for eager in (False, True)]
                nested_refs = [[reference(n_order, n_conds, n_eff[0], n_eff[1], _vals_of(y, n_order), None, None, CV, eager)
                                for eager in (False, True)] for y in nested]
                snap = {'src': src, 'history': [dict(t) for t in trace]}
                if got[0] == 'err':
                    may_raise = any(r[0] == 'err' for r in top_refs) or any(r[0] == 'err' for rs in nested_refs for r in rs)
                    if not (got[1] == 'TypeError' and may_raise):
                        ctx.fail('skip:history', snap, f'step {step_no}: asdict({x!r:.200}, {kw}) gave {got!r}; reference selection {top_refs[0]!r}')
                    continue
                if not _accept(got[1], top_refs):
                    ctx.fail('skip:history', snap, f'step {step_no}: asdict({x!r:.200}, {kw}) has keys {got[1]!r}; reference selection '
                                                   f'{top_refs[0]!r} (lazy) / {top_refs[1]!r} (eager)')
                if 'nn' in d and nested:
                    dv = d['nn']
                    dumped = [dv] if isinstance(dv, dict) and outers[cname]['shape'] in ('bare', 'optional') else \
                        list(dv.values()) if isinstance(dv, dict) else list(dv)
                    for y, dy, refs in zip(nested, dumped, nested_refs):
                        if not (isinstance(dy, dict) and _accept(list(dy.keys()), refs)):
                            ctx.fail('skip:history', snap, f'step {step_no}: inside asdict of {cname}, the nested {y!r:.200} was written with keys '
                                                           f'{list(dy.keys()) if isinstance(dy, dict) else dy!r}; reference selection {refs[0]!r} '
                                                           f'(rules in force for it: {n_eff!r:.300})')
        finally:
            built.close()


ROOT_FIELD_NAMES = ['pp', 'qq', 'rr', 'ss', 'tt']
FIRST_USES = [['dump'], ['dump'], ['dump'], ['load'], ['load'], ['dump', 'dump'], ['load', 'dump'], ['dump', 'load'], ['dump-kw']]


def failed_first_stream(ctx, base=20_000_000):
    """A class R one of whose annotations is a *string* naming a class N that is defined only later (a forward reference).  The
    library resolves it when R is first set up for dumping / loading, so uses of R that come before N exists fail (on any version;
    what happens there is recorded, not judged).  Then N is defined and R is dumped several times: the key set of R and of every
    nested N must be the reference selection - what an identical class that never saw the failed attempt gives.  The fields of R
    around the forward reference carry the declarations the per-class setup collects (dump=False, skip_if_field, Annotated SkipIf -
    also written as a string -, defaults) and R's Meta the class-wide rules."""
    from dataclass_wizard import asdict, fromdict
    n = ctx.quick(350, 5000)
    for j in range(n):
        i = base + j
        if ctx.done(i):
            break
        if ctx.only is not None and ctx.only != i:
            continue
        rng = random.Random(f'C11:{ctx.seed}:failed-first:{j}')
        R, N = model.fresh('R'), model.fresh('N')
        n_style = rng.choice(['plain', 'plain', 'wizard', 'meta'])
        n_order, n_conds = _gen_fields(rng, rng.sample(NESTED_FIELD_NAMES, rng.randint(1, 3)), allow_conds=True)
        n_mconds, n_sd = _gen_rules(rng, False) if n_style == 'meta' else ({}, None)
        src2 = render(N, n_order, n_conds, n_mconds, n_sd, style=n_style)
        # ---- R: declarations on most fields, the forward reference towards the front of its partition
        r_style = rng.choice(['meta', 'meta', 'meta', 'wizard', 'plain'])
        r_order, r_conds = _gen_fields(rng, rng.sample(ROOT_FIELD_NAMES, rng.randint(2, 4)), allow_conds=True)
        for f in r_order:
            if f['name'] not in r_conds and not f.get('dump_skip') and rng.random() < 0.45:
                if rng.random() < 0.45:
                    f['dump_skip'] = True
                else:
                    r_conds[f['name']] = pick_cond(rng)
                    f['ann'] = rng.random() < 0.5
            if f.get('ann') and rng.random() < 0.3:
                f['ann_quoted'] = True
        shape = rng.choice(sorted(NEST_ANN))
        fwd = {'name': 'nn', 'ann_src': repr(NEST_ANN[shape].format(N))}
        n_req = sum(1 for f in r_order if 'dflt_expr' not in f)
        if shape == 'optional' and rng.random() < 0.4:
            fwd['dflt_expr'] = 'None'
            lo, hi = n_req, len(r_order)
        else:
            lo, hi = 0, n_req
        r_order.insert(rng.choice([lo, lo, rng.randint(lo, hi)]), fwd)
        r_mconds, r_sd = _gen_rules(rng, False) if r_style == 'meta' else ({}, None)
        rec = rng.choice([None, None, None, True, False]) if r_style == 'meta' else None
        recursive = r_style == 'meta' and rec is not False
        src1 = render(R, r_order, r_conds, r_mconds, r_sd, style=r_style, recursive=rec)
        first = rng.choice(FIRST_USES)
        src = src1 + '# ---- defined only after the first use(s) of the class above: ' + ', '.join(first) + '\n' + src2
        if not ctx.begin_case(i):
            continue
        try:
            built = model.Built(T('any'), extra_src=SRC_EXTRA + src1)
        except Exception as e:
            ctx.count('build_error')
            ctx.notes.setdefault('build_errors', []).append(repr(e)[:300] + src1[:300])
            continue
        try:
            CV = built.get('CV')
            RC = built.get(R)
            names = [f['name'] for f in r_order]
            # ---- the uses that come too early
            vals0 = _gen_vals(rng, r_order, r_conds, r_mconds, CV)
            vals0['nn'] = None
            trace = []
            for use in first:
                try:
                    if use == 'load':
                        fromdict(RC, {})
                    elif use == 'dump-kw':
                        asdict(RC(**vals0), exclude=[names[0]], skip_defaults=True)
                    else:
                        asdict(RC(**vals0))
                    outcome = 'ok'
                except Exception as e:
                    outcome = type(e).__name__
                trace.append({'too_early': use, 'outcome': outcome})
            ctx.count('failed_first:' + ('failed' if any(t['outcome'] != 'ok' for t in trace) else 'did-not-fail'))
            exec(compile(src2, f'<{built.modname}:2>', 'exec', dont_inherit=True), built.mod.__dict__)
            NC = built.get(N)

            def new_inner():
                return NC(**_gen_vals(rng, n_order, n_conds, n_mconds, CV))

            n_eff = (dict(r_mconds, **n_mconds), n_sd if n_sd is not None else r_sd) if recursive else (n_mconds, n_sd)
            for step_no in range(rng.randint(1, 3)):
                vals = _gen_vals(rng, r_order, r_conds, r_mconds, CV)
                k_ = rng.choice([0, 1, 2])
                vals['nn'] = {'bare': new_inner, 'optional': lambda: rng.choice([None, new_inner()]),
                              'list': lambda: [new_inner() for _ in range(k_)],
                              'dict': lambda: {f'k{q}': new_inner() for q in range(k_)}}[shape]()
                x = RC(**vals)
                v = vals['nn']
                nested = [v] if isinstance(v, NC) else list(v.values()) if isinstance(v, dict) else list(v or [])
                E = None if rng.random() < 0.5 else [nm for nm in names if rng.random() < 0.3]
                sd = rng.choice([None, None, True, False])
                kw = {}
                if E is not None:
                    kw['exclude'] = E
                if sd is not None:
                    kw['skip_defaults'] = sd
                trace.append({'step': step_no, 'dump': R, 'instance': repr(x)[:300], 'exclude': E, 'skip_defaults': sd})
                ctx.seen('skip:failed-first', {'src': src, 'step': step_no, 'x': repr(x)[:300], 'E': E, 'sd': sd})
                try:
                    d = asdict(x, **kw)
                    got = ('ok', list(d.keys()))
                except Exception as e:
                    d, got = None, ('err', type(e).__name__, str(e)[:200])
                top_refs = [reference(r_order, r_conds, r_mconds, r_sd, _vals_of(x, r_order), E, sd, CV, eager) for eager in (False, True)]
                nested_refs = [[reference(n_order, n_conds, n_eff[0], n_eff[1], _vals_of(y, n_order), None, None, CV, eager)
                                for eager in (False, True)] for y in nested]
                snap = {'src': src, 'history': [dict(t) for t in trace]}
                if got[0] == 'err':
                    may_raise = any(r[0] == 'err' for r in top_refs) or any(r[0] == 'err' for rs in nested_refs for r in rs)
                    if not (got[1] == 'TypeError' and may_raise):
                        ctx.fail('skip:failed-first', snap, f'step {step_no}, after the too-early use(s) {trace[:len(first)]!r}: asdict({x!r:.200}, {kw}) '
                                                            f'gave {got!r}; reference selection {top_refs[0]!r}')
                    continue
                if not _accept(got[1], top_refs):
                    ctx.fail('skip:failed-first', snap, f'step {step_no}, after the too-early use(s) {trace[:len(first)]!r}: asdict({x!r:.200}, {kw}) '
                                                        f'has keys {got[1]!r}; reference selection {top_refs[0]!r} (lazy) / {top_refs[1]!r} (eager)')
                if 'nn' in d and nested:
                    dv = d['nn']
                    dumped = [dv] if isinstance(dv, dict) and shape in ('bare', 'optional') else \
                        list(dv.values()) if isinstance(dv, dict) else list(dv)
                    for y, dy, refs in zip(nested, dumped, nested_refs):
                        if not (isinstance(dy, dict) and _accept(list(dy.keys()), refs)):
                            ctx.fail('skip:failed-first', snap, f'step {step_no}: inside asdict of {R}, the nested {y!r:.200} was written with keys '
                                                                f'{list(dy.keys()) if isinstance(dy, dict) else dy!r}; reference selection {refs[0]!r} '
                                                                f'(rules in force for it: {n_eff!r:.300})')
        finally:
            built.close()


# defaults whose `==` is not reflexive, next to ordinary ones; the last two are equal to themselves only through the identity
# shortcut of container comparison
ODD_DEFAULTS = ["float('nan')", "Decimal('NaN')", 'NEVER', "float('nan')", "Decimal('NaN')", "-float('nan')", "(float('nan'),)", "(NEVER, 1)"]
PLAIN_DEFAULTS = ['None', '0', '5', "'x'", '2.5', "''", 'True', "float('inf')", "Decimal('1.50')", '()', '(1, 2)', 'Col.RED', '10 ** 30']
SRC_EXTRA_DEFAULTS = 'from harness.props.c11 import NEVER\n'


def _pick_unordered_cond(rng):
    """a condition without an ordering operator (an ordering comparison with Decimal('NaN') raises InvalidOperation: not a selection)"""
    while True:
        c = pick_cond(rng)
        if c[0] not in ('<', '<=', '>', '>='):
            return c


def default_identity_stream(ctx, base=30_000_000):
    """skip_defaults (Meta and / or argument) is documented as `value == default`.  For most defaults "the field still holds its
    default object" and "the value equals the default" coincide; they come apart for defaults whose == is not reflexive (float NaN,
    Decimal NaN, objects with an __eq__ of their own).  Classes mix such defaults with ordinary ones; every field of an instance
    either keeps the default object (left out of the constructor call, or passed that very object), gets a fresh object built from
    the same expression, or another value.  Reference: operator == against the default object the class really carries."""
    import dataclasses
    from dataclass_wizard import asdict
    n = ctx.quick(250, 4000)
    for j in range(n):
        i = base + j
        if ctx.done(i):
            break
        if ctx.only is not None and ctx.only != i:
            continue
        rng = random.Random(f'C11:{ctx.seed}:default-identity:{j}')
        cname = model.fresh('D')
        style = rng.choice(['meta', 'meta', 'wizard', 'plain'])
        fields, conds = [], {}
        for q in range(rng.randint(2, 5)):
            f = {'name': f'dd{q}'}        # a name every key transform leaves alone: the comparison is about which fields are written
            r = rng.random()
            if r < 0.5:
                f['dflt_expr'] = rng.choice(ODD_DEFAULTS)
            elif r < 0.85:
                f['dflt_expr'] = rng.choice(PLAIN_DEFAULTS)
            if rng.random() < 0.12:
                conds[f['name']] = _pick_unordered_cond(rng)
                f['ann'] = rng.random() < 0.4
            fields.append(f)
        order = [f for f in fields if 'dflt_expr' not in f] + [f for f in fields if 'dflt_expr' in f]
        meta_conds, meta_sd = {}, None
        if style == 'meta':
            meta_sd = rng.choice([None, True, True, False])
            if rng.random() < 0.15:
                meta_conds['skip_if'] = _pick_unordered_cond(rng)
            if rng.random() < 0.1:
                meta_conds['skip_defaults_if'] = _pick_unordered_cond(rng)
        src = render(cname, fields, conds, meta_conds, meta_sd, style=style)
        if not ctx.begin_case(i):
            continue
        try:
            built = model.Built(T('any'), extra_src=SRC_EXTRA + SRC_EXTRA_DEFAULTS + src)
        except Exception as e:
            ctx.count('build_error')
            ctx.notes.setdefault('build_errors', []).append(repr(e)[:300] + src[:300])
            continue
        try:
            CV = built.get('CV')
            Cls = built.get(cname)
            defaults = {f.name: f.default for f in dataclasses.fields(Cls) if f.default is not dataclasses.MISSING}
            names = [f['name'] for f in order]
            for inst_i in range(2):
                kwargs, how = {}, {}
                for f in order:
                    nm = f['name']
                    r = rng.random()
                    if 'dflt_expr' in f and r < 0.35:
                        how[nm] = 'left at its default'
                    elif 'dflt_expr' in f and r < 0.5:
                        kwargs[nm], how[nm] = defaults[nm], 'the default object, passed'
                    elif 'dflt_expr' in f and r < 0.7:
                        kwargs[nm], how[nm] = eval(f['dflt_expr'], dict(built.mod.__dict__)), 'fresh object from the default expression'
                    else:
                        kwargs[nm], how[nm] = rng.choice(FIELD_VALUES + [float('nan'), Decimal('NaN'), NEVER]), 'other'
                x = Cls(**kwargs)
                vals = _vals_of(x, order)
                subsets = [None] + rng.sample([list(c_) for r_ in range(len(names)) for c_ in itertools.combinations(names, r_)],
                                              min(2, 2 ** len(names) - 1))
                for E in subsets:
                    for sd in (None, True, False):
                        kw = {}
                        if E is not None:
                            kw['exclude'] = E
                        if sd is not None:
                            kw['skip_defaults'] = sd
                        case = {'src': src, 'values': repr(vals), 'held': how, 'exclude': E, 'skip_defaults': sd}
                        ctx.seen('skip:default-identity', case)
                        try:
                            got = ('ok', list(asdict(x, **kw).keys()))
                        except Exception as e:
                            got = ('err', type(e).__name__, str(e)[:200])
                        exps = [reference(order, conds, meta_conds, meta_sd, vals, E, sd, CV, eager, defaults=defaults) for eager in (False, True)]
                        okk = False
                        for exp in exps:
                            if exp[0] == 'err':
                                okk = okk or (got[0] == 'err' and got[1] == 'TypeError')
                            else:
                                okk = okk or (got[0] == 'ok' and got[1] == exp[1])
                        if not okk:
                            ctx.fail('skip:default-identity', case, f'asdict({x!r:.300}, {kw}) gave {got!r}; reference selection (value == default) '
                                                                    f'{exps[0]!r} (lazy) / {exps[1]!r} (eager); fields: {how!r}')
        finally:
            built.close()


def reference(order, conds, meta_conds, meta_sd, vals, E, sd, CV, eager, defaults=None):
    """key set per the property statement, conditions evaluated by Condition.evaluate on the very comparison
    objects the class was declared with"""
    from dataclass_wizard.models import Condition

    def ev(c, v):
        return Condition(c[0], CV[c[1]] if c[1] is not None else None).evaluate(v)
    out = []
    sd_on = sd if sd is not None else bool(meta_sd or meta_conds.get('skip_defaults_if'))
    try:
        for f in order:
            name = f['name']
            v = vals[name]
            drop = (E is not None and name in E)
            if drop and not eager:
                continue
            if sd_on and 'dflt_expr' in f and not drop:
                c = meta_conds.get('skip_defaults_if')
                if c is not None:
                    drop = bool(ev(c, v))
                else:
                    # `defaults`: the default objects the class really carries (else rebuilt from the expression)
                    drop = bool(v == (defaults[name] if defaults is not None else eval(f['dflt_expr'])))
            if f.get('dump_skip'):
                drop = True
            if drop and not eager:
                continue
            c = conds.get(name) or meta_conds.get('skip_if')
            if c is not None and ev(c, v):
                drop = True
            if not drop:
                out.append(name)
    except TypeError:
        return ('err', 'TypeError')
    return ('ok', out)


LIT_VALS = [None, True, False, 0, 1, -1, 5, 2.5, -0.5, '', 'x', 'abc', float('inf'), float('nan'), 10 ** 30]


def literal_stream(ctx, base, reqs, pend):
    """class models in the Lean grammar (literal comparison values and field values) through the driver"""
    from dataclass_wizard import asdict
    rng = ctx.rng
    n = ctx.quick(500, 6000)
    for j in range(n):
        i = base + j
        if ctx.done(i):
            break
        nf = rng.randint(1, 4)
        fields, ftys = [], []
        req_part, opt_part = [], []
        for q in range(nf):
            f = {'name': f'fld{q}_val'}
            if rng.random() < 0.55:
                f['dflt'] = ['lit', rng.choice([None, 0, 5, 'x', 2.5, '', True])]
                f['factory'] = False
            if rng.random() < 0.1:
                f['dump_skip'] = True
                f['load_keys'] = [f['name']]
            elif rng.random() < 0.4:
                f['skip_if'] = lit_cond(rng)
            (opt_part if 'dflt' in f else req_part).append(f)
        fields = req_part + opt_part
        ftys = [[f['name'], T('any')] for f in fields]
        meta = {'key_transform_with_dump': rng.choice(['NONE', 'CAMEL', 'SNAKE'])}
        if rng.random() < 0.4:
            meta['skip_if'] = lit_cond(rng)
        if rng.random() < 0.3:
            meta['skip_defaults_if'] = lit_cond(rng)
        if rng.random() < 0.3:
            meta['skip_defaults'] = rng.choice([True, False])
        ty = {'k': 'cls', 'info': {'name': model.fresh('C'), 'fields': fields, 'wizard': True, 'meta': meta}, 'ftys': ftys}
        names = [f['name'] for f in fields]
        E = None if rng.random() < 0.4 else [nm for nm in names if rng.random() < 0.4]
        sd = rng.choice([None, None, True, False])
        vals = {f['name']: (f['dflt'][1] if 'dflt' in f and rng.random() < 0.35 else rng.choice(LIT_VALS)) for f in fields}
        if not ctx.begin_case(i):
            continue
        built = model.Built(ty)
        try:
            x = built.root(**vals)
            kw = {}
            if E is not None:
                kw['exclude'] = E
            if sd is not None:
                kw['skip_defaults'] = sd
            case = {'ty': ty, 'values': repr(vals), 'exclude': E, 'skip_defaults': sd}
            ctx.seen('skip:model', case)
            try:
                impl = {'ok': list(asdict(x, **kw).keys())}
            except Exception as e:
                impl = {'err': type(e).__name__}
            st = model.StdTables()
            st.add_py(x)
            reqs.append({'op': 'dump', 'inst': model.enc_py(x, built), 'std': st.build(), 'exclude': E, 'skip_defaults': sd})
            pend.append((case, impl))
        finally:
            built.close()


def lit_cond(rng):
    op = rng.choice(OPS)
    if op in '+!':
        return {'op': op, 'val': None}
    if op in ('is', 'is not'):
        return {'op': op, 'val': rng.choice([None, True, False])}
    return {'op': op, 'val': rng.choice([None, True, False, 0, 1, -1, 5, 2.5, -0.5, '', 'x', 'abc', float('inf'), float('nan')])}
