"""C18 — EnvWizard resolves fields by the documented precedence; os.environ stays untouched.

Histories (os.environ edits, direct Env.reload(), instantiations of 1-3 EnvWizard classes with prefixes, letter-case
priorities, explicit mappings via env_field / json_field / Meta.field_to_env_var, keyword subsets, dotenv files and
secrets directories) run in a forked, pristine child each.  Per instantiation the observed result is compared with
  (a) the Lean state machine `DW.Env.step` (outcome AND the library's cache state: environ / var_names / cleaned_to_env),
  (b) `ref_resolve` below — the C18 statement written independently in Python (also diffed against Lean's `refResolve`),
and os.environ is snapshotted before/after.

Histories also vary: one mapping object shared by several classes as Meta.field_to_env_var (`case['maps']`, `cls['map']`),
Literal-typed fields whose type rejects some values (`case['lit']`, `f['typ']`), dotenv files / secrets directories that
are edited between instantiations (ops `write` / `wdir`), and failure-then-recovery sequences (`Gen.recovery`).
File-system histories (`Gen.fs_history`): dotenv files / secrets directories that do not exist at first, appear, change and
disappear (`content: None`), files named relatively and found in the working directory or only above it (`case['rel']`,
`level`), paths spelled as str / Path / with a `./` component, classes defined in the middle of a history (`late`, op `define`).
"""
from __future__ import annotations

import json
import os
import re
import shutil
import tempfile
import traceback
from pathlib import Path

from harness import common as C

KEY_STALE = 'stale-cleaned-to-env-evicts-surviving-spelling'
KEY_MULTI = 'explicit-multi-name-with-prefix'
KEY_NOFALL = 'explicit-mapping-no-case-fallback'

PRIOS = ['SCREAMING_SNAKE', 'SNAKE', 'CAMEL', 'PASCAL']
STEMS = [['my', 'var'], ['api', 'key'], ['x'], ['ab'], ['a', 'b', 'c'], ['host', 'name2']]
PREFIXES = [None, None, 'APP_', 'app_', 'p', 'App', '']


# --------------------------------------------------------------------------- spellings

def spellings(words):
    """assorted casings of one key: every element cleans (drop '_' '-', lower) to ''.join(words)"""
    cap = [w[:1].upper() + w[1:] for w in words]
    out = ['_'.join(words).upper(), '_'.join(words), words[0] + ''.join(cap[1:]), ''.join(cap), ''.join(words),
           ''.join(words).upper(), '-'.join(words), '-'.join(words).upper(), '_'.join(cap), '__'.join(words),
           '_' + '_'.join(words), '_'.join(words).upper() + '_']
    seen, res = set(), []
    for s in out:
        if s not in seen:
            seen.add(s)
            res.append(s)
    return res


def ident_spellings(words):
    return [s for s in spellings(words) if s.isidentifier() and not s.startswith('_') and not s.endswith('_')]


SEPARATORS = ['.', ':', '+', '@', '~', '%', '!', ',']       # characters that are NOT word separators of the statement


def near_spellings(words, rng, k=3):
    """names that are NOT spellings of the key: they equal it (after lowering) only once a character other than '_' / '-'
    is deleted - dotted / colon-separated / plus-joined names (Java properties, docker-compose and systemd exports), the
    same in upper case, mixed with the real separators, and a foreign character put anywhere inside a real spelling"""
    out = []
    for _ in range(k):
        sep = rng.choice(SEPARATORS)
        x = rng.random()
        if x < 0.4 and len(words) > 1:
            s = sep.join(words)
        elif x < 0.6 and len(words) > 2:
            s = words[0] + sep + rng.choice(['_', '-']).join(words[1:])
        else:
            s = rng.choice(spellings(words))
            at = rng.randint(0, len(s))
            s = s[:at] + sep + s[at:]
        out.append(rng.choice([s, s, s.upper(), s.title()]))
    return out


def clean(s):
    return s.replace('-', '').replace('_', '').lower()


def split_prefix(p):
    """words of a prefix for building spellings of prefix+field"""
    return [w for w in re.split(r'[_-]', p.lower()) if w]


# --------------------------------------------------------------------------- reference (the statement, outright)

def to_snake_ref(s):
    from dataclass_wizard.utils.string_conv import to_snake_case   # pure casing helper (checked by C08)
    return to_snake_case(s)


def tiers(prio, key):
    if prio == 'SCREAMING_SNAKE':
        return [key.upper(), key]
    if prio == 'SNAKE':
        return [key, key.upper()]
    sn = to_snake_ref(key)
    return [key, sn.upper(), sn]


def ref_resolve(osenv, secrets, dotenvs, cls, prefix, kw):
    """-> list of (field, expectation); expectation = ['oneof', sorted values] | ['dflt'] | ['missing']"""
    eff = dict(osenv)
    for d in secrets:
        eff.update(d)
    for d in dotenvs:
        eff.update(d)
    out = []
    for f in cls['fields']:
        name = f['name']
        if name in kw:
            out.append((name, ['oneof', [kw[name]]]))
            continue
        got = None
        for n in f.get('explicit') or []:
            if prefix + n in eff:
                got = [eff[prefix + n]]
                break
        if got is None:
            key = prefix + name
            for n in tiers(cls['prio'], key):
                if n in eff:
                    got = [eff[n]]
                    break
        if got is None:
            cands = sorted({v for n, v in eff.items() if clean(n) == clean(prefix + name)})
            if cands:
                got = cands
        if got is not None:
            out.append((name, ['oneof', got]))
        else:
            out.append((name, ['dflt'] if f['dflt'] else ['missing']))
    return out


def meets(outcome, exp):
    miss = [n for n, e in exp if e == ['missing']]
    if 'missing' in outcome:
        return bool(miss) and outcome['missing'] == miss
    if 'ok' not in outcome or miss:
        return False
    if [n for n, _ in outcome['ok']] != [n for n, _ in exp]:
        return False
    for (n, r), (_, e) in zip(outcome['ok'], exp):
        if r[0] == 'val':
            if e[0] != 'oneof' or r[1] not in e[1]:
                return False
        elif r != e:
            return False
    return True


def bad_value(case, f, v):
    """does the field's type reject the string `v`?  Only Literal-typed fields ('typ': 'lit', members = case['lit']) do"""
    return f.get('typ') == 'lit' and v not in set(case.get('lit') or [])


def meets_typed(case, cls, outcome, exp):
    """`meets`, extended to fields whose type can reject the chosen string (the statement: 'the chosen string is converted by
    the field's type'): a field all of whose admissible strings are rejected makes the instantiation fail with ParseError
    naming a field whose chosen string is rejected (MissingVars is accepted instead when a field is missing as well: the
    statement does not rank the two errors); an instance is only acceptable when every field holds an accepted string"""
    fields = {f['name']: f for f in cls['fields']}
    surely = [n for n, e in exp if e[0] == 'oneof' and all(bad_value(case, fields[n], v) for v in e[1])]
    maybe = [n for n, e in exp if e[0] == 'oneof' and any(bad_value(case, fields[n], v) for v in e[1])]
    if not maybe:
        return meets(outcome, exp)
    if 'raised' in outcome:
        return outcome['raised'] == 'ParseError' and outcome.get('field') in maybe
    if 'missing' in outcome:
        return meets(outcome, exp)
    if surely or 'ok' not in outcome:
        return False
    return meets(outcome, exp) and not any(r[0] == 'val' and bad_value(case, fields[n], r[1]) for n, r in outcome['ok'])


def attribute(case, cls, prefix, kw, eff, outcome, exp, last_win):
    """known-finding key explaining why `outcome` does not meet `exp`, or None"""
    got = dict((n, r) for n, r in outcome.get('ok', []))
    missing = set(outcome.get('missing', []))
    keys = set()
    for f, (name, e) in zip(cls['fields'], exp):
        if 'raised' in outcome:
            return None
        r = ['missing'] if name in missing else got.get(name)
        if r is None:
            if 'missing' in outcome:      # not reported although the instance was not built: judged via other fields
                continue
            return None
        ok = (r[0] == 'val' and e[0] == 'oneof' and r[1] in e[1]) or (r[0] != 'val' and r == e)
        if ok:
            continue
        if r[0] == 'val' or name in kw:
            return None                   # a wrong VALUE is never one of the known findings
        ex = f.get('explicit') or []
        present = [n for n in ex if prefix + n in eff]
        if ex and len(ex) >= 2 and prefix and present:
            keys.add(KEY_MULTI)
        elif ex and not present:
            keys.add(KEY_NOFALL)
        elif not ex and not any(n in eff for n in tiers(cls['prio'], prefix + name)) \
                and last_win.get(clean(prefix + name)) is not None and last_win[clean(prefix + name)] not in eff:
            # the spelling the cache last held for this cleaned key has vanished (deleted, or its overlay is gone) and the
            # surviving spelling was never re-added: exactly the known finding, nothing wider
            keys.add(KEY_STALE)
        else:
            return None
    if len(keys) == 1:
        return keys.pop()
    if keys:
        return sorted(keys)[0] if all(k in (KEY_STALE, KEY_MULTI, KEY_NOFALL) for k in keys) else None
    return None


# --------------------------------------------------------------------------- implementation side (forked child)

LEVEL_DIRS = ['a', 'b']     # relative mode: the working directory is <tmp>/a/b; level 0 = there, 1 = <tmp>/a, 2 = <tmp>


def file_place(case, tmp, j, level=0):
    """where dotenv file j lives on disk (relative mode: at `level` directories above the working directory)"""
    if case.get('rel'):
        return os.path.join(tmp, *LEVEL_DIRS[:len(LEVEL_DIRS) - level], f'f{j}.env')
    return os.path.join(tmp, f'f{j}.env')


def file_name(case, tmp, j, how):
    """how the user NAMES dotenv file j: absolute, or (relative mode) by its bare name, looked up from the working directory
    upwards; `spell` 1 puts a `./` component in; `pathkind` 'path' hands a pathlib.Path over instead of a str"""
    name = f'f{j}.env'
    if case.get('rel'):
        s = './' + name if how.get('spell') else name
    else:
        s = os.path.join(tmp, '.', name) if how.get('spell') else os.path.join(tmp, name)
    return Path(s) if how.get('pathkind') == 'path' else s


def dir_name(tmp, j, how):
    s = os.path.join(tmp, '.', f'd{j}') if how.get('spell') else os.path.join(tmp, f'd{j}')
    return Path(s) if how.get('pathkind') == 'path' else s


class PathSrc:
    """repr = the source text of a path argument (`Path('...')` for pathlib paths; Path itself would normalise `./` away)"""
    def __init__(self, p):
        self.p = p

    def __repr__(self):
        return f'Path({str(self.p)!r})' if isinstance(self.p, Path) else repr(self.p)


def class_source(i, cls, tmp, case=None):
    name = f'E{i}'
    lines = [f'class {name}(EnvWizard):']
    meta = []
    if cls.get('prefix') is not None:
        meta.append(f'        env_prefix = {cls["prefix"]!r}')
    if cls['prio'] != 'SCREAMING_SNAKE' or cls.get('prio_explicit'):     # the default is left implicit half of the time
        meta.append(f'        key_lookup_with_load = {cls["prio"]!r}')
    if cls.get('dotenv') is not None:
        paths = [PathSrc(file_name(case or {}, tmp, j, cls)) for j in cls['dotenv']]
        meta.append(f'        env_file = {paths[0]!r}' if len(paths) == 1 and cls.get('single') else f'        env_file = {paths!r}')
    if cls.get('secrets') is not None:
        paths = [PathSrc(dir_name(tmp, j, cls)) for j in cls['secrets']]
        meta.append(f'        secrets_dir = {paths[0]!r}' if len(paths) == 1 and cls.get('single') else f'        secrets_dir = {paths!r}')
    f2v = {f['name']: (f['explicit'][0] if len(f['explicit']) == 1 else tuple(f['explicit']))
           for f in cls['fields'] if f.get('explicit') and f.get('via') == 'meta'}
    if cls.get('map') is not None:
        # the mapping is a module-level constant that other classes of the history name as well (one dict object)
        meta.append(f'        field_to_env_var = MAP{cls["map"]}')
    elif f2v:
        meta.append(f'        field_to_env_var = {f2v!r}')
    if meta:
        lines.append('    class _(EnvWizard.Meta):')
        lines += meta
    for f in cls['fields']:
        d = f'D:{f["name"]}'
        ex = f.get('explicit')
        tp = 'LIT' if f.get('typ') == 'lit' else 'str'       # LIT = Literal[every accepted token of the history]
        if ex and f.get('via') in ('env_field', 'json_field'):
            keys = repr(ex[0]) if len(ex) == 1 else repr(tuple(ex))
            dflt = f', default={d!r}' if f['dflt'] else ''
            lines.append(f'    {f["name"]}: {tp} = {f["via"]}({keys}{dflt})')
        elif f['dflt']:
            lines.append(f'    {f["name"]}: {tp} = {d!r}')
        else:
            lines.append(f'    {f["name"]}: {tp}')
    if not cls['fields']:
        lines.append('    pass')
    return name, '\n'.join(lines) + '\n'


def peek_state():
    from dataclass_wizard.environ import lookups
    from dataclass_wizard.environ.lookups import Env
    vn = vars(Env).get('var_names')
    cl = vars(Env).get('cleaned_to_env')
    return {'environ': None if lookups.environ is None else sorted([k, v] for k, v in lookups.environ.items()),
            'var_names': sorted(vn) if isinstance(vn, (set, frozenset)) else None,
            'cleaned': sorted([k, v] for k, v in cl.items()) if isinstance(cl, dict) else None,
            'accessed': bool(Env._accessed_cleaned_to_env)}


def map_dict(pairs):
    """a shared Meta.field_to_env_var constant as the user writes it (one name: str, several: tuple)"""
    return {n: (ex[0] if len(ex) == 1 else tuple(ex)) for n, ex in pairs}


def write_dir(d, content):
    """(re)write a secrets directory wholesale: one file per variable"""
    if os.path.isdir(d):
        shutil.rmtree(d)
    os.mkdir(d)
    for k, v in content:
        with open(os.path.join(d, k), 'w') as fh:
            fh.write(v)


def write_file(path, content):
    with open(path, 'w') as fh:
        fh.write(''.join(f'{k}={v}\n' for k, v in content))


CHILD_EXTRA = {}       # filled by child_run in the forked child: observations that belong to the whole history


def child_run(case, tmp):
    """runs in the forked child; returns the list of per-op observations"""
    import logging
    logging.disable(logging.CRITICAL)
    from dataclass_wizard import EnvWizard, env_field, json_field
    from dataclass_wizard.errors import MissingVars
    from dataclass_wizard.environ.lookups import Env
    st0 = peek_state()
    if st0['environ'] is not None or st0['var_names'] is not None or st0['cleaned'] is not None or st0['accessed']:
        raise RuntimeError('Env state not pristine in the parent process')
    os.environ.clear()
    for k, v in case['os']:
        os.environ[k] = v
    import sys
    if case.get('rel'):
        # relative dotenv names are looked up from the working directory upwards when python runs interactively
        # (dotenv.find_dotenv; from a script: from the directory of the calling module, here the library's own)
        os.makedirs(os.path.join(tmp, *LEVEL_DIRS))
        os.chdir(os.path.join(tmp, *LEVEL_DIRS))
        sys.ps1 = '>>> '
    for j, content in enumerate(case['files']):
        if content is not None:                 # None: the file does not exist (yet)
            write_file(file_place(case, tmp, j, (case.get('flevels') or [0] * len(case['files']))[j]), content)
    for j, content in enumerate(case['dirs']):
        if content is not None:
            write_dir(os.path.join(tmp, f'd{j}'), content)
    import types
    from typing import Literal
    mod = types.ModuleType('dwv_c18')
    sys.modules['dwv_c18'] = mod
    ns = mod.__dict__
    ns.update({'EnvWizard': EnvWizard, 'env_field': env_field, 'json_field': json_field, 'Path': Path})
    if case.get('lit'):
        ns['LIT'] = Literal[tuple(case['lit'])]
    maps = [map_dict(pairs) for pairs in case.get('maps') or []]
    for k, m in enumerate(maps):
        ns[f'MAP{k}'] = m
    classes = []
    def define(i):
        name, src = class_source(i, case['classes'][i], tmp, case)
        exec(compile(src, f'<c18:{name}>', 'exec'), ns)
        return ns[name]

    for i, cls in enumerate(case['classes']):
        classes.append(None if cls.get('late') else define(i))      # `late`: defined by a `define` operation of the history
    if os.environ.keys() != {k for k, _ in case['os']} or peek_state() != st0:
        raise RuntimeError('class creation touched the environment state')
    outs = []
    for op in case['ops']:
        t = op['t']
        if t == 'set':
            os.environ[op['k']] = op['v']
            outs.append({})
        elif t == 'del':
            os.environ.pop(op['k'], None)
            outs.append({})
        elif t == 'write':
            path = file_place(case, tmp, op['file'], op.get('level', 0))
            if op['content'] is None:
                if os.path.exists(path):
                    os.unlink(path)
            else:
                write_file(path, op['content'])
            outs.append({})
        elif t == 'wdir':
            if op['content'] is None:
                shutil.rmtree(os.path.join(tmp, f'd{op["dir"]}'), ignore_errors=True)
            else:
                write_dir(os.path.join(tmp, f'd{op["dir"]}'), op['content'])
            outs.append({})
        elif t == 'define':
            before, st = dict(os.environ), peek_state()
            classes[op['cls']] = define(op['cls'])
            if dict(os.environ) != before or peek_state() != st:
                raise RuntimeError('class creation touched the environment state')
            outs.append({})
        elif t == 'reload':
            before = dict(os.environ)
            Env.reload()
            outs.append({'state': peek_state(), 'os_same': dict(os.environ) == before})
        else:
            cls = classes[op['cls']]
            kwargs = dict(op['kw'])
            if op['reload']:
                kwargs['_reload'] = True
            if 'prefix' in op:
                kwargs['_env_prefix'] = op['prefix']
            if 'envfile' in op:
                ef = op['envfile']
                kwargs['_env_file'] = False if ef == [] else (
                    file_name(case, tmp, ef[0], op) if len(ef) == 1 and op.get('single') else
                    [file_name(case, tmp, j, op) for j in ef])
            if 'secretsdir' in op:
                sd = op['secretsdir']
                kwargs['_secrets_dir'] = None if sd == [] else (
                    dir_name(tmp, sd[0], op) if len(sd) == 1 and op.get('single') else
                    [dir_name(tmp, j, op) for j in sd])
            before = dict(os.environ)
            try:
                obj = cls(**kwargs)
                res = {'ok': []}
                for f in case['classes'][op['cls']]['fields']:
                    v = getattr(obj, f['name'])
                    if not isinstance(v, str):
                        res['ok'].append([f['name'], ['nonstr', repr(v)]])
                    elif v == f'D:{f["name"]}':
                        res['ok'].append([f['name'], ['dflt']])
                    else:
                        res['ok'].append([f['name'], ['val', v]])
            except MissingVars as e:
                res = {'missing': re.findall(r'^\s+- (\w+) -> ', e.fields, re.M)}
            except Exception as e:
                res = {'raised': type(e).__name__, 'text': repr(e)[:200]}
                if isinstance(getattr(e, 'field_name', None), str):
                    res['field'] = e.field_name
            outs.append({'out': res, 'state': peek_state(), 'os_same': dict(os.environ) == before})
    if maps:
        # the user's own mapping objects, as they are after the history (a library that writes into them couples classes)
        CHILD_EXTRA['maps_after'] = [sorted([n, list(v) if isinstance(v, tuple) else [v]] for n, v in m.items())
                                     if isinstance(m, dict) and all(isinstance(n, str) for n in m) else repr(m) for m in maps]
    return outs


def run_forked(cases, par=8):
    """each case in its own forked child (global library state pristine per history); results through a pipe"""
    results = [None] * len(cases)
    for base in range(0, len(cases), par):
        live = []
        for idx in range(base, min(base + par, len(cases))):
            tmp = tempfile.mkdtemp(prefix='dwv_c18_')
            r, w = os.pipe()
            pid = os.fork()
            if pid == 0:
                code = 0
                try:
                    os.close(r)
                    CHILD_EXTRA.clear()
                    outs = child_run(cases[idx], tmp)
                    data = json.dumps(dict(CHILD_EXTRA, outs=outs))
                except BaseException:
                    data = json.dumps({'harness_error': traceback.format_exc()[-1500:]})
                    code = 1
                try:
                    with os.fdopen(w, 'w') as fh:
                        fh.write(data)
                finally:
                    os._exit(code)
            os.close(w)
            live.append((idx, pid, r, tmp))
        for idx, pid, r, tmp in live:
            with os.fdopen(r) as fh:
                data = fh.read()
            os.waitpid(pid, 0)
            shutil.rmtree(tmp, ignore_errors=True)
            try:
                results[idx] = json.loads(data)
            except Exception:
                results[idx] = {'harness_error': 'no data from child'}
    return results


# --------------------------------------------------------------------------- generation

class Gen:
    def __init__(self, rng):
        self.rng = rng
        self.n = 0
        self.bad = 0.0      # chance that the next value token is one the Literal-typed fields of the history reject
        self.good = []      # the accepted tokens issued for the current history
        self.empty = 0.0    # chance that the next value is the EMPTY string: a variable that is present but empty is present
        self.p_explicit = 0.3           # chance that a field is explicitly mapped (env_field / json_field / Meta.field_to_env_var)
        self.explicit_k = [1, 1, 2, 3]  # how many variables an explicit mapping names

    def tok(self, tag):
        self.n += 1
        if self.empty and self.rng.random() < self.empty:
            return ''
        if self.bad and self.rng.random() < self.bad:
            return f'BAD{self.n}'
        t = f'{tag}{self.n}'
        self.good.append(t)
        return t

    def edit(self, content, pool, tag):
        """a dotenv file / secrets directory after the user edited it: entries kept, given a new value, dropped, added"""
        rng = self.rng
        out = []
        for k, v in content:
            x = rng.random()
            if x < 0.4:
                out.append([k, self.tok(tag)])
            elif x < 0.6:
                out.append([k, v])
        have = {k for k, _ in out}
        for k in rng.sample(pool, min(len(pool), rng.choice([0, 1, 1, 2]))):
            if k not in have:
                out.append([k, self.tok(tag)])
        return out

    def history(self, max_ops, empty=None):
        rng = self.rng
        typed = rng.random() < 0.3           # some fields are Literal-typed and some values are rejected by them
        self.bad, self.good = (0.12 if typed else 0.0), []
        if empty is None:
            empty = rng.choice([0.0, 0.0, 0.08, 0.2])      # half of the histories hold some present-but-empty variables
        self.empty = empty
        stems = rng.sample(STEMS, rng.choice([1, 2, 2, 3]))
        ncls = rng.choice([1, 1, 2, 3])
        classes, pool = [], []
        near = rng.random() < 0.5            # half of the histories hold near-miss variable names (foreign characters)
        custom = ['CUSTOM_A', 'other', 'Third-Name']
        named = []                           # (field name, words) used so far: later classes re-use some (like-named fields)
        for _ in range(ncls):
            prefix = rng.choice(PREFIXES)
            p = prefix or ''
            prio = rng.choice(PRIOS + ['SCREAMING_SNAKE'])
            fields, used = [], set()
            for _ in range(rng.choice([0, 1, 2, 2, 3, 4]) if ncls > 1 else rng.choice([1, 2, 3, 4])):
                if named and rng.random() < 0.35:
                    name, words = rng.choice(named)
                else:
                    words = rng.choice(stems)
                    name = rng.choice(ident_spellings(words))
                if name in used:
                    continue
                used.add(name)
                named.append((name, words))
                f = {'name': name, 'dflt': rng.random() < 0.6}
                if typed and rng.random() < 0.5:
                    f['typ'] = 'lit'
                if rng.random() < self.p_explicit:
                    k = rng.choice(self.explicit_k)
                    cands = custom + spellings(rng.choice(stems))[:6]
                    f['explicit'] = rng.sample(cands, k)
                    f['via'] = rng.choice(['env_field', 'json_field', 'meta'])
                    pool += [p + n for n in f['explicit']]
                fields.append(f)
                pool += spellings(split_prefix(p) + words)
                pool += [p + name, (p + name).upper(), to_snake_ref(p + name), to_snake_ref(p + name).upper()]
                pool += [p + s for s in spellings(words)[:4]]
                if near:
                    # variables that differ from a spelling of the (prefixed) field by a character that is no separator
                    pool += near_spellings(split_prefix(p) + words, rng, rng.choice([1, 2, 3]))
                    if p:
                        pool += [p + s for s in near_spellings(words, rng, 1)]
            cls = {'fields': fields, 'prio': prio}
            if rng.random() < 0.5:
                cls['prio_explicit'] = True
            if prefix is not None:
                cls['prefix'] = prefix
            classes.append(cls)
        maps = []
        if ncls >= 2 and rng.random() < 0.5:
            # ONE mapping object (a module constant) named as Meta.field_to_env_var by several classes: its entries are those
            # the classes of the group wanted, so a class may find names of fields it does not have, and a field mapped by
            # env_field / json_field in one class can be left to the letter-case lookup in another
            group = sorted(rng.sample(range(ncls), rng.choice([2, ncls])))
            shared = {}
            for ci in group:
                for f in classes[ci]['fields']:
                    if f.get('via') == 'meta' and f['name'] not in shared:
                        shared[f['name']] = list(f['explicit'])
            if not shared or rng.random() < 0.3:
                shared.setdefault(rng.choice(ident_spellings(rng.choice(stems))), [rng.choice(custom)])
            for ci in group:
                classes[ci]['map'] = 0
                for f in classes[ci]['fields']:
                    if f['name'] in shared:
                        f['explicit'], f['via'] = list(shared[f['name']]), 'meta'
                        pool += [(classes[ci].get('prefix') or '') + n for n in f['explicit']]
            maps.append(sorted([n, ex] for n, ex in shared.items()))
        if not pool:
            pool = spellings(stems[0])
        pool = sorted(set(n for n in pool if n and '=' not in n))
        nfiles, ndirs = rng.choice([0, 1, 2, 3]), rng.choice([0, 0, 1, 2])

        def content(tag):
            if rng.random() < 0.25:
                return []                                    # an empty file / directory, deliberately
            return [[n, self.tok(tag)] for n in rng.sample(pool, min(len(pool), rng.choice([1, 1, 2, 3])))]
        files = [content('f') for _ in range(nfiles)]
        dirs = [content('s') for _ in range(ndirs)]
        for cls in classes:
            if files and rng.random() < 0.3:
                cls['dotenv'] = rng.sample(range(nfiles), rng.choice([1, min(2, nfiles)]))
                cls['single'] = rng.random() < 0.5
            if dirs and rng.random() < 0.3:
                cls['secrets'] = rng.sample(range(ndirs), rng.choice([1, min(2, ndirs)]))
                cls['single'] = cls.get('single', rng.random() < 0.5)
        # files named by a Meta.env_file are read when the class is created (findings/meta-env-file-read-once.md): only the
        # other files are rewritten during a history
        bound = {j for cls in classes for j in cls.get('dotenv') or []}
        free_files = [j for j in range(nfiles) if j not in bound]
        curf, curd = [list(c) for c in files], [list(c) for c in dirs]
        # half of the histories with files keep passing the SAME selection of files (the usual way _env_file is used)
        fav = rng.sample(range(nfiles), rng.choice([1, 1, min(2, nfiles)])) if files and rng.random() < 0.5 else None
        osenv = [[n, self.tok('o')] for n in rng.sample(pool, rng.randint(0, min(len(pool), 6)))]
        cur = {k for k, _ in osenv}
        ops = []
        for _ in range(rng.randint(2, max_ops)):
            if (free_files or dirs) and rng.random() < 0.12:
                if free_files and (not dirs or rng.random() < 0.7):
                    j = rng.choice(free_files)
                    curf[j] = self.edit(curf[j], pool, 'f')
                    ops.append({'t': 'write', 'file': j, 'content': curf[j]})
                else:
                    j = rng.randrange(ndirs)
                    curd[j] = self.edit(curd[j], pool, 's')
                    ops.append({'t': 'wdir', 'dir': j, 'content': curd[j]})
                continue
            x = rng.random()
            if x < 0.28:
                k = rng.choice(pool)
                ops.append({'t': 'set', 'k': k, 'v': self.tok('o')})
                cur.add(k)
            elif x < 0.48 and cur:
                k = rng.choice(sorted(cur))
                ops.append({'t': 'del', 'k': k})
                cur.discard(k)
            elif x < 0.53:
                ops.append({'t': 'reload'})
            else:
                ci = rng.randrange(ncls)
                cls = classes[ci]
                op = {'t': 'inst', 'cls': ci, 'reload': rng.random() < 0.75, 'kw': []}
                for f in cls['fields']:
                    if rng.random() < 0.15:
                        op['kw'].append([f['name'], self.tok('k')])
                if rng.random() < 0.1:
                    op['prefix'] = rng.choice([q for q in PREFIXES if q is not None] + [None])
                if files and rng.random() < (0.6 if fav else 0.3):
                    if fav and rng.random() < 0.75:
                        op['envfile'] = list(fav)
                    else:
                        op['envfile'] = rng.sample(range(nfiles), rng.choice([0, 1, 1, min(2, nfiles), nfiles]))
                if dirs and rng.random() < 0.3:
                    op['secretsdir'] = rng.sample(range(ndirs), rng.choice([0, 1, 1, ndirs]))
                op['single'] = rng.random() < 0.5
                ops.append(op)
        if not any(o['t'] == 'inst' for o in ops):
            ops.append({'t': 'inst', 'cls': 0, 'reload': True, 'kw': [], 'single': False})
        case = {'os': osenv, 'files': files, 'dirs': dirs, 'classes': classes, 'ops': ops}
        if maps:
            case['maps'] = maps
        if typed:
            case['lit'] = list(self.good) or ['g0']
        self.bad = self.empty = 0.0
        return case

    def mapped(self, max_ops):
        """the explicit-mapping family: most fields are mapped to 1-3 variables (env_field / json_field keys, Meta.field_to_env_var
        strings and tuples; with and without prefix, with and without default), and the variables - in os.environ, dotenv
        files (`KEY=`) and secrets files (an empty file) - are PRESENT BUT EMPTY about as often as they hold a value.  The
        statement's "first present wins" counts an empty value as present: it wins over a later mapped variable, over
        the default, and is no MissingVars."""
        self.p_explicit, self.explicit_k = 0.8, [1, 2, 2, 3]
        try:
            return self.history(max_ops, empty=self.rng.choice([0.3, 0.45, 0.6]))
        finally:
            self.p_explicit, self.explicit_k = 0.3, [1, 1, 2, 3]

    def fs_history(self, max_ops):
        """histories over the FILE SYSTEM.  The classes, the process environment and the pool of variable names are those of
        `history`; what varies here is what is on disk when: a dotenv file / secrets directory may not exist at the first
        instantiation that names it, is created later, rewritten, removed, created again; with relative names (`rel`) a file
        lives in the working directory or only in a directory above it, and a nearer copy may appear or vanish; the path is
        handed over as str or Path, plain or with a `./` component, the same spelling again and again or another one; a
        class may be defined in the middle of the history (`late`), after files it names (Meta.env_file) or other classes
        named came and went.  The oracle is `ref_resolve` on what is on disk at the moment of the instantiation (FsView)."""
        rng = self.rng
        base = self.history(4)
        typed = 'lit' in base
        self.bad, self.good, self.empty = (0.12 if typed else 0.0), [], 0.0
        classes = base['classes']
        pool = [k for k, _ in base['os']] + [k for c in base['files'] + base['dirs'] for k, _ in c] + \
               [op['k'] for op in base['ops'] if op['t'] == 'set']
        for cls in classes:
            for k in ('dotenv', 'secrets', 'single'):
                cls.pop(k, None)
            p = cls.get('prefix') or ''
            for f in cls['fields']:
                pool += tiers(cls['prio'], p + f['name'])[:2] + [p + n for n in f.get('explicit') or []]
        pool = sorted(set(n for n in pool if n and '=' not in n and '/' not in n))
        ncls = len(classes)
        nfiles, ndirs = rng.choice([1, 2, 2, 3]), rng.choice([0, 1, 1, 2])
        rel = rng.random() < 0.35
        levels = [0, 1, 2] if rel else [0]

        def content(tag):
            if rng.random() < 0.15:
                return []
            return [[n, self.tok(tag)] for n in rng.sample(pool, min(len(pool), rng.choice([1, 2, 2, 3])))]

        def how():
            return {'pathkind': rng.choice(['str', 'str', 'path']), 'spell': rng.choice([0, 0, 0, 1])}
        files = [None if rng.random() < 0.6 else content('f') for _ in range(nfiles)]
        flevels = [rng.choice(levels) for _ in range(nfiles)]
        dirs = [None if rng.random() < 0.5 else content('s') for _ in range(ndirs)]
        copies = [({} if c is None else {flevels[j]: c}) for j, c in enumerate(files)]
        curd = list(dirs)
        for cls in classes:
            if rng.random() < 0.45:
                cls['late'] = True
            if rng.random() < 0.3:
                cls['dotenv'] = rng.sample(range(nfiles), rng.choice([1, min(2, nfiles)]))
            if ndirs and rng.random() < 0.3:
                cls['secrets'] = rng.sample(range(ndirs), rng.choice([1, min(2, ndirs)]))
            if 'dotenv' in cls or 'secrets' in cls:
                cls.update(how(), single=rng.random() < 0.5)
        defined = [i for i, cls in enumerate(classes) if not cls.get('late')]
        # a file named by the Meta.env_file of a DEFINED class is left alone from then on (read when the class is created)
        frozen = {j for i in defined for j in classes[i].get('dotenv') or []}
        fav = dict(how(), envfile=rng.sample(range(nfiles), rng.choice([1, 1, min(2, nfiles)])), single=rng.random() < 0.5) \
            if rng.random() < 0.7 else None
        favd = dict(secretsdir=rng.sample(range(ndirs), rng.choice([1, ndirs]))) if ndirs and rng.random() < 0.5 else None
        osenv = list(base['os'])
        cur = {k for k, _ in osenv}
        ops = []

        def define(i):
            ops.append({'t': 'define', 'cls': i})
            defined.append(i)
            frozen.update(classes[i].get('dotenv') or [])

        def inst():
            if not defined:
                define(rng.randrange(ncls))
            ci = rng.choice(defined)
            op = {'t': 'inst', 'cls': ci, 'reload': rng.random() < 0.85, 'kw': [], 'single': rng.random() < 0.5}
            for f in classes[ci]['fields']:
                if rng.random() < 0.1:
                    op['kw'].append([f['name'], self.tok('k')])
            if rng.random() < 0.75:
                if fav and rng.random() < 0.75:
                    op.update(fav)
                else:
                    op.update(how(), envfile=rng.sample(range(nfiles), rng.choice([0, 1, 1, min(2, nfiles), nfiles])))
            if ndirs and rng.random() < 0.45:
                if favd and rng.random() < 0.7:
                    op.update(favd)
                else:
                    op['secretsdir'] = rng.sample(range(ndirs), rng.choice([0, 1, 1, ndirs]))
                if 'pathkind' not in op:
                    op.update(how())
            ops.append(op)

        for _ in range(rng.randint(3, max_ops)):
            x = rng.random()
            free = [j for j in range(nfiles) if j not in frozen]
            if x < 0.3 and (free or ndirs):
                if free and (not ndirs or rng.random() < 0.7):
                    j = rng.choice(free)
                    here = sorted(copies[j])
                    if here and rng.random() < 0.4:                       # a copy goes away
                        lv = rng.choice(here)
                        del copies[j][lv]
                        ops.append({'t': 'write', 'file': j, 'level': lv, 'content': None})
                    else:                                                 # a copy appears / is rewritten
                        lv = rng.choice(levels)
                        new = self.edit(copies[j][lv], pool, 'f') if lv in copies[j] and rng.random() < 0.6 else content('f')
                        copies[j][lv] = new
                        ops.append({'t': 'write', 'file': j, 'level': lv, 'content': new})
                else:
                    j = rng.randrange(ndirs)
                    if curd[j] is not None and rng.random() < 0.4:
                        curd[j] = None
                    else:
                        curd[j] = self.edit(curd[j], pool, 's') if curd[j] is not None and rng.random() < 0.6 else content('s')
                    ops.append({'t': 'wdir', 'dir': j, 'content': curd[j]})
            elif x < 0.38:
                k = rng.choice(pool)
                ops.append({'t': 'set', 'k': k, 'v': self.tok('o')})
                cur.add(k)
            elif x < 0.43 and cur:
                k = rng.choice(sorted(cur))
                ops.append({'t': 'del', 'k': k})
                cur.discard(k)
            elif x < 0.46:
                ops.append({'t': 'reload'})
            elif x < 0.54 and len(defined) < ncls:
                define(rng.choice([i for i in range(ncls) if i not in defined]))
            else:
                inst()
        if ops[-1]['t'] != 'inst':
            inst()
        case = {'os': osenv, 'files': files, 'dirs': dirs, 'classes': classes, 'ops': ops, 'fs': True, 'flevels': flevels}
        if rel:
            case['rel'] = True
        if base.get('maps'):
            case['maps'] = base['maps']
        if typed:
            case['lit'] = sorted(set(base['lit']) | set(self.good))
        self.bad = self.empty = 0.0
        return case

    def recovery(self, max_rounds):
        """failure, then recovery.  An instantiation fails — a value its field's type rejects (ParseError), a required field
        without any source (MissingVars), or both; then the user repairs the environment, spelling the repaired variable at
        ANY tier of the lookup; then the same class or its sibling (same names, other defaults) is instantiated with
        _reload=True.  What a failed instantiation leaves behind (process-wide caches, the class) must not show."""
        rng = self.rng
        self.bad, self.good = 0.0, []
        stems = rng.sample(STEMS, rng.choice([2, 2, 3]))
        prefix = rng.choice(PREFIXES)
        p = prefix or ''
        prio = rng.choice(PRIOS + ['SCREAMING_SNAKE', 'SCREAMING_SNAKE'])
        fields = []
        for words in stems:
            f = {'name': rng.choice(ident_spellings(words)), 'dflt': rng.random() < 0.4, 'words': words}
            if rng.random() < 0.5:
                f['typ'] = 'lit'
            if rng.random() < 0.15:
                f['explicit'], f['via'] = [rng.choice(['CUSTOM_A', 'other'])], rng.choice(['env_field', 'json_field', 'meta'])
            fields.append(f)
        if not any(f.get('typ') for f in fields):
            rng.choice(fields)['typ'] = 'lit'
        if all(f['dflt'] for f in fields):
            rng.choice(fields)['dflt'] = False
        A = {'fields': fields, 'prio': prio}
        B = {'fields': [dict(f, dflt=rng.random() < 0.5) for f in fields], 'prio': rng.choice([prio, prio, rng.choice(PRIOS)])}
        if prefix is not None:
            A['prefix'] = B['prefix'] = prefix

        def spell(f, how):
            if f.get('explicit'):
                return p + f['explicit'][0]
            exact = tiers(prio, p + f['name'])
            if how == 'exact':
                return rng.choice(exact)
            return rng.choice([s for s in spellings(split_prefix(p) + f['words']) if s not in exact] or exact)

        def names_of(f):
            return set(spellings(split_prefix(p) + f['words']) + tiers(prio, p + f['name']) + ([p + n for n in f.get('explicit') or []]))

        env = {}                       # the process environment as the generator tracks it
        for f in fields:
            how = rng.choice(['exact', 'exact', 'exact', 'cleaned', 'absent'])
            if how != 'absent':
                env[spell(f, how)] = self.tok('o')
        for f in fields:
            if not f.get('explicit') and rng.random() < 0.3:       # a near-miss name: present throughout, never a source
                env[near_spellings(split_prefix(p) + f['words'], rng, 1)[0]] = self.tok('o')
        osenv = [[k, v] for k, v in env.items()]
        ops = []

        def setv(k, v):
            env[k] = v
            ops.append({'t': 'set', 'k': k, 'v': v})

        def delv(k):
            env.pop(k, None)
            ops.append({'t': 'del', 'k': k})

        def inst(ci, reload=True):
            op = {'t': 'inst', 'cls': ci, 'reload': reload, 'kw': [], 'single': False}
            for f in fields:
                if rng.random() < 0.08:
                    op['kw'].append([f['name'], self.tok('k')])
            ops.append(op)

        if rng.random() < 0.3:
            inst(rng.randrange(2), rng.random() < 0.7)          # sometimes the failure is not the first use of the process
        for _ in range(rng.randint(1, max_rounds)):
            mode = rng.choice(['parse', 'parse', 'missing', 'both'])
            broken = []
            if mode in ('parse', 'both'):
                f = rng.choice([f for f in fields if f.get('typ')])
                present = [k for k in env if k in names_of(f)]
                k = rng.choice(present) if present and rng.random() < 0.7 else spell(f, rng.choice(['exact', 'exact', 'cleaned']))
                setv(k, f'BAD{self.n}')
                self.n += 1
                broken.append(('parse', f, k))
            if mode in ('missing', 'both'):
                f = rng.choice([f for f in fields if not f['dflt']])
                if not any(b[1] is f for b in broken):
                    for k in [k for k in env if k in names_of(f)]:
                        delv(k)
                    broken.append(('missing', f, None))
            inst(0, rng.random() < 0.75)                         # expected to fail
            rng.shuffle(broken)
            for kind, f, k in broken:                            # the repair
                if kind == 'parse' and rng.random() < 0.5:
                    setv(k, self.tok('o'))
                else:
                    if k is not None:
                        delv(k)
                    for k2 in [k2 for k2 in env if k2 in names_of(f)]:
                        if rng.random() < 0.5:
                            delv(k2)
                    setv(spell(f, rng.choice(['exact', 'cleaned', 'cleaned'])), self.tok('o'))
            if rng.random() < 0.3:                               # an unrelated variable moves to another spelling
                f = rng.choice(fields)
                for k in [k for k in env if k in names_of(f)]:
                    delv(k)
                setv(spell(f, rng.choice(['exact', 'cleaned'])), self.tok('o'))
            first = rng.randrange(2)
            inst(first)
            if rng.random() < 0.6:
                inst(1 - first)
        case = {'os': osenv, 'files': [], 'dirs': [], 'classes': [A, B], 'ops': ops, 'lit': list(self.good) or ['g0']}
        return case


def directed_cases():
    """the shapes the statement singles out (and the mutations named in the brief)"""
    E = {'fields': [{'name': 'myVar', 'dflt': True}], 'prio': 'SCREAMING_SNAKE'}
    R = {'t': 'inst', 'cls': 0, 'reload': True, 'kw': [], 'single': False}
    cases = []
    for first, second in (('MY_VAR', 'my_var'), ('my_var', 'MY_VAR'), ('My-Var', 'MY_VAR')):
        for gone in (first, second):
            cases.append({'os': [[first, 'o1'], [second, 'o2']], 'files': [], 'dirs': [], 'classes': [E],
                          'ops': [R, {'t': 'del', 'k': gone}, R]})
    # overlay variable evicts the os spelling, then disappears
    cases.append({'os': [['my_var', 'o1']], 'files': [[['MY_VAR', 'f1']]], 'dirs': [], 'classes': [E],
                  'ops': [dict(R, envfile=[0]), R]})
    # secrets then an EMPTY dotenv file: the secrets must survive
    S = {'fields': [{'name': 'token', 'dflt': False}, {'name': 'other', 'dflt': True}], 'prio': 'SCREAMING_SNAKE'}
    cases.append({'os': [], 'files': [[]], 'dirs': [[['TOKEN', 's1']]], 'classes': [S],
                  'ops': [dict(R, envfile=[0], secretsdir=[0])]})
    cases.append({'os': [['TOKEN', 'o1']], 'files': [[], [['TOKEN', 'f1']], [['TOKEN', 'f2']]], 'dirs': [[['TOKEN', 's1']]],
                  'classes': [S], 'ops': [dict(R, secretsdir=[0]), dict(R, envfile=[0], secretsdir=[0]),
                                          dict(R, envfile=[1, 2], secretsdir=[0]), dict(R, envfile=[2, 1]), R]})
    # explicit names with and without a prefix
    X = {'fields': [{'name': 'x', 'explicit': ['A', 'B'], 'via': 'env_field', 'dflt': True},
                    {'name': 'y', 'explicit': ['A'], 'via': 'meta', 'dflt': True},
                    {'name': 'z', 'explicit': ['NOPE'], 'via': 'json_field', 'dflt': False}],
         'prio': 'SCREAMING_SNAKE', 'prefix': 'P_'}
    cases.append({'os': [['A', 'o1'], ['B', 'o2'], ['P_A', 'o3'], ['P_B', 'o4'], ['P_Z', 'o5'], ['Z', 'o6']],
                  'files': [], 'dirs': [], 'classes': [X, dict(X, prefix=None)],
                  'ops': [R, dict(R, cls=1), dict(R, prefix=''), dict(R, cls=1, prefix='P_'), {'t': 'del', 'k': 'P_A'}, R,
                          dict(R, kw=[['z', 'k1']])]})
    # all missing fields reported together
    M = {'fields': [{'name': 'a', 'dflt': False}, {'name': 'b', 'dflt': True}, {'name': 'c', 'dflt': False},
                    {'name': 'd', 'explicit': ['Q'], 'via': 'env_field', 'dflt': False}], 'prio': 'SNAKE'}
    cases.append({'os': [['B', 'o1']], 'files': [], 'dirs': [], 'classes': [M],
                  'ops': [R, dict(R, kw=[['a', 'k1']]), {'t': 'set', 'k': 'C', 'v': 'o2'}, R, {'t': 'reload'}, dict(R, reload=False)]})
    return cases


def small_scope_cases(maxlen):
    """EVERY history of length ≤ maxlen over: set / delete one of three spellings of one key, instantiate with
    _reload=True, instantiate from the cache, instantiate with a dotenv overlay — the scope in which cache staleness lives"""
    import itertools
    pool = ['MY_VAR', 'my_var', 'My-Var']
    E = {'fields': [{'name': 'myVar', 'dflt': True}], 'prio': 'SCREAMING_SNAKE'}
    R = {'t': 'inst', 'cls': 0, 'reload': True, 'kw': [], 'single': False}
    alphabet = [('set', n) for n in pool] + [('del', n) for n in pool] + [('R',), ('C',), ('F',)]
    for ln in range(1, maxlen + 1):
        for seq in itertools.product(alphabet, repeat=ln):
            if seq[-1][0] in ('set', 'del') or not any(x[0] == 'set' or x[0] == 'F' for x in seq):
                continue                    # nothing observed at the end / nothing ever defined
            ops = []
            for pos, x in enumerate(seq):
                if x[0] == 'set':
                    ops.append({'t': 'set', 'k': x[1], 'v': f'o{pos}'})
                elif x[0] == 'del':
                    ops.append({'t': 'del', 'k': x[1]})
                elif x[0] == 'R':
                    ops.append(R)
                elif x[0] == 'C':
                    ops.append(dict(R, reload=False))
                else:
                    ops.append(dict(R, envfile=[0]))
            yield {'os': [], 'files': [[['MY_VAR', 'f1']]], 'dirs': [], 'classes': [E], 'ops': ops}


# --------------------------------------------------------------------------- probes of the three quirks

def probe_quirks():
    """run the three witnesses on the implementation (none depends on set-iteration order)"""
    R = {'t': 'inst', 'cls': 0, 'reload': True, 'kw': [], 'single': False}
    E = {'fields': [{'name': 'myVar', 'dflt': True}], 'prio': 'SCREAMING_SNAKE'}
    b = {'os': [['my_var', 'lower']], 'files': [], 'dirs': [], 'classes': [E],
         'ops': [R, {'t': 'set', 'k': 'MY_VAR', 'v': 'upper'}, R, {'t': 'del', 'k': 'MY_VAR'}, R]}
    X = {'fields': [{'name': 'x', 'explicit': ['A', 'B'], 'via': 'env_field', 'dflt': True}], 'prio': 'SCREAMING_SNAKE',
         'prefix': 'P_'}
    c = {'os': [['P_A', 'pa'], ['P_B', 'pb']], 'files': [], 'dirs': [], 'classes': [X], 'ops': [R]}
    Y = {'fields': [{'name': 'a', 'explicit': ['NOPE'], 'via': 'env_field', 'dflt': True}], 'prio': 'SCREAMING_SNAKE'}
    d = {'os': [['A', 'a']], 'files': [], 'dirs': [], 'classes': [Y], 'ops': [R]}
    rb, rc, rd = run_forked([b, c, d])
    for r in (rb, rc, rd):
        if 'harness_error' in r:
            raise RuntimeError('quirk probe failed: ' + r['harness_error'][-600:])
    q = {'stale': rb['outs'][-1]['out'] == {'ok': [['myVar', ['dflt']]]},
         'multi': rc['outs'][0]['out'] == {'ok': [['x', ['dflt']]]},
         'nofallback': rd['outs'][0]['out'] == {'ok': [['a', ['dflt']]]}}
    return q, {'stale': (b, rb), 'multi': (c, rc), 'nofallback': (d, rd)}


def replay(obj):
    """re-run a recorded history on the current tree and judge every _reload=True instantiation (./check --replay)"""
    case = obj['case']
    if 'case' in case and 'op_index' in case:
        case = case['case']
    res = run_forked([case])[0]
    ctx = C.Ctx('C18', 'quick', 0)
    ctx.model_available = False
    evaluate(ctx, 0, case, res, None, [], [])
    return {'violated': bool(ctx.failures), 'observed': res.get('outs'),
            'failures': [{'what': f['what'], 'key': f['key']} for f in ctx.failures]}


# --------------------------------------------------------------------------- run

class FsView:
    """what is on disk NOW, as the statement's oracle sees it: per dotenv file the content of the copy a lookup by its name
    finds (absolute names: the file itself; relative names: the nearest copy from the working directory upwards), an absent
    file / directory supplying nothing; and, per class with a Meta.env_file, the contents at the moment the class was created
    (that is when the library reads them, see overlays_of)"""

    def __init__(self, case):
        lv = case.get('flevels') or [0] * len(case['files'])
        self.copies = [({} if c is None else {lv[j]: c}) for j, c in enumerate(case['files'])]
        self.dirs = [c or [] for c in case['dirs']]
        self.case = case
        self.meta = {}
        for i, cls in enumerate(case['classes']):
            if not cls.get('late'):
                self.define(i)

    @property
    def files(self):
        return [(c[min(c)] if c else []) for c in self.copies]

    def define(self, i):
        cls = self.case['classes'][i]
        if cls.get('dotenv') is not None:
            files = self.files
            self.meta[i] = [files[j] for j in cls['dotenv']]

    def apply(self, op):
        """-> True when `op` is an operation on the file system / a class definition (no operation of the library)"""
        if op['t'] == 'write':
            if op['content'] is None:
                self.copies[op['file']].pop(op.get('level', 0), None)
            else:
                self.copies[op['file']][op.get('level', 0)] = op['content']
        elif op['t'] == 'wdir':
            self.dirs[op['dir']] = op['content'] or []
        elif op['t'] == 'define':
            self.define(op['cls'])
        else:
            return False
        return True


def meta_snapshots(case):
    fs = FsView(case)
    for op in case['ops']:
        fs.apply(op)
    return fs.meta


def model_request(case, outs, quirks):
    """the case as the driver wants it; `rank` of every op = the winners observed in cleaned_to_env afterwards"""
    classes = []
    snap = meta_snapshots(case)       # a never-defined class is never instantiated: its overlay is immaterial
    for ci, cls in enumerate(case['classes']):
        classes.append({'fields': [{'name': f['name'], 'explicit': f.get('explicit'), 'dflt': f['dflt']} for f in cls['fields']],
                        'prefix': cls.get('prefix') or '', 'prio': cls['prio'],
                        'dotenv': None if cls.get('dotenv') is None else snap.get(ci, [[] for _ in cls['dotenv']]),
                        'secrets': None if cls.get('secrets') is None else [case['dirs'][j] or [] for j in cls['secrets']]})
    ops = []
    fs = FsView(case)                 # contents as they are when an operation runs
    for op, o in zip(case['ops'], outs):
        rank = sorted(v for _, v in ((o.get('state') or {}).get('cleaned') or []))
        files, dirs = fs.files, fs.dirs
        if op['t'] in ('set', 'del'):
            ops.append(op)
        elif fs.apply(op):
            pass
        elif op['t'] == 'reload':
            ops.append({'t': 'reload', 'rank': rank})
        else:
            m = {'t': 'inst', 'cls': op['cls'], 'kw': op['kw'], 'reload': op['reload'], 'rank': rank}
            cls = case['classes'][op['cls']]
            if 'prefix' in op:
                m['prefix'] = op['prefix'] or ''
            if 'envfile' in op:
                m['envfile'] = [files[j] for j in op['envfile']]
            if 'secretsdir' in op:
                m['secretsdir'] = [dirs[j] for j in op['secretsdir']]
            elif cls.get('secrets') is not None:
                m['secretsdir'] = [dirs[j] for j in cls['secrets']]     # Meta.secrets_dir is read at every instantiation
            out = o.get('out') or {}
            if out.get('raised') == 'ParseError' and out.get('field') in [f['name'] for f in cls['fields']]:
                # the model has no value conversion.  What a ParseError at field k does to the library STATE is what an
                # instantiation of the class cut after field k does, plus — when field k has no explicit mapping — one read of
                # Env.cleaned_to_env (`_get_var_name`), which a field that no variable can match performs and nothing else.
                k = [f['name'] for f in cls['fields']].index(out['field'])
                cut = dict(classes[op['cls']], fields=list(classes[op['cls']]['fields'][:k + 1]))
                if not cls['fields'][k].get('explicit'):
                    cut['fields'].append({'name': 'zqNoSuchVariableQz', 'explicit': None, 'dflt': False})
                classes.append(cut)
                m['cls'] = len(classes) - 1
                m['kw'] = [p for p in op['kw'] if p[0] in [f['name'] for f in cut['fields']]]
            ops.append(m)
    return {'op': 'c18', 'quirks': quirks, 'os': case['os'], 'classes': classes, 'ops': ops}


def canon_state(st):
    if st is None:
        return None
    return {'environ': None if st['environ'] is None else sorted(map(list, {k: v for k, v in st['environ']}.items())),
            'var_names': None if st['var_names'] is None else sorted(set(st['var_names'])),
            'cleaned': None if st['cleaned'] is None else sorted(map(list, {k: v for k, v in st['cleaned']}.items())),
            'accessed': st.get('accessed', st['cleaned'] is not None)}


def canon_out(o):
    if o is None:
        return None
    if 'raised' in o:
        return {'raised': o['raised']}
    return o


def overlays_of(case, cls, op, files=None, dirs=None, meta=None):
    """contents of the overlays an instantiation sees; `files` / `dirs` = the contents at that moment (default: as created).
    Files named by Meta.env_file are taken as they were when the class was created: that is when the library reads them
    (findings/meta-env-file-read-once.md); the generators never rewrite such a file."""
    files = [c or [] for c in case['files']] if files is None else files
    dirs = [c or [] for c in case['dirs']] if dirs is None else dirs
    sec = op['secretsdir'] if 'secretsdir' in op else (cls.get('secrets') or [])
    if 'envfile' in op:
        dots = [dict(files[j]) for j in op['envfile']]
    elif meta is not None:
        dots = [dict(c) for c in meta]
    else:
        dots = [dict(case['files'][j] or []) for j in (cls.get('dotenv') or [])]
    return [dict(dirs[j]) for j in sec], dots


def evaluate(ctx, i, case, res, quirks, reqs, pend):
    if 'harness_error' in res:
        ctx.count('harness_error')
        ctx.notes.setdefault('harness_errors', []).append(res['harness_error'][-400:])
        ctx.fail('history', case, 'the forked child failed: ' + res['harness_error'][-300:])
        return
    outs = res['outs']
    osenv = dict(case['os'])
    collide = False
    last_win = {}
    fs = FsView(case)
    if case.get('fs'):
        ctx.count('history_over_the_file_system')
    if case.get('maps'):
        ctx.count('history_with_shared_mapping')
        want = [sorted([n, list(ex)] for n, ex in pairs) for pairs in case['maps']]
        if res.get('maps_after') != want:
            ctx.fail('mapping-untouched', case, f'the dict objects the classes name as Meta.field_to_env_var were {want} and are '
                     f'{res.get("maps_after")} after the history: the library wrote into the user\'s mapping (every class that '
                     f'names the same object now sees the entries)')
    for k, (op, o) in enumerate(zip(case['ops'], outs)):
        if op['t'] == 'set':
            osenv[op['k']] = op['v']
            continue
        if op['t'] == 'del':
            osenv.pop(op['k'], None)
            continue
        if fs.apply(op):
            continue
        if not o['os_same']:
            ctx.fail('os-untouched', case, f'os.environ differs after operation #{k} ({op["t"]})')
        if op['t'] != 'inst':
            last_win.update(dict(o['state']['cleaned'] or []))
            continue
        cls = case['classes'][op['cls']]
        prefix = (op['prefix'] if 'prefix' in op else cls.get('prefix')) or ''
        secs, dots = overlays_of(case, cls, op, fs.files, fs.dirs, fs.meta.get(op['cls']))
        kw = dict(op['kw'])
        exp = ref_resolve(osenv, secs, dots, cls, prefix, kw)
        o['pyref'] = [[n, e] for n, e in exp]
        if any(e[0] == 'oneof' and len(e[1]) > 1 for _, e in exp):
            collide = True
        if o['out'].get('raised') == 'ParseError':
            ctx.count('inst_parse_error')
        if op['reload']:
            ctx.count('inst_reload')
            if not meets_typed(case, cls, o['out'], exp):
                eff = dict(osenv)
                for d in secs + dots:
                    eff.update(d)
                key = attribute(case, cls, prefix, kw, eff, o['out'], exp, last_win)
                ctx.count('oracle_fail:' + str(key))
                if key is None or ctx.kind_counts['oracle_fail:' + key] <= 3:     # known classes: keep a few, count the rest
                    ctx.fail('resolve', case, f'operation #{k}: E{op["cls"]}(_reload=True, …) gave {o["out"]} but the '
                             f'documented precedence demands {exp}', key=key, detail={'op_index': k})
        else:
            ctx.count('inst_cached')
        last_win.update(dict(o['state']['cleaned'] or []))
    ctx.seen('history', case, nontrivial=True)
    names = [k for k, _ in case['os']] + [k for c in case['files'] + case['dirs'] for k, _ in c or []] + [op['k'] for op in case['ops'] if op['t'] == 'set']
    if any(re.search(r'[^A-Za-z0-9_-]', k) for k in names):
        ctx.count('history_with_near_miss_names')
    if collide:
        ctx.count('history_with_cleaned_collision')
    reqs.append(model_request(case, outs, quirks))
    pend.append((case, outs))


def _pick_family(g, rng, max_ops):
    x = rng.random()
    if x < 0.15:
        return g.recovery(3)
    if x < 0.33:
        return g.mapped(max_ops)
    if x < 0.55:
        return g.fs_history(max_ops)
    return g.history(max_ops)


def run(ctx: C.Ctx):
    rng = ctx.rng
    ctx.rule = ('directed shapes, an exhaustive small scope (notes.small_scope), then random histories of ≤ 12 (quick) / ≤ 16 operations — os.environ set/delete, Env.reload(), instantiations of 1-3 generated '
                'EnvWizard classes (str fields named in assorted casings of shared stems, defaults, explicit names via env_field / '
                'json_field / Meta.field_to_env_var incl. tuples, env_prefix, all four key_lookup_with_load values, Meta or per-call '
                'dotenv files and secrets dirs incl. empty ones, keyword subsets, _env_prefix overrides, _reload True/False) — over a '
                'pool of variable names that deliberately clean to the same key; each history in a forked pristine child. Per '
                'instantiation: outcome + environ/var_names/cleaned_to_env compared with the Lean state machine (set-iteration '
                'tie-break passed as the observed winners), outcome of _reload=True instantiations judged against ref_resolve '
                '(Python) which is also diffed against Lean refResolve; os.environ snapshot before/after. Non-trivial = every '
                'history (distinct by content). Further dimensions of the histories: ONE dict object named as Meta.field_to_env_var by '
                'several classes (and checked to be unchanged afterwards), like-named fields across the classes of a history, '
                'Literal-typed fields with values the type rejects (ParseError outcomes; the model follows the state through a class '
                'cut at the failing field), dotenv files / secrets directories edited between instantiations (files of a '
                'Meta.env_file excepted), the same _env_file selection passed repeatedly, and a failure-then-recovery family '
                '(ParseError / MissingVars, repair spelled at any lookup tier, re-instantiation of the class and its sibling). '
                'Half of the random histories (and a third of the recovery ones) also hold NEAR-MISS variable names: spellings of '
                'the (prefixed) field with a character that is no separator of the statement (. : + @ ~ % ! ,) between the words or '
                'anywhere inside, in assorted casings, in os.environ / dotenv files / secrets dirs - they must never be a source. '
                'Values are PRESENT BUT EMPTY in half of the histories (os.environ, dotenv `KEY=`, empty secrets file, keyword), and an '
                'explicit-mapping family maps most fields to 1-3 variables whose values are empty about half of the time. '
                'CONVERSION (c18_conv.py): Dict / DefaultDict / TypedDict / nested-dataclass / Optional[Dict] fields fed from os.environ, a '
                'dotenv file, a secrets file or a str keyword, in the `k=v, k=v` shorthand or JSON form, values drawn from an alphabet '
                'with "=" ":" "?" "/" "&" blanks (JSON form: also ","): result vs the documented reading (pairs cut at their FIRST "=", '
                'stripped, value converted by the value type) and vs the Lean EnvLoader model. LEAF TYPES IN POSITIONS: a str / int / float / '
                'bool / bytes / bytearray leaf - bare, Optional, in the comma / k=v shorthand of list / set / dict / TypedDict / nested '
                'dataclass, inside the JSON forms and the mixed forms - from each of the four sources: every leaf of the result is the '
                'documented conversion of its string (bytes / bytearray: the utf-8 encoding), also vs the Lean EnvLoader model. '
                'HISTORIES OVER THE FILE SYSTEM (Gen.fs_history, about a fifth of the random histories): dotenv files / secrets directories '
                'that do not exist at the first instantiation naming them, appear, are rewritten, removed and created again; dotenv files '
                'named relatively (interactive interpreter: looked up from the working directory upwards) whose nearest copy is in the '
                'working directory or one / two levels above and changes as copies come and go; paths as str / Path, plain or with a '
                '`./` component, the same spelling repeatedly or another one; classes defined in the middle of the history (incl. with a '
                'Meta.env_file naming a file that was absent earlier). Oracle: ref_resolve on what is on disk at that moment.')
    quirks, probes = probe_quirks()
    ctx.notes['quirks_probed'] = quirks
    ctx.trusted += ['C18: python-dotenv parses `KEY=value` lines and Path.read_text returns the secret file content verbatim (overlay '
                    'contents are handed to the model as written)',
                    'C18: the one nondeterministic input of the model — set iteration order deciding which spelling wins a '
                    'cleaned_to_env collision — is supplied per operation from the observed cleaned_to_env (the theorems hold for every order)',
                    'C18: value conversion of the chosen string is outside this model (EnvLoader, covered with C04); every generated '
                    'field is `str`; the Windows branch of lookup_exact (upper-casing) is not modelled']
    for name, key in (('stale', KEY_STALE), ('multi', KEY_MULTI), ('nofallback', KEY_NOFALL)):
        if quirks[name] and ctx.only is None:
            case, r = probes[name]
            ctx.fail('probe:' + name, case, f'witness of {key}: last instantiation gave {r["outs"][-1]["out"]}', key=key)
    g = Gen(rng)
    n = ctx.quick(2500, 25000)
    budget = ctx.quick(40, 430)        # seconds for the implementation side; the driver pass follows
    max_ops = ctx.quick(12, 16)
    cases = list(directed_cases())
    scope = ctx.quick(4, 5)
    cases += list(small_scope_cases(scope))
    ctx.notes['small_scope'] = f'all {len(cases) - len(directed_cases())} histories of length ≤ {scope} over set/del of 3 spellings, ' \
                               f'reload / cached / dotenv instantiation'
    ndirected = len(cases)
    reqs, pend = [], []
    batch, idxs = [], []

    def flush():
        if not batch:
            return
        for (i, case), res in zip(idxs, run_forked(batch)):
            ctx.current = i
            evaluate(ctx, i, case, res, quirks, reqs, pend)
        batch.clear()
        idxs.clear()

    import time
    from harness.props import c18_conv
    for i in range(ndirected + n):
        if ctx.only is not None and ctx.only >= c18_conv.CONV_BASE:
            break                       # replay of a case of the conversion stream
        if ctx.done(i) or (i >= ndirected and ctx.only is None and time.time() - ctx.t0 > budget):
            ctx.notes['stopped_at'] = i
            break
        case = cases[i] if i < ndirected else _pick_family(g, rng, max_ops)
        if not ctx.begin_case(i):
            continue
        batch.append(case)
        idxs.append((i, case))
        if len(batch) >= 32:
            flush()
    flush()
    if ctx.model_available and reqs:
        outs = []
        for b in range(0, len(reqs), 10000):          # bounded payloads; one driver process per 10 000 histories
            outs += ctx.driver.run(reqs[b:b + 10000])
        for (case, impl_outs), o in zip(pend, outs):
            if 'r' not in o:
                ctx.agree('history', case, 'impl', {'driver_error': o.get('err')})
                continue
            sent = [(k, op, io) for k, (op, io) in enumerate(zip(case['ops'], impl_outs)) if op['t'] not in ('write', 'wdir', 'define')]
            for (k, op, io), mo in zip(sent, o['r']['outs']):     # file / directory rewrites are not operations of the model
                if op['t'] in ('set', 'del'):
                    continue
                tag = {'op_index': k, 'case': case}
                ctx.agree('state', tag, canon_state(io['state']), canon_state(mo['state']))
                if op['t'] != 'inst' or io['out'].get('raised') == 'ParseError':
                    continue            # a failed conversion: the model carries the state only (see model_request)
                ctx.agree('outcome', tag, canon_out(io['out']), canon_out(mo['out']))
                # Lean lists one admissible value per matching NAME; compare as sets of values
                mref = [[n, ([e[0], sorted(set(e[1]))] if e[0] == 'oneof' else e)] for n, e in mo['ref']]
                pref = [[n, ([e[0], sorted(set(e[1]))] if e[0] == 'oneof' else e)] for n, e in io['pyref']]
                ctx.agree('ref', tag, pref, mref)
                ctx.agree('meets', tag, meets(io['out'], [(n, e) for n, e in io['pyref']]), mo['meets'])
    # ---- the conversion clause for mapping-like field types (values containing the separators), all four sources
    from harness.props import c04_engines
    c18_conv.run(ctx, c04_engines)
