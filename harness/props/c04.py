"""C04 — loading applies the documented coercions, and only those.

ref_coerce below is an independent transcription of docs/overview.rst "Special Cases" (+ the README v1
notes) over the *documented coercible domain*; inputs outside it only go through the model
correspondence (the property says nothing about them).

This module runs the default-engine stream; the v1 and EnvWizard streams (and the EnvLoader splitting
functions) live in c04_engines.py and are run from `run` below.
"""
from __future__ import annotations

import datetime as dt
import decimal
import enum
import json
import math
import pathlib
import time
import uuid

from harness import common as C
from harness import gen, model, ref
from harness.model import T
from harness.props.c01 import compare_load, load_outcome

UTC = dt.timezone.utc
TRUTHY = {'true', 't', 'yes', 'y', 'on', '1'}

INT_STRS = ['0', '7', '-5', '+12', '123456789012345678901234567890', '007', '1_000']
FLOAT_STRS = ['1.5', '2.5', '3.5', '-0.5', '-2.5', '123.4', '7.0', '1e3', '0.49999', '-7.51', '5e-1', '2.50']
FLOATS = [0.5, 1.5, 2.5, 3.5, -0.5, -1.5, -2.5, -2.7, 123.4, 7.0, 1e3, 1e16, 4503599627370497.0, 0.49999999999999994, -0.0]
BOOL_STRS = ['true', 'TRUE', 'True', 't', 'T', 'yes', 'Yes', 'YES', 'y', 'Y', 'on', 'ON', 'On', '1',
             'false', 'f', 'no', 'n', 'off', '0', '', 'tru', 'yess', '2', 'one', ' true', 'oN']
ISO_DT = ['2020-01-02T03:04:05', '2020-01-02T03:04:05Z', '2020-01-02T03:04:05+00:00', '2020-01-02T03:04:05.123456-08:00',
          '2020-01-02 03:04:05', '1999-12-31T23:59:59.999999Z', '2020-01-02', '2020-01-02T03:04:05+05:30', '0001-01-01T00:00:00']
ISO_D = ['2020-01-02', '1999-12-31', '0001-01-01', '9999-12-31', '2024-02-29']
ISO_T = ['03:04:05', '03:04:05Z', '03:04:05.123456', '23:59:59+00:00', '03:04', '03:04:05-08:00']
EPOCHS = [0, 1, 1577952245, 1577952245.5, -1, 86399, 86400, 2 ** 31, -86401, 946684800.25]
TD_STRS = ['1.5', '90', '0', '1h', '1 hour', '2 days, 3:04:05', '3:04:05', '1:02', '1w 3d', '32m', '1.2 minutes', '2h32m', '0:00:01.000001',
           '5 hr, 34 min, 56 sec', '1 day, 0:00:00']
TD_NUMS = [0, 1, 90, 1.5, 86400, 0.000001, -5, 1e6]
DEC_IN = ['1.50', '0', '-3.14', '1E+3', 'NaN', 12, -7, 1.5, 0.1, '  2 ']
ENUM_MEMBERS = [['A', 2], ['B', 'bee'], ['C', 5], ['D', 'x y']]


def local_day(v):
    """docs/overview.rst: numbers for `date` are "de-serialized using the builtin fromtimestamp method", i.e. the *local*
    calendar day of the instant (the UTC day when the process runs in UTC).  Derived from C localtime(), floor like
    date.fromtimestamp, not from the datetime module."""
    lt = time.localtime(math.floor(v))
    return dt.date(lt.tm_year, lt.tm_mon, lt.tm_mday)


def ref_coerce(tk, v, engine):
    """expected Python value for input v at type tk in the documented domain; raises KeyError('out-of-domain')
    when the documentation does not define the pair, and ('reject',) when it documents a rejection."""
    tv = type(v)
    if tk == 'str':
        if v is None:
            # docs/overview.rst: "None becomes an empty string" — engine independent; v1 keeps it (HISTORY 0.34.0:
            # load_to_str only skips the None test at the position directly under Optional[...], where None stays None)
            return ''
        if tv in (str, int, float, bool):
            return v if tv is str else str(v)
        raise KeyError('out-of-domain')
    if tk == 'int':
        if tv is bool:
            return ('reject',)
        if tv is int:
            return v
        if tv is float:
            if v != v or v in (float('inf'), float('-inf')):
                raise KeyError('out-of-domain')
            if engine == 'v1':
                return int(v) if v.is_integer() else ('reject',)
            return round(v)
        if v is None or v == '':
            if engine == 'v1':
                return ('reject',)      # v1 load_to_int docstring: "empty strings and None (e.g. null values) are not supported"
            return 0
        if tv is str:
            s = v
            if s in INT_STRS:
                return int(s)
            if s in FLOAT_STRS:
                f = float(s)
                if engine == 'v1':
                    if '.' in s:
                        return int(f) if f.is_integer() else ('reject',)
                    raise KeyError('out-of-domain')
                if '.' in s:
                    return round(f)
                raise KeyError('out-of-domain')     # '1e3': a float string without '.', not documented
        raise KeyError('out-of-domain')
    if tk == 'bool':
        if tv is bool:
            return v
        if tv is str:
            return v.lower() in TRUTHY
        if tv in (int, float):
            return v == 1
        raise KeyError('out-of-domain')
    if tk == 'datetime':
        if tv is str and v in ISO_DT:
            return dt.datetime.fromisoformat(v.replace('Z', '+00:00', 1))
        if tv in (int, float) and v in EPOCHS:
            if engine == 'v1':
                raise KeyError('out-of-domain')     # README v1 notes do not fix the zone; see DESIGN §7
            return dt.datetime.fromtimestamp(v, tz=UTC)
        raise KeyError('out-of-domain')
    if tk == 'date':
        if tv is str and v in ISO_D:
            return dt.date.fromisoformat(v)
        if tv in (int, float) and v in EPOCHS:
            return local_day(v)
        raise KeyError('out-of-domain')
    if tk == 'time':
        if tv is str and v in ISO_T:
            return dt.time.fromisoformat(v.replace('Z', '+00:00', 1))
        raise KeyError('out-of-domain')
    if tk == 'timedelta':
        if tv is str and v in TD_STRS:
            import pytimeparse
            if v.replace('.', '', 1).isdigit():
                return dt.timedelta(seconds=float(v))
            return dt.timedelta(seconds=pytimeparse.parse(v))
        if tv in (int, float) and v in TD_NUMS:
            return dt.timedelta(seconds=v)
        raise KeyError('out-of-domain')
    if tk == 'decimal':
        if v in DEC_IN and tv in (str, int, float):
            return decimal.Decimal(str(v))
        raise KeyError('out-of-domain')
    if tk == 'enum':
        for m, val in ENUM_MEMBERS:
            if type(val) is tv and val == v:
                return ('enum', m)
        raise KeyError('out-of-domain')
    raise KeyError('out-of-domain')


INPUTS = {
    'str': [None, 'abc', '', 123, -5, 1.5, True, False, 0, 'None', 1e16],
    'int': [0, 7, -3, 10 ** 30, True, False, None, ''] + INT_STRS + FLOAT_STRS + FLOATS + ['abc', '1.5.2', ' ', 'inf', '1,5', 'nan', float('nan'), float('inf')],
    'bool': [True, False, 0, 1, 2, -1, 1.0, 0.0, 1.5, None] + BOOL_STRS,
    'datetime': ISO_DT + EPOCHS + ['nope', '2020-13-01', True, None, '1577952245'],
    'date': ISO_D + EPOCHS + ['2020-01-02T03:04:05', 'nope', True, None],
    'time': ISO_T + ['25:00', 'nope', 5, None],
    'timedelta': TD_STRS + TD_NUMS + ['nope', '', True, None, '-1 day, 23:59:59'],
    'decimal': DEC_IN + ['abc', None, True],
    'enum': [2, 'bee', 5, 'x y', 'A', 3, '2', 2.0, True, None],
}

CONTEXTS = ['bare', 'list', 'dictval', 'tuple', 'optional', 'nested', 'listlist', 'nested-in-list']


def leaf_type(tk, ename):
    if tk == 'enum':
        return T('enum', name=ename, members=[list(m) for m in ENUM_MEMBERS])
    return T(tk)


def wrap_ty(ctxk, t, rng):
    if ctxk == 'bare':
        return t
    if ctxk == 'list':
        return T('list', t)
    if ctxk == 'dictval':
        return T('dict', T('str'), t)
    if ctxk == 'tuple':
        return T('tuple', T('str'), t)
    if ctxk == 'optional':
        return T('optional', t)
    if ctxk == 'listlist':
        return T('list', T('list', t))
    if ctxk in ('nested', 'nested-in-list'):
        inner = {'k': 'cls', 'info': {'name': model.fresh('N'), 'fields': [{'name': 'inner_val'}], 'wizard': False, 'meta': None},
                 'ftys': [['inner_val', t]]}
        return inner if ctxk == 'nested' else T('list', inner)
    raise ValueError(ctxk)


def wrap_doc(ctxk, v):
    return {'bare': v, 'list': [v, v], 'dictval': {'k': v}, 'tuple': ['s', v], 'optional': v, 'listlist': [[v], []],
            'nested': {'inner_val': v}, 'nested-in-list': [{'inner_val': v}]}[ctxk]


def unwrap(ctxk, y):
    """extract the coerced leaf value(s) from the loaded field value"""
    if ctxk in ('bare', 'optional'):
        return [y]
    if ctxk == 'list':
        return list(y)
    if ctxk == 'dictval':
        return [y['k']]
    if ctxk == 'tuple':
        return [y[1]]
    if ctxk == 'listlist':
        return [y[0][0]]
    if ctxk == 'nested':
        return [y.inner_val]
    if ctxk == 'nested-in-list':
        return [y[0].inner_val]
    raise ValueError(ctxk)


def cases(ctx):
    rng = ctx.rng
    allc = []
    for tk, ins in INPUTS.items():
        for v in ins:
            for ck in CONTEXTS:
                allc.append((tk, v, ck))
    if ctx.tier == 'quick' and not ctx.search:
        rng.shuffle(allc)
        # every (type, input) at the bare position + a random sample of the other contexts
        bare = [c for c in allc if c[2] == 'bare']
        rest = [c for c in allc if c[2] != 'bare']
        return bare + rest[:900]
    ctx.exhaustive = not ctx.search
    return allc


def run(ctx: C.Ctx):
    from dataclass_wizard import fromdict
    gen.SUBS = False
    ctx.rule = ('spelling table per annotated type (sign, exponent, whitespace, case, Z vs offset, bool-vs-int, huge ints, negative / '
                'fractional timestamps, pytimeparse spellings; in-domain and out-of-domain) × nesting context '
                '(bare, list, dict value, tuple, Optional, nested dataclass, list of list, dataclass in list) on the default engine: '
                'fromdict outcome vs ref_coerce (documented domain only) and vs the Lean model (all inputs). '
                'Non-trivial = distinct (type, input, context) where the input is not already of the annotated type. '
                'v1 engine (Meta.v1): the same table × 26 contexts (bare, Optional, list / tuple / variadic tuple / dict key / dict value / set, '
                'NamedTuple / TypedDict / nested dataclass member, Union member, and each container again inside Optional[...] / a Union with None): '
                'fromdict outcome vs ref_coerce(v1), vs the outcome of the same value at the bare position (position independence) and vs the '
                'Lean v1 model. EnvWizard: environment-string spellings (incl. numeric strings that read as compact ISO dates) × 22 forms (bare, '
                'comma / k=v shorthand and JSON form of list, set, tuples, dict key / value, NamedTuple, TypedDict, nested dataclass, mixed nesting; '
                'non-string JSON scalars inside the JSON forms): real EnvWizard class per case (os.environ set, _reload=True, restored) vs the '
                'documented conversion, vs the bare position and vs the Lean EnvLoader model; as_list / as_dict / split / numeric test on '
                'directed + random strings over a separator alphabet vs the Lean functions. '
                'HISTORIES (c04_hist.py): 2–5 documents through the same class on each engine, random container shape (variadic tuple, list, '
                'deque, dict value, Optional, nested dataclass, fixed pair; depth ≤ 3) with growing / shrinking / random element counts between and '
                'inside documents: every container holds exactly its input elements, each converted as documented; each load vs the (stateless) '
                'Lean model. NEIGHBOURING FIELDS: 2–4 fields, Annotated[.., Pattern(fmt)] positions (own or shared Pattern object) before / after '
                'plain date / time / datetime positions, inputs in a neighbour\'s format: outcome of the class = outcome of each field loaded alone. '
                'PROCESS TIME ZONE and USER SUBCLASSES (c04_zone.py): epoch numbers (table, DST-switch instants, random ints / quarter fractions; numeric '
                'strings and JSON numbers for EnvWizard) and ISO strings for datetime / date / time, under rotating non-UTC POSIX zones '
                '(TZ + tzset, restored; start-up probe), leaf annotated as the stdlib type or as a user subclass of datetime / date / time / '
                'Decimal (exact class required) / timedelta / str / int, random nesting context of each engine: datetime = the aware UTC '
                'instant (default, Env), the given instant (v1), date = the local day by C localtime (docs: builtin fromtimestamp), ISO '
                'strings zone-independent; non-subclass cases also vs the Lean models with Std tables built inside the zone. '
                'KINDS OF ENUM CLASSES (c04_enum.py): plain / alias / mix-in / _missing_ hooks (other letter case, catch-all member, digit strings) / '
                'Flag and IntFlag (unnamed combinations nobody has constructed yet) / unhashable member values, member values, hook-only values and '
                'rejected values, every nesting context, three engines (EnvWizard: environment variable and keyword input): outcome of the load = '
                'outcome of E(v) asked afterwards. SHARED TYPES (c04_shared.py): one NamedTuple / TypedDict shared by 2-3 classes of different '
                'engines (default, own-loader hooks, v1, EnvWizard) under a random interleaving of class definitions and loads, JSON-style and '
                'environment-style member inputs: every outcome = the outcome when the class is the only user of the type.')
    reqs, pend = [], []
    for i, (tk, v, ck) in enumerate(cases(ctx)):
        if ctx.done(i):
            break
        ename = model.fresh('E')
        ty = {'k': 'cls', 'info': {'name': model.fresh('C'), 'fields': [{'name': 'fld'}], 'wizard': False, 'meta': None},
              'ftys': [['fld', wrap_ty(ck, leaf_type(tk, ename), ctx.rng)]]}
        if not ctx.begin_case(i):
            continue
        doc = {'fld': wrap_doc(ck, v)}
        case = {'type': tk, 'input': repr(v), 'context': ck}
        built = model.Built(ty)
        try:
            ctx.seen('coerce:default', case, nontrivial=not _already(tk, v))
            out = load_outcome(lambda: fromdict(built.root, json.loads(json.dumps(doc)) if not _nonjson(v) else doc))
            # ---- oracle on the documented domain
            try:
                exp = ref_coerce(tk, v, 'default')
            except KeyError:
                exp = None
                ctx.count('out_of_domain')
            if exp is not None or (v is None and tk == 'str'):
                if ck == 'optional' and v is None:
                    exp_val = ('none',)
                else:
                    exp_val = exp
                check_expected(ctx, case, out, exp_val, ck, built, ename)
            st = model.StdTables()
            st.add_json(doc)
            reqs.append({'op': 'load', 'ty': model.enc_ty(ty), 'doc': model.enc_j(doc), 'std': st.build()})
            pend.append((case, out, built))
        finally:
            built.close()
    if ctx.model_available:
        outs = ctx.driver.run(reqs)
        for (case, out, built), o in zip(pend, outs):
            compare_load(ctx, 'coerce:default', case, out, o, built)
    # ---- the two other engines (v1, EnvWizard) and the EnvLoader splitting functions
    import sys
    from harness.props import c04_engines
    c04_engines.run(ctx, sys.modules[__name__])
    # ---- the local time zone of the process and user subclasses of leaf types, on the three engines
    from harness.props import c04_zone
    c04_zone.run(ctx, sys.modules[__name__], c04_engines)
    # ---- the kinds of Enum classes (`_missing_` hooks, Flag combinations, unhashable member values, aliases, mix-ins)
    from harness.props import c04_enum
    c04_enum.run(ctx, sys.modules[__name__], None)
    # ---- one NamedTuple / TypedDict / dataclass type shared by classes of different engines, any order of set-up and use
    from harness.props import c04_shared
    c04_shared.run(ctx, sys.modules[__name__], None)


def _nonjson(v):
    return isinstance(v, float) and (v != v or v in (float('inf'), float('-inf')))


def _already(tk, v):
    return {'str': str, 'int': int, 'bool': bool}.get(tk) is type(v)


def check_expected(ctx, case, out, exp, ck, built, ename):
    src = dict(src=built.source)
    if exp == ('reject',):
        if out[0] == 'ok':
            ctx.fail('coerce:default', case, f'documented as rejected, but loaded {out[1]!r}', detail=src)
        return
    if out[0] == 'err':
        ctx.fail('coerce:default', case, f'documented coercion to {exp!r}, but load raised {type(out[1]).__name__}: {str(out[1])[:200]}', detail=src)
        return
    got = unwrap(ck, out[1].fld)
    for g in got:
        if exp == ('none',):
            ok = g is None
        elif isinstance(exp, tuple) and exp and exp[0] == 'enum':
            ok = isinstance(g, enum.Enum) and g.name == exp[1] and type(g).__name__ == ename
        else:
            ok = ref.same_typed(g, exp)
        if not ok:
            ctx.fail('coerce:default', case, f'loaded {g!r} ({type(g).__name__}), documented result {exp!r}', detail=src)
            return
