"""C04 — one class-like type shared by classes that load with different engines, in any order of set-up and use.

"The same coercions apply at every nesting depth and to EnvWizard values": which coercions the members of a NamedTuple /
TypedDict / nested dataclass receive is a function of the engine that loads the *enclosing* class (default engine, a
default-engine class with hooks of its own, v1, EnvWizard) and of the annotated member type - not of which other class happened
to mention the same type first.  The streams of c04.py / c04_engines.py define every type for one class only; here

    * one shared type S (NamedTuple or TypedDict; 2-4 members of types whose conversion differs between the
      engines: datetime / date from numbers and numeric strings, List[int] / Tuple[bool, ...] / Set[str] / Dict[str, int] from
      delimited strings, int, float, bool, str),
    * 2-3 classes with a field S / Optional[S] / List[S] / Dict[str, S]: a default-engine dataclass, a JSONWizard class that is
      its own loader and overrides an int / str hook, a v1 class, an EnvWizard class,
    * a random interleaving of the class definitions (an EnvWizard class sets its parsers up when it is created, the others on
      their first load) and of 1-3 loads per class; member inputs are drawn from JSON-style values and environment-style text
      for every engine (so that "more than the documented coercions" shows as well as "fewer").

Oracle (independence): the outcome of every load - the value, or the class of the error - is the outcome of the same load in a
world where that class is the only user of S (same source text, a module of its own).  Oracle only: the Lean model is stateless
in the type, which is the claim.
"""
from __future__ import annotations

import json
import os
import random
import sys
import types

from harness import model

SHARED_BASE = 800000

PRELUDE = ('from dataclasses import dataclass, field\nfrom datetime import date, datetime, time, timedelta\nfrom decimal import Decimal\n'
           'from typing import *\nfrom typing import NamedTuple, TypedDict\n'
           'from dataclass_wizard import JSONWizard, EnvWizard, LoadMixin, fromdict\n')

# member name, annotation, JSON-style inputs, environment-style inputs
MEMBERS = [
    ('opens', 'datetime', [1700000000, '2020-01-02T03:04:05Z', 86400.5], ['1700000000', '86400', '2020-01-02T03:04:05']),
    ('day', 'date', [1700000000, '2020-01-02'], ['1700000000', '20200102']),
    ('ports', 'List[int]', [['80', 443.0], [1], []], ['80, 443', '8080,8081 , 9000', '["1", 2]', '7']),
    ('flags', 'Tuple[bool, ...]', [['on', 0], [True]], ['on,no,TRUE', 'yes', '[1, "off"]']),
    ('tags', 'Set[str]', [['a', 'b'], [1]], ['a,b', 'x']),
    ('opts', 'Dict[str, int]', [{'a': '1'}, {}], ['a=1,b=2', '{"a": "3"}']),
    ('count', 'int', ['7', 2.0, 5], ['7', ' 12']),
    ('ratio', 'float', ['1.5', 2], ['1.5', '1e3']),
    ('label', 'str', [5, 'txt', None], ['txt', '5']),
    ('on', 'bool', ['yes', 1, False], ['TRUE', 'off', '0']),
    ('wait', 'timedelta', [90, '1h'], ['90', '1:02']),
    ('pair', 'Tuple[int, str]', [['1', 2]], ['1,b', '[3, "c"]']),
]
POSITIONS = {'bare': ('{S}', lambda v: v), 'optional': ('Optional[{S}]', lambda v: v), 'list': ('List[{S}]', lambda v: [v, v]),
             'dictval': ('Dict[str, {S}]', lambda v: {'k': v})}
HOOKS = [('load_to_int', 'return base_type(int(o) + 1000)'), ('load_to_str', 'return base_type(str(o) + "!")'),
         ('load_to_float', 'return base_type(float(o) * 2)'), ('load_to_bool', 'return o == "oui"')]


def gen_world(rng):
    # kept out: a shared *dataclass* - its loader is cached per class by whichever engine reaches it first (recorded finding
    # `shared-nested-config-leak`, listed for C06 / C07: caches are keyed by class, not by (class, configuration))
    kind = rng.choice(['namedtuple', 'namedtuple', 'namedtuple', 'typeddict'])
    members = rng.sample(MEMBERS, rng.randint(2, 4))
    if kind == 'namedtuple':
        s_src = 'class Slot(NamedTuple):\n' + ''.join(f'    {n}: {a}\n' for n, a, _j, _e in members)
    elif kind == 'typeddict':
        s_src = 'class Slot(TypedDict):\n' + ''.join(f'    {n}: {a}\n' for n, a, _j, _e in members)
    else:
        s_src = '@dataclass\nclass Slot:\n' + ''.join(f'    {n}: {a}\n' for n, a, _j, _e in members)
    kinds = rng.sample(['json', 'json', 'hook', 'v1', 'env', 'env', 'env'], rng.randint(2, 3))
    if len(set(kinds)) == 1:
        kinds[0] = 'env' if kinds[0] != 'env' else 'json'
    users = []
    for n, uk in enumerate(kinds):
        pos = rng.choice(sorted(POSITIONS))
        ann = POSITIONS[pos][0].format(S='Slot')
        name = f'User{n}_{uk}'
        if uk == 'json':
            wiz = rng.random() < 0.5
            src = f'@dataclass\nclass {name}{"(JSONWizard)" if wiz else ""}:\n    slot: {ann}\n'
        elif uk == 'hook':
            hn, body = rng.choice(HOOKS)
            src = (f'@dataclass\nclass {name}(JSONWizard, LoadMixin):\n    slot: {ann}\n    @staticmethod\n'
                   f'    def {hn}(o, base_type, *_):\n        {body}\n')
        elif uk == 'v1':
            src = f'@dataclass\nclass {name}(JSONWizard):\n    class _(JSONWizard.Meta):\n        v1 = True\n    slot: {ann}\n'
        else:
            src = f'class {name}(EnvWizard):\n    slot: {ann}\n'
        users.append({'name': name, 'kind': uk, 'pos': pos, 'src': src})
    ops = [('def', u['name']) for u in users]
    for u in users:
        for _ in range(rng.randint(1, 3)):
            p_env = 0.75 if u['kind'] == 'env' else 0.35        # every engine sees both styles, mostly its own
            vals = [rng.choice(e if rng.random() < p_env else j) for _n, _a, j, e in members]
            raw = vals if kind == 'namedtuple' else {m[0]: v for m, v in zip(members, vals)}
            via = rng.choice(['kwarg', 'environ']) if u['kind'] == 'env' else 'fromdict'
            ops.append(('load', u['name'], POSITIONS[u['pos']][1](raw), via))
    rng.shuffle(ops)
    # a class is defined before it is used: move each definition in front of the class's first load
    order = []
    for op in ops:
        if op[0] == 'load' and ('def', op[1]) not in order:
            order.append(('def', op[1]))
        if op not in order or op[0] == 'load':
            order.append(op)
    return {'shared': kind, 'shared_src': s_src, 'users': users, 'ops': order}


def run_world(world, only=None):
    """execute the operations (of class `only`, or of all classes) in a fresh module; -> outcomes of the loads, in order"""
    mod = types.ModuleType(model.fresh('dwv_shared_'))
    sys.modules[mod.__name__] = mod
    src = {u['name']: u['src'] for u in world['users']}
    outs = []
    try:
        exec(compile(PRELUDE + world['shared_src'], f'<{mod.__name__}>', 'exec', dont_inherit=True), mod.__dict__)
        for op in world['ops']:
            if only is not None and op[1] != only:
                continue
            if op[0] == 'def':
                exec(compile(src[op[1]], f'<{mod.__name__}:{op[1]}>', 'exec', dont_inherit=True), mod.__dict__)
                continue
            _k, name, doc, via = op
            cls = mod.__dict__[name]
            doc = json.loads(json.dumps(doc))
            try:
                if via == 'fromdict':
                    y = mod.__dict__['fromdict'](cls, {'slot': doc}).slot
                elif via == 'kwarg':
                    y = cls(slot=doc).slot
                else:
                    before = os.environ.get('SLOT')
                    os.environ['SLOT'] = json.dumps(doc)
                    try:
                        y = cls(_reload=True).slot
                    finally:
                        if before is None:
                            del os.environ['SLOT']
                        else:
                            os.environ['SLOT'] = before
                outs.append((name, ('ok', _canon(y))))
            except Exception as e:
                outs.append((name, ('err', type(e).__name__)))
    finally:
        sys.modules.pop(mod.__name__, None)
    return outs


def _canon(y):
    """a loaded value as text, sets in sorted order"""
    if isinstance(y, (set, frozenset)):
        return type(y).__name__ + '{' + ', '.join(sorted(_canon(x) for x in y)) + '}'
    if isinstance(y, tuple) and hasattr(y, '_fields'):
        return type(y).__name__ + '(' + ', '.join(f'{n}={_canon(x)}' for n, x in zip(y._fields, y)) + ')'
    if isinstance(y, (list, tuple)):
        return type(y).__name__ + '[' + ', '.join(_canon(x) for x in y) + ']'
    if isinstance(y, dict):
        return type(y).__name__ + '{' + ', '.join(f'{k!r}: {_canon(x)}' for k, x in y.items()) + '}'
    import dataclasses
    if dataclasses.is_dataclass(y) and not isinstance(y, type):
        return type(y).__name__ + '(' + ', '.join(f'{f.name}={_canon(getattr(y, f.name))}' for f in dataclasses.fields(y)) + ')'
    return f'{type(y).__name__}:{y!r}'


def run(ctx, c04, seed):
    n = ctx.quick(350, 5000)
    for j in range(n):
        i = SHARED_BASE + j
        if ctx.done(i):
            break
        if ctx.only is not None and ctx.only != i:
            continue
        rng = random.Random(f'C04:{ctx.seed}:shared-type:{j}')
        world = gen_world(rng)
        if not ctx.begin_case(i):
            continue
        case = {'shared': world['shared'], 'source': world['shared_src'] + ''.join(u['src'] for u in world['users']),
                'ops': [list(op) for op in world['ops']]}
        ctx.seen('shared-type', case, nontrivial=True)
        together = run_world(world)
        for u in world['users']:
            alone = [o for _n, o in run_world(world, only=u['name'])]
            mine = [o for nm, o in together if nm == u['name']]
            loads = [op for op in world['ops'] if op[0] == 'load' and op[1] == u['name']]
            for op, a, b in zip(loads, alone, mine):
                if a != b:
                    others = [x['name'] for x in world['users'] if x is not u]
                    ctx.fail('shared-type', case, f'{u["name"]} ({u["kind"]} engine, field {u["pos"]} of the shared {world["shared"]}) loads {op[2]!r} '
                             f'[{op[3]}] to {b[1]} in the history above (the type is also used by {others}), but to {a[1]} when it is the only '
                             f'class that uses the type', detail=dict(src=PRELUDE + case['source']))
                    break
