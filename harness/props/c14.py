"""C14 — v1 load failures are library errors that render and name the class and field."""
from __future__ import annotations

import copy
import json

from harness import common as C
from harness import gen, model, ref
from harness.props.c01 import load_outcome
from harness.props.c02 import strip_shapes
from harness.props.c05 import plain_doc, positions, replace_at


def attribution(e):
    from dataclass_wizard.errors import ParseError, MissingFields, MissingData, UnknownKeysError
    if isinstance(e, MissingData):
        return ['MissingData', e.class_name, e.field_name]
    if isinstance(e, ParseError):
        return ['ParseError', e.class_name, e.field_name]
    if isinstance(e, MissingFields):
        return ['MissingFields', e.class_name, sorted(e.missing_fields)]
    if isinstance(e, UnknownKeysError):
        k = e.unknown_keys
        return ['UnknownKeysError', e.class_name, sorted([k] if isinstance(k, str) else list(k))]
    return ['raw', type(e).__name__]


def model_attr(r):
    k = r[0]
    if k in ('ParseError', 'MissingData'):
        return [k, r[1], r[2]]
    if k in ('MissingFields', 'UnknownKeysError'):
        return [k, r[1], sorted(r[2])]
    return ['raw', r[1] if len(r) > 1 else None]


def run(ctx: C.Ctx):
    from dataclass_wizard import fromdict
    from dataclass_wizard.errors import JSONWizardError, ParseError
    rng = ctx.rng
    gen.SUBS = False
    ctx.rule = ('v1 (and, for the last clause, default-engine) class models nested to depth 3 with a well-typed document in which one '
                'random position is replaced by junk, or a required key deleted, or an unknown key added under RAISE: every raised error '
                'must derive from JSONWizardError, str(e) must return, and (type, class_name, field_name / missing / unknown) must equal the '
                'Lean model\'s attribution (innermost class and field on the path to the first offending value). '
                'Non-trivial = distinct (class model, mutated document) whose load raises.')
    n = ctx.quick(1500, 20000)
    reqs, pend = [], []
    for i in range(n):
        if ctx.done(i):
            break
        engine = 'v1' if rng.random() < 0.75 else 'default'
        o = gen.Opts(meta_keys=[], leaves=[l for l in gen.LEAVES_DEFAULT] + (['bytes'] if engine == 'v1' else []),
                     meta_prob=0.0, wizard_prob=0.7, py_wizard_prob=0.0)
        ty = gen.gen_cls(rng, rng.choice([0, 1, 2, 3]), o)
        ty = strip_shapes(ty)
        meta = {}
        if engine == 'v1':
            meta['v1'] = True
            meta['key_transform_with_dump'] = 'NONE'
            if rng.random() < 0.3:
                meta['v1_on_unknown_key'] = 'RAISE'
            if rng.random() < 0.3:
                meta['v1_key_case'] = rng.choice(['AUTO', 'A', 'SNAKE', 'CAMEL'])
                if meta['v1_key_case'] == 'CAMEL':
                    meta['v1_key_case'] = 'SNAKE'
        else:
            if rng.random() < 0.3:
                meta['raise_on_unknown_json_key'] = True
        ty['info']['meta'] = meta or None
        try:
            built = model.Built(ty)
        except Exception as e:
            ctx.count('build_error')
            ctx.notes.setdefault('build_errors', []).append(repr(e)[:300])
            continue
        try:
            x = gen.gen_instance(rng, ty, built)
            try:
                doc = json.loads(json.dumps(plain_doc(x, ty, built)))
            except Exception as e:
                ctx.count('doc_error')
                continue
            pos = list(positions(doc))
            r = rng.random()
            junk_path = None
            if r < 0.7:
                junk_path = rng.choice(pos)
                bad = replace_at(doc, junk_path, copy.deepcopy(gen.junk(rng)))
            elif r < 0.85:
                dpos = [p for p in pos if p and isinstance(p[-1], str)]
                bad = copy.deepcopy(doc)
                if dpos:
                    p = rng.choice(dpos)
                    cur = bad
                    for s_ in p[:-1]:
                        cur = cur[s_]
                    if isinstance(cur, dict):
                        v_ = cur.pop(p[-1], None)
                        if rng.random() < 0.5:
                            # a near-miss spelling of the deleted key (normalises to the field name, but is not a spelling any
                            # key case tries): exercises the "key transform" hint of MissingFields.message
                            cur[rng.choice([p[-1].upper(), p[-1].replace('_', '-').upper(), p[-1].replace('_', ' ')])] = v_
            else:
                bad = copy.deepcopy(doc)
                dpos = [p for p in pos if isinstance(_at(bad, p), dict)]
                tgt = _at(bad, rng.choice(dpos)) if dpos else bad
                if isinstance(tgt, dict):
                    tgt[rng.choice(['zzz_unknown', 'Extra-Key', '', 'q'])] = 1
            if not ctx.begin_case(i):
                continue
            case = {'ty': ty, 'doc': repr(bad)[:600], 'engine': engine}
            out = load_outcome(lambda: fromdict(built.root, copy.deepcopy(bad)))
            ctx.seen('err:' + engine, case, nontrivial=(out[0] == 'err'))
            src = dict(src=built.source)
            if out[0] == 'err':
                e = out[1]
                ctx.count('raised:' + type(e).__name__)
                if engine == 'v1':
                    if not isinstance(e, JSONWizardError):
                        ctx.fail('err:not-library-error', case, f'v1 load raised a bare {type(e).__name__}: {str(e)[:200]}', detail=src)
                exp = expected_attr(ty, junk_path) if junk_path else None
                if exp is not None and isinstance(e, ParseError) and type(e).__name__ == 'ParseError':
                    if (e.class_name, e.field_name) != exp:
                        ctx.fail('err:attribution', case, f'junk placed at {junk_path!r}: ParseError names ({e.class_name!r}, {e.field_name!r}), '
                                 f'the innermost (class, field) on the path is {exp!r}', detail=src)
                if isinstance(e, JSONWizardError):
                    try:
                        s = str(e)
                        assert isinstance(s, str)
                    except Exception as ee:
                        ctx.fail('err:render', case, f'str({type(e).__name__}) raised {type(ee).__name__}: {ee}', detail=src)
            st = model.StdTables()
            st.add_json(bad)
            try:
                reqs.append({'op': 'loadv1' if engine == 'v1' else 'load', 'ty': model.enc_ty(ty), 'doc': model.enc_j(bad), 'std': st.build()})
                pend.append((case, out, built, engine))
            except TypeError:
                ctx.count('not_encodable')
        finally:
            built.close()
    if ctx.model_available:
        outs = ctx.driver.run(reqs)
        for (case, out, built, engine), o_ in zip(pend, outs):
            if 'err' in o_ and 'r' not in o_:
                ctx.agree('attr', case, 'impl', {'driver_error': o_['err']})
                continue
            r = o_['r']
            if model.has_miss(r):
                ctx.count('std_miss')
                continue
            if 'err' in r and r['err'][0] == 'unsupported':
                ctx.count('model_unsupported')
                continue
            if out[0] == 'ok':
                impl = {'ok': True}
            else:
                a = attribution(out[1])
                # default engine: only ParseError attribution is part of the property
                impl = {'err': a if (engine == 'v1' or a[0] in ('ParseError', 'MissingData')) else [a[0]]}
            if 'ok' in r:
                m = {'ok': True}
            else:
                a = model_attr(r['err'])
                m = {'err': a if (engine == 'v1' or a[0] in ('ParseError', 'MissingData')) else [a[0]]}
            if engine == 'default' and impl.get('err', [None])[0] == 'raw':
                impl = {'err': ['raw']}
                if m.get('err', [None])[0] == 'raw':
                    m = {'err': ['raw']}
            ctx.agree('attr:' + engine, case, impl, m)


def expected_attr(ty, path):
    """independent locator: when the junk sits directly in a scalar-typed field reached through dataclass fields only,
    the innermost (class, field) on the path is that dataclass and that field"""
    t = ty
    cls_name = None
    for step in path:
        if t['k'] != 'cls' or not isinstance(step, str):
            return None
        ftys = dict((n, ft) for n, ft in t['ftys'])
        if step not in ftys:
            return None
        cls_name = t['info']['name']
        last = step
        t = ftys[step]
        while t['k'] == 'optional':
            t = t['a'][0]
    if cls_name is None or t['k'] not in ('int', 'float', 'str', 'bool', 'decimal', 'path', 'uuid', 'date', 'time', 'datetime',
                                          'timedelta', 'enum', 'literal', 'bytes', 'bytearray'):
        return None
    return (cls_name, last)


def _at(doc, path):
    cur = doc
    for s_ in path:
        cur = cur[s_]
    return cur
