"""C14 — v1 load failures are library errors that render and name the class and field."""
from __future__ import annotations

import copy
import json

from harness import common as C
from harness import gen, model, ref
from harness.props.c01 import load_outcome
from harness.props.c02 import strip_shapes
from harness.props.c05 import plain_doc, positions, replace_at
from harness.props import v1streams
from harness.model import T


def attribution(e):
    from dataclass_wizard.errors import ParseError, MissingFields, MissingData, UnknownKeysError
    if isinstance(e, MissingData):
        return ['MissingData', e.class_name, e.field_name]
    if isinstance(e, ParseError):
        return ['ParseError', e.class_name, e.field_name]
    if isinstance(e, MissingFields):
        return ['MissingFields', e.class_name, sorted(e.missing_fields)]
    if isinstance(e, UnknownKeysError):
        k = e.unknown_keys
        return ['UnknownKeysError', e.class_name, sorted([k] if isinstance(k, str) else list(k))]
    return ['raw', type(e).__name__]


def model_attr(r):
    k = r[0]
    if k in ('ParseError', 'MissingData'):
        return [k, r[1], r[2]]
    if k in ('MissingFields', 'UnknownKeysError'):
        return [k, r[1], sorted(r[2])]
    return ['raw', r[1] if len(r) > 1 else None]


# --------------------------------------------------------------------------- the mapping type of the JSON objects
#
# DIMENSION how the document was decoded.  A JSON object does not have to arrive as a plain `dict`: `from_json(text,
# object_pairs_hook=OrderedDict)` (extra keyword arguments go to json.loads), a document that was a defaultdict / an application's own
# dict subclass handed to from_dict.  All of these are dicts (isinstance), hold the same keys and values in the same order, and the
# loaders accept them; so the outcome of a load -- the value, or the error with its (class, field, offending value) -- is the one of the
# plain-dict document.  The objects of the document are re-typed at every level, at the root only, below the root only, or one by one.

class DictSub(dict):
    """an application's own dict subclass (no behaviour of its own)"""


def _mk_mapping(kind, items):
    import collections
    if kind == 'OrderedDict':
        return collections.OrderedDict(items)
    if kind == 'defaultdict':
        d = collections.defaultdict(None)       # no default_factory: a missing key raises KeyError, as for a dict
        d.update(items)
        return d
    return DictSub(items)


MAPPING_KINDS = ['OrderedDict', 'OrderedDict', 'DictSub', 'defaultdict']
MAPPING_WHERE = ['all', 'all', 'root', 'nested', 'random']


def remap(mrng, doc, kind, where, _depth=0):
    """`doc` with its JSON objects re-typed"""
    if isinstance(doc, dict):
        items = [(k, remap(mrng, v, kind, where, _depth + 1)) for k, v in doc.items()]
        hit = (where == 'all' or (where == 'root' and _depth == 0) or (where == 'nested' and _depth > 0) or
               (where == 'random' and mrng.random() < 0.5))
        return _mk_mapping(kind, items) if hit else dict(items)
    if isinstance(doc, list):
        return [remap(mrng, v, kind, where, _depth + 1) for v in doc]
    return doc


def innermost_on_path(ty, path):
    """(class, field) of the innermost dataclass field crossed on the way to `path` (containers, Optional, TypedDict / NamedTuple members
    are looked through); None when a Union is on the way or the path leaves the type"""
    t, best = ty, None
    for step in path:
        while t['k'] == 'optional':
            t = t['a'][0]
        k = t['k']
        if k == 'cls':
            ftys = dict((n, ft) for n, ft in t['ftys'])
            if not isinstance(step, str) or step not in ftys:
                return None
            best = (t['info']['name'], step)
            t = ftys[step]
        elif k in ('list', 'set', 'frozenset', 'deque', 'vtuple'):
            if not isinstance(step, int):
                return None
            t = t['a'][0]
        elif k == 'tuple':
            if not isinstance(step, int) or step >= len(t.get('a', [])):
                return None
            t = t['a'][step]
        elif k in ('dict', 'defaultdict', 'ordereddict'):
            t = t['a'][1]
        elif k == 'typeddict':
            fl = {n: ft for n, ft, _r in t['fields']}
            if step not in fl:
                return None
            t = fl[step]
        elif k == 'namedtuple':
            if not isinstance(step, int) or step >= len(t['fields']):
                return None
            t = t['fields'][step][1]
        else:
            return None
    return best


def _same_obj(a, b):
    """equal as JSON values (a NaN equals a NaN; a dict subclass equals the dict with the same pairs in the same order)"""
    if isinstance(a, dict) and isinstance(b, dict):
        return list(a) == list(b) and all(_same_obj(a[k], b[k]) for k in a)
    if isinstance(a, (list, tuple)) and isinstance(b, (list, tuple)):
        return len(a) == len(b) and all(_same_obj(x, y) for x, y in zip(a, b))
    if isinstance(a, float) and isinstance(b, float) and a != a and b != b:
        return True
    try:
        return type(a) is type(b) and bool(a == b)
    except Exception:
        return a is b


def check_mapping_types(ctx, mrng, kind_, case, root, engine, bad, out, src, loader, ty=None, junk_path=None):
    """load `bad` once more with its JSON objects re-typed (one seeded variant per case) and compare with the outcome `out` of the plain
    document.  `loader(document)` performs the load."""
    from dataclass_wizard.errors import ParseError, JSONWizardError
    if not isinstance(bad, (dict, list)):
        return
    kind, where = mrng.choice(MAPPING_KINDS), mrng.choice(MAPPING_WHERE)
    via = 'fromdict'
    variant = remap(mrng, bad, kind, where)
    text = None
    if kind == 'OrderedDict' and where == 'all' and isinstance(bad, dict) and hasattr(root, 'from_json') and mrng.random() < 0.5:
        try:
            text = json.dumps(bad)
        except (TypeError, ValueError):
            text = None
    if text is not None:
        import collections
        via = 'from_json(object_pairs_hook=OrderedDict)'
        out2 = load_outcome(lambda: root.from_json(text, object_pairs_hook=collections.OrderedDict))
    else:
        out2 = load_outcome(lambda: loader(variant))
    ctx.count(f'mapping-type:{kind}:{where}')
    mcase = dict(case, mapping_type=kind, mapping_where=where, mapping_via=via)
    what = f'JSON objects decoded as {kind} ({where}; {via})'
    kind_ += ':mapping-type'
    if out2[0] == 'ok':
        # (what a successful load returns is not this property's business: an Any / str / Union field may legitimately show the mapping type)
        return
    e2 = out2[1]
    a2 = attribution(e2)
    plain = f'{type(out[1]).__name__}: {str(out[1])[:160]}' if out[0] == 'err' else 'loads'
    if isinstance(e2, JSONWizardError):
        try:
            assert isinstance(str(e2), str)
        except BaseException as ee:
            ctx.fail(kind_, mcase, f'{what}: str({type(e2).__name__}) raised {type(ee).__name__}: {ee}', detail=src)
            return
    elif engine == 'v1':
        ctx.fail(kind_, mcase, f'{what}: v1 load raised a bare {type(e2).__name__}: {str(e2)[:200]} (plain-dict document: {plain})', detail=src)
        return
    if not isinstance(e2, ParseError):
        if engine == 'v1' and (out[0] == 'ok' or attribution(out[1]) != a2):
            ctx.fail(kind_, mcase, f'{what}: the load raises {a2!r}; plain-dict document: {plain}', detail=src)
        return          # default engine: only what a ParseError names is part of the property
    # ---- a ParseError: it has to name the innermost class, the field holding the offending value, and the value
    named = (e2.class_name, e2.field_name)
    def retyped_spots():
        """where the value the error carries is one of the re-typed objects of the document (the only values that differ from the
        plain-dict document), with the innermost (class, field) there"""
        d_ = variant if text is None else bad
        sp = [p_ for p_ in positions(d_) if _is_spot(_at(d_, p_), e2.obj, text is None)]
        return sp, [innermost_on_path(ty, p_) if ty is not None else None for p_ in sp]

    if out[0] == 'err' and isinstance(out[1], ParseError):
        # the plain-dict load names its (class, field, value) -- judged by the ordinary oracle and the Lean model: the same is demanded here
        e1 = out[1]
        if attribution(e1) == a2 and _same_obj(getattr(e1, 'obj', None), getattr(e2, 'obj', None)):
            return
        # ... unless a re-typed object itself is what could not be converted (a Union member matched by exact type, say), met before the
        # value that stops the plain-dict load -- it then is not an object that merely contains that value
        spots, wants = retyped_spots()
        if any(w == named and not (junk_path and tuple(junk_path[:len(p_)]) == tuple(p_)) for p_, w in zip(spots, wants)):
            ctx.count('mapping-type:retyped-object-rejected')
            return
        ctx.fail(kind_, mcase, f'{what}: ParseError names {named!r} with value {e2.obj!r}; for the plain-dict document it names '
                 f'({e1.class_name!r}, {e1.field_name!r}) with value {e1.obj!r}'[:800], detail=src)
        return
    if ty is None:
        ctx.count('mapping-type:unjudged')
        return
    if out[0] == 'err':
        # the plain-dict load let a bare error escape (default engine): the offending value is the junk value
        if not junk_path:
            ctx.count('mapping-type:unjudged')
            return
        spots, wants = retyped_spots()
        if any(w == named and tuple(junk_path[:len(p_)]) != tuple(p_) for p_, w in zip(spots, wants)):
            ctx.count('mapping-type:retyped-object-rejected')       # (as above: a re-typed object met before the junk value)
            return
        want = innermost_on_path(ty, junk_path)
        if want is None:
            ctx.count('mapping-type:unjudged')
        elif named != want or not any(_same_obj(e2.obj, _at(bad, junk_path[:k_])) for k_ in range(1, len(junk_path) + 1)
                                      if innermost_on_path(ty, junk_path[:k_]) == want):
            # (the value: the junk itself, or the value of the field / container element it sits in)
            ctx.fail(kind_, mcase, f'{what}: ParseError names {named!r} with value {e2.obj!r}; the value that cannot be converted is '
                     f'{_at(bad, junk_path)!r} at {junk_path!r}, innermost (class, field) on the way {want!r} (plain-dict document: {plain})'[:800], detail=src)
        return
    # the plain-dict document loads: the only values that can offend are the re-typed objects themselves
    spots, wants = retyped_spots()
    if not spots or named not in wants:
        if spots and all(w is None for w in wants):
            ctx.count('mapping-type:unjudged')
            return
        ctx.fail(kind_, mcase, f'{what}: the plain-dict document loads; this load raises a ParseError naming {named!r} with value {e2.obj!r}, '
                 f'which is ' + (f'found at {spots[:3]!r} of the document, where the innermost (class, field) is {wants[:3]!r}' if spots else
                                 'no object of the document')[:800], detail=src)


def _is_spot(v, obj, by_identity):
    if by_identity:
        return v is obj
    return isinstance(v, dict) and isinstance(obj, dict) and _same_obj(v, obj)


def run(ctx: C.Ctx):
    v1streams.run_streams(ctx, run_default, run_v1)


def run_default(ctx: C.Ctx):
    import random
    from dataclass_wizard import fromdict
    from dataclass_wizard.errors import JSONWizardError, ParseError
    rng = ctx.rng
    gen.SUBS = False
    ctx.rule = ('v1 (and, for the last clause, default-engine) class models nested to depth 3 with a well-typed document in which one '
                'random position is replaced by junk, or a required key deleted, or an unknown key added under RAISE: every raised error '
                'must derive from JSONWizardError, str(e) must return, and (type, class_name, field_name / missing / unknown) must equal the '
                'Lean model\'s attribution (innermost class and field on the path to the first offending value); every document is loaded once more '
                'with its JSON objects decoded as another mapping type (OrderedDict through from_json(object_pairs_hook=..) or from_dict, defaultdict, a dict '
                'subclass; at every level / the root / below the root / one by one): a ParseError then names the same (class, field, value) as for the '
                'plain-dict document, or the junk value\'s innermost (class, field) when the plain load lets a bare error escape, or a re-typed object that '
                'itself cannot be converted. Non-trivial = distinct (class model, mutated document) whose load raises.')
    n = ctx.quick(1500, 20000)
    reqs, pend = [], []
    for i in range(n):
        if ctx.done(i):
            break
        engine = 'v1' if rng.random() < 0.75 else 'default'
        o = gen.Opts(meta_keys=[], leaves=[l for l in gen.LEAVES_DEFAULT] + (['bytes'] if engine == 'v1' else []),
                     meta_prob=0.0, wizard_prob=0.7, py_wizard_prob=0.0)
        ty = gen.gen_cls(rng, rng.choice([0, 1, 2, 3]), o)
        ty = strip_shapes(ty)
        meta = {}
        if engine == 'v1':
            meta['v1'] = True
            meta['key_transform_with_dump'] = 'NONE'
            if rng.random() < 0.3:
                meta['v1_on_unknown_key'] = 'RAISE'
            if rng.random() < 0.3:
                meta['v1_key_case'] = rng.choice(['AUTO', 'A', 'SNAKE', 'CAMEL'])
                if meta['v1_key_case'] == 'CAMEL':
                    meta['v1_key_case'] = 'SNAKE'
        else:
            if rng.random() < 0.3:
                meta['raise_on_unknown_json_key'] = True
        ty['info']['meta'] = meta or None
        try:
            built = model.Built(ty)
        except Exception as e:
            ctx.count('build_error')
            ctx.notes.setdefault('build_errors', []).append(repr(e)[:300])
            continue
        try:
            x = gen.gen_instance(rng, ty, built)
            try:
                doc = json.loads(json.dumps(plain_doc(x, ty, built)))
            except Exception as e:
                ctx.count('doc_error')
                continue
            pos = list(positions(doc))
            r = rng.random()
            junk_path = None
            del_path, ins_path, ins_key = None, None, None
            if r < 0.7:
                junk_path = rng.choice(pos)
                bad = replace_at(doc, junk_path, copy.deepcopy(gen.junk(rng)))
            elif r < 0.85:
                dpos = [p for p in pos if p and isinstance(p[-1], str)]
                bad = copy.deepcopy(doc)
                if dpos:
                    p = rng.choice(dpos)
                    cur = bad
                    for s_ in p[:-1]:
                        cur = cur[s_]
                    if isinstance(cur, dict):
                        v_ = cur.pop(p[-1], None)
                        del_path = p
                        if rng.random() < 0.5:
                            del_path = None
                            # a near-miss spelling of the deleted key (normalises to the field name, but is not a spelling any
                            # key case tries): exercises the "key transform" hint of MissingFields.message
                            cur[rng.choice([p[-1].upper(), p[-1].replace('_', '-').upper(), p[-1].replace('_', ' ')])] = v_
            else:
                bad = copy.deepcopy(doc)
                dpos = [p for p in pos if isinstance(_at(bad, p), dict)]
                tpath = rng.choice(dpos) if dpos else ()
                tgt = _at(bad, tpath) if dpos else bad
                if isinstance(tgt, dict):
                    ins_key = rng.choice(['zzz_unknown', 'Extra-Key', '', 'q'])
                    tgt[ins_key] = 1
                    ins_path = tuple(tpath)
            if not ctx.begin_case(i):
                continue
            case = {'ty': ty, 'doc': repr(bad)[:600], 'engine': engine}
            out = load_outcome(lambda: fromdict(built.root, copy.deepcopy(bad)))
            ctx.seen('err:' + engine, case, nontrivial=(out[0] == 'err'))
            src = dict(src=built.source)
            # ---- the same document with its JSON objects decoded as another mapping type (own generator)
            check_mapping_types(ctx, random.Random(f'{ctx.prop_id}:{ctx.seed}:mapping-type:{i}'), 'err:' + engine, case, built.root, engine, bad, out,
                                src, lambda dd: fromdict(built.root, dd), ty=ty, junk_path=junk_path)
            if out[0] == 'err':
                e = out[1]
                ctx.count('raised:' + type(e).__name__)
                if engine == 'v1':
                    if not isinstance(e, JSONWizardError):
                        ctx.fail('err:not-library-error', case, f'v1 load raised a bare {type(e).__name__}: {str(e)[:200]}', detail=src)
                    elif getattr(e, 'class_name', None) is None and bad is not None:
                        # (a JSON null document is reported as MissingData without a class: the model has it so, too)
                        ctx.fail('err:no-class', case, f'{type(e).__name__} of a v1 load names no class (class_name is None): {str(e)[:200]}', detail=src)
                # ---- independent locators for the two other kinds of damage (v1, keys are the field names): a deleted key of a required
                # constructor field of the dataclass K at that position must come back as MissingFields naming K and the field; an
                # unknown key added to the document of a dataclass K under the cascading RAISE policy as UnknownKeysError naming K —
                # whatever K is nested in (lists, dicts, TypedDict / NamedTuple members, Optional)
                if engine == 'v1' and isinstance(e, JSONWizardError):
                    if del_path is not None:
                        K = class_at(ty, del_path[:-1])
                        if K is not None and required_field(K, del_path[-1]):
                            if not (type(e).__name__ == 'MissingFields' and e.class_name == K['info']['name']
                                    and del_path[-1] in (getattr(e, 'missing_fields', None) or [])):
                                ctx.fail('err:missing-attribution', case, f'key {del_path[-1]!r} of required field of class {K["info"]["name"]} deleted at '
                                         f'{del_path!r}: expected MissingFields naming that class and field, got {type(e).__name__} naming '
                                         f'({e.class_name!r}, {getattr(e, "field_name", None)!r}, missing={getattr(e, "missing_fields", None)!r})', detail=src)
                    if ins_path is not None and ins_key in ('zzz_unknown', 'Extra-Key') and meta.get('v1_on_unknown_key') == 'RAISE':
                        K = class_at(ty, ins_path)
                        if K is not None and not any(f.get('catch_all') for f in K['info']['fields']):
                            if not (type(e).__name__ == 'UnknownKeysError' and e.class_name == K['info']['name']):
                                ctx.fail('err:unknown-attribution', case, f'unknown key {ins_key!r} added to the document of class {K["info"]["name"]} at '
                                         f'{ins_path!r} under RAISE: expected UnknownKeysError naming that class, got {type(e).__name__} naming '
                                         f'{e.class_name!r}', detail=src)
                exp = expected_attr(ty, junk_path) if junk_path else None
                if exp is not None and isinstance(e, ParseError) and type(e).__name__ == 'ParseError':
                    if (e.class_name, e.field_name) != exp:
                        ctx.fail('err:attribution', case, f'junk placed at {junk_path!r}: ParseError names ({e.class_name!r}, {e.field_name!r}), '
                                 f'the innermost (class, field) on the path is {exp!r}', detail=src)
                if isinstance(e, JSONWizardError):
                    try:
                        s = str(e)
                        assert isinstance(s, str)
                    except Exception as ee:
                        ctx.fail('err:render', case, f'str({type(e).__name__}) raised {type(ee).__name__}: {ee}', detail=src)
            st = model.StdTables()
            st.add_json(bad)
            try:
                reqs.append({'op': 'loadv1' if engine == 'v1' else 'load', 'ty': model.enc_ty(ty), 'doc': model.enc_j(bad), 'std': st.build()})
                pend.append((case, out, built, engine))
            except TypeError:
                ctx.count('not_encodable')
        finally:
            built.close()
    if ctx.model_available:
        outs = ctx.driver.run(reqs)
        for (case, out, built, engine), o_ in zip(pend, outs):
            if 'err' in o_ and 'r' not in o_:
                ctx.agree('attr', case, 'impl', {'driver_error': o_['err']})
                continue
            r = o_['r']
            if model.has_miss(r):
                ctx.count('std_miss')
                continue
            if 'err' in r and r['err'][0] == 'unsupported':
                ctx.count('model_unsupported')
                continue
            if out[0] == 'ok':
                impl = {'ok': True}
            else:
                a = attribution(out[1])
                # default engine: only ParseError attribution is part of the property
                impl = {'err': a if (engine == 'v1' or a[0] in ('ParseError', 'MissingData')) else [a[0]]}
            if 'ok' in r:
                m = {'ok': True}
            else:
                a = model_attr(r['err'])
                m = {'err': a if (engine == 'v1' or a[0] in ('ParseError', 'MissingData')) else [a[0]]}
            if engine == 'default' and impl.get('err', [None])[0] == 'raw':
                impl = {'err': ['raw']}
                if m.get('err', [None])[0] == 'raw':
                    m = {'err': ['raw']}
            ctx.agree('attr:' + engine, case, impl, m)


def expected_attr(ty, path):
    """independent locator: when the junk sits directly in a scalar-typed field reached through dataclass fields only,
    the innermost (class, field) on the path is that dataclass and that field"""
    t = ty
    cls_name = None
    for step in path:
        if t['k'] != 'cls' or not isinstance(step, str):
            return None
        ftys = dict((n, ft) for n, ft in t['ftys'])
        if step not in ftys:
            return None
        cls_name = t['info']['name']
        last = step
        t = ftys[step]
        while t['k'] == 'optional':
            t = t['a'][0]
    if cls_name is None or t['k'] not in ('int', 'float', 'str', 'bool', 'decimal', 'path', 'uuid', 'date', 'time', 'datetime',
                                          'timedelta', 'enum', 'literal', 'bytes', 'bytearray'):
        return None
    return (cls_name, last)


def class_at(ty, path):
    """the dataclass type node whose document sits at `path` of the root document (keys are field names; containers by
    index / key; Optional looked through); None when the position is not a dataclass document or a Union is on the way"""
    t = ty
    for step in path:
        while t['k'] == 'optional':
            t = t['a'][0]
        k = t['k']
        if k == 'cls':
            ftys = dict((n, ft) for n, ft in t['ftys'])
            if not isinstance(step, str) or step not in ftys:
                return None
            t = ftys[step]
        elif k in ('list', 'set', 'frozenset', 'deque', 'vtuple'):
            if not isinstance(step, int):
                return None
            t = t['a'][0]
        elif k == 'tuple':
            if not isinstance(step, int) or step >= len(t.get('a', [])):
                return None
            t = t['a'][step]
        elif k in ('dict', 'defaultdict', 'ordereddict'):
            if not isinstance(step, str):
                return None
            t = t['a'][1]
        elif k == 'typeddict':
            fl = {n: ft for n, ft, _r in t['fields']}
            if step not in fl:
                return None
            t = fl[step]
        elif k == 'namedtuple':
            if not isinstance(step, int) or step >= len(t['fields']):
                return None
            t = t['fields'][step][1]
        else:
            return None
    while t['k'] == 'optional':
        t = t['a'][0]
    return t if t['k'] == 'cls' else None


def required_field(K, name):
    for f in K['info']['fields']:
        if f['name'] == name:
            return f.get('dflt') is None and f.get('init', True) and not f.get('catch_all') and not f.get('kw_only')
    return False


def _at(doc, path):
    cur = doc
    for s_ in path:
        cur = cur[s_]
    return cur


# --------------------------------------------------------------------------- v1 engine: AliasPath and the remaining class features

PATHS = [('p.q', ['p', 'q']), ('p.q.r', ['p', 'q', 'r']), ('items[0]', ['items', 0]), ('a.b[1]', ['a', 'b', 1]), ('solo', ['solo'])]
PATH_MUTS = ['drop-top', 'drop-last', 'other-key', 'list-instead', 'scalar-instead', 'none-instead', 'bad-value', 'short-list']


def _set_path(doc, steps, value):
    """smallest JSON structure holding `value` at `steps`, merged into doc"""
    cur = doc
    for n_, st_ in enumerate(steps):
        last = n_ == len(steps) - 1
        nxt = value if last else ({} if isinstance(steps[n_ + 1], str) else [])
        if isinstance(st_, int):
            while len(cur) <= st_:
                cur.append(0)
            if last or not isinstance(cur[st_], (dict, list)):
                cur[st_] = nxt
            cur = cur[st_]
        else:
            if last or st_ not in cur:
                cur[st_] = nxt
            cur = cur[st_]


def gen_alias_chain(rng, nm):
    """source of a chain Root(JSONWizard, v1) → … → Leaf (1..3 classes); every class has one AliasPath field, a plain field and,
    except the last, a child field (direct / list / Optional / dict value)"""
    depth = rng.randint(1, 3)
    levels = []
    same_names = rng.random() < 0.2
    for lvl in range(depth):
        text, steps = rng.choice(PATHS)
        levels.append({'cls': nm('A'), 'fld': 'px' if same_names else f'px{lvl}', 'path': text, 'steps': steps,
                       'dflt': rng.random() < 0.3, 'link': rng.choice(['direct', 'direct', 'list', 'optional', 'dictval']),
                       'wizard': rng.random() < 0.4, 'two_paths': rng.random() < 0.2})
    lines = ['from dataclass_wizard.v1 import AliasPath', '']
    for lvl in reversed(range(depth)):
        L = levels[lvl]
        root = lvl == 0
        lines += ['@dataclass', f'class {L["cls"]}' + ('(JSONWizard)' if (root or L['wizard']) else '') + ':']
        if root:
            lines += ['    class _(JSONWizard.Meta):', '        v1 = True']
        if lvl < depth - 1:
            child = levels[lvl + 1]['cls']
            ann = {'direct': child, 'list': f'list[{child}]', 'optional': f'Optional[{child}]', 'dictval': f'dict[str, {child}]'}[L['link']]
            lines.append(f'    child{lvl}: {ann}')
        paths = repr(L['path']) + (", 'alt.way'" if L['two_paths'] else '')
        lines.append(f'    {L["fld"]}: int = AliasPath({paths}' + (', default=-5)' if L['dflt'] else ')'))
        lines.append(f"    plain{lvl}: str = 'd'")
        lines.append('')
    return levels, '\n'.join(lines)


def alias_doc(levels, lvl=0):
    L = levels[lvl]
    d = {}
    if lvl < len(levels) - 1:
        sub = alias_doc(levels, lvl + 1)
        d[f'child{lvl}'] = {'direct': sub, 'list': [sub], 'optional': sub, 'dictval': {'k': sub}}[L['link']]
    _set_path(d, L['steps'], 7 + lvl)
    d[f'plain{lvl}'] = 's'
    return d


def level_doc(doc, levels, t):
    cur = doc
    for lvl in range(t):
        cur = cur[f'child{lvl}']
        link = levels[lvl]['link']
        cur = cur[0] if link == 'list' else cur['k'] if link == 'dictval' else cur
    return cur


def mutate_path(rng, d, L, mut):
    """returns the expectation: 'error' (must raise, attributed to the field), 'default' (loads, field holds its default) or None (skip)"""
    steps = L['steps']
    top = steps[0]
    missing = 'default' if (L['dflt'] and not L['two_paths']) else 'error' if not L['dflt'] else None
    if mut == 'drop-top':
        d.pop(top, None)
        return missing
    if mut == 'drop-last':
        if len(steps) < 2:
            return None
        cur = d
        for st_ in steps[:-1]:
            cur = cur[st_]
        if isinstance(steps[-1], int):
            del cur[steps[-1]:]
        else:
            cur.pop(steps[-1], None)
        return missing
    if mut == 'other-key':
        d[top] = {'zz': 1}
        if len(steps) < 2:
            return None
        return missing if isinstance(steps[1], str) else None
    if mut == 'list-instead':
        if len(steps) < 2 or isinstance(steps[1], int):
            return None
        d[top] = [1]
        return 'error' if not L['two_paths'] else None
    if mut == 'scalar-instead':
        if len(steps) < 2:
            return None
        d[top] = 5
        return 'error' if not L['two_paths'] else None
    if mut == 'none-instead':
        if len(steps) < 2:
            return None
        d[top] = None
        return 'error' if not L['two_paths'] else None
    if mut == 'bad-value':
        _set_path(d, steps, rng.choice(['abc', [1], {'a': 1}]))
        return 'error'
    if mut == 'short-list':
        if not isinstance(steps[-1], int):
            return None
        cur = d
        for st_ in steps[:-1]:
            cur = cur[st_]
        del cur[:]
        return missing
    return None


def run_v1(ctx: C.Ctx):
    import time
    full = ctx.deadline
    if full is not None:
        ctx.deadline = time.time() + max(0.0, full - time.time()) * 0.5
    try:
        run_v1_alias(ctx)
    finally:
        ctx.deadline = full
    if full is not None:
        ctx.deadline = time.time() + max(0.0, full - time.time()) * 0.6
    try:
        run_v1_features(ctx)
    finally:
        ctx.deadline = full
    rule_features = ctx.rule
    # class families (inheritance) x entry points x histories (c14_family.py)
    from harness.props import c14_family
    if full is not None:
        ctx.deadline = time.time() + max(0.0, full - time.time()) * 0.5
    try:
        c14_family.run(ctx, v1streams.OFFSET + 2_000_000)
    finally:
        ctx.deadline = full
    rule_family = ctx.rule
    # positional types (NamedTuple / fixed tuple) x compound damage: too short AND an earlier element bad (c14_pos.py)
    from harness.props import c14_pos
    c14_pos.run(ctx, v1streams.OFFSET + 3_000_000)
    ctx.rule = ctx.rule_alias + ' ALSO ' + rule_features + ' ALSO ' + rule_family + ' ALSO ' + ctx.rule


def run_v1_alias(ctx: C.Ctx):
    from dataclass_wizard import fromdict
    from dataclass_wizard.errors import JSONWizardError, ParseError
    rng = v1streams.sub_rng(ctx, 'v1-alias')
    ctx.rule_alias = ('chains of 1..3 v1 dataclasses (direct / list / Optional / dict-value links) in which every class maps one int field with '
                      'AliasPath (dict steps, list indices, one or two alternative paths, with / without default): in the class at a random depth the '
                      'path is cut at the top, cut at the end, replaced by another key / a list / a scalar / None, its list emptied, or the value made '
                      'unconvertible; a required field must then fail with a JSONWizardError attributed to exactly that (class, field) whose str() '
                      'returns, a defaulted field whose path is merely absent must hold its default (oracle only — AliasPath is outside the Lean model).')
    n = ctx.quick(350, 4000)
    for j in range(n):
        i = v1streams.OFFSET + j
        if ctx.done(i):
            break
        nm = v1streams.Namer(j)
        levels, src_txt = gen_alias_chain(rng, nm)
        t = rng.randrange(len(levels))
        mut = rng.choice(PATH_MUTS)
        doc = alias_doc(levels)
        exp = mutate_path(rng, level_doc(doc, levels, t), levels[t], mut)
        dummy = {'k': 'cls', 'info': {'name': nm('Z'), 'fields': [{'name': 'a'}], 'wizard': False, 'meta': None}, 'ftys': [['a', T('int')]]}
        try:
            built = model.Built(dummy, extra_src=src_txt)
        except Exception as e:
            ctx.count('build_error')
            ctx.notes.setdefault('build_errors', []).append(repr(e)[:300])
            continue
        try:
            if not ctx.begin_case(i):
                continue
            doc = json.loads(json.dumps(doc))
            case = {'levels': levels, 'target': t, 'mut': mut, 'doc': repr(doc)[:500], 'engine': 'v1', 'expect': exp}
            Root = built.get(levels[0]['cls'])
            src = dict(src=src_txt)
            good = load_outcome(lambda: fromdict(Root, json.loads(json.dumps(alias_doc(levels)))))
            out = load_outcome(lambda: fromdict(Root, copy.deepcopy(doc)))
            ctx.seen('err:v1:alias', case, nontrivial=(out[0] == 'err'))
            if good[0] == 'err':
                ctx.fail('err:v1:alias-good', case, f'the complete document does not load: {type(good[1]).__name__}: {str(good[1])[:300]}', detail=src)
                continue
            L = levels[t]
            if out[0] == 'err':
                e = out[1]
                ctx.count('raised:v1:alias:' + type(e).__name__)
                if not isinstance(e, JSONWizardError):
                    ctx.fail('err:v1:not-library-error', case, f'v1 load raised a bare {type(e).__name__}: {str(e)[:200]}', detail=src)
                else:
                    try:
                        s_ = str(e)
                        assert isinstance(s_, str)
                    except BaseException as ee:       # StopIteration & co. included
                        ctx.fail('err:v1:render', case, f'str({type(e).__name__}) for ({e.class_name}, {getattr(e, "field_name", None)}) raised '
                                 f'{type(ee).__name__}: {ee}', detail=src)
                    if exp == 'error' and isinstance(e, ParseError) and (e.class_name, e.field_name) != (L['cls'], L['fld']):
                        ctx.fail('err:v1:attribution', case, f'{mut} in class {L["cls"]} (depth {t}): error names ({e.class_name!r}, {e.field_name!r}), '
                                 f'expected ({L["cls"]!r}, {L["fld"]!r})', detail=src)
                if exp == 'default':
                    ctx.fail('err:v1:alias-default', case, f'{mut}: the path of defaulted field {L["fld"]} is absent, yet the load raised {type(e).__name__}: {str(e)[:200]}', detail=src)
            else:
                if exp == 'error':
                    ctx.fail('err:v1:alias-accepted', case, f'{mut} on the path of required field {L["fld"]} of {L["cls"]} was accepted: {out[1]!r}'[:600], detail=src)
                elif exp == 'default':
                    obj = out[1]
                    for lvl in range(t):
                        obj = getattr(obj, f'child{lvl}')
                        link = levels[lvl]['link']
                        obj = obj[0] if link == 'list' else obj['k'] if link == 'dictval' else obj
                    if getattr(obj, L['fld']) != -5:
                        ctx.fail('err:v1:alias-default', case, f'{mut}: defaulted field {L["fld"]} holds {getattr(obj, L["fld"])!r}, expected its default -5', detail=src)
        finally:
            built.close()


def _all_classes(ty, out=None):
    out = [] if out is None else out
    if ty['k'] == 'cls':
        out.append(ty)
        for _, ft in ty['ftys']:
            _all_classes(ft, out)
    else:
        for m in ty.get('a', []):
            _all_classes(m, out)
    return out


def run_v1_features(ctx: C.Ctx):
    import random
    from dataclass_wizard import fromdict
    from dataclass_wizard.errors import JSONWizardError, ParseError
    from harness.props.c09 import gen_c09_cls
    rng = v1streams.sub_rng(ctx, 'v1-features')
    gen.SUBS = False
    ctx.rule = ('v1 class models with init=False fields, nested dataclasses in list / dict / Optional / tuple, nested classes with their own Meta '
                '(v1_on_unknown_key RAISE / IGNORE / WARN) under a root with or without RAISE, CatchAll fields (default None) on some classes: one '
                'position replaced by junk, a required key deleted or an unknown key added: every error derives from JSONWizardError, str(e) returns, '
                'and (type, class, field / missing / unknown) equals the Lean model\'s attribution. Non-trivial = distinct (class model, document) that raises.')
    n = ctx.quick(500, 6000)
    base = v1streams.OFFSET + 1_000_000
    reqs, pend = [], []
    for j in range(n):
        i = base + j
        if ctx.done(i):
            break
        ty = gen_c09_cls(rng, rng.choice([1, 1, 2, 2]), fresh=v1streams.Namer(j), p_noinit=0.5)
        classes = _all_classes(ty)
        for c in classes:
            for f in c['info']['fields']:
                f.pop('kw_only', None)
        meta = {'v1': True}
        if rng.random() < 0.4:
            meta['v1_on_unknown_key'] = 'RAISE'
        ty['info']['meta'] = meta
        for c in classes[1:]:
            r = rng.random()
            if r < 0.35:
                c['info']['meta'] = {'v1': True, 'v1_on_unknown_key': rng.choice(['RAISE', 'RAISE', 'IGNORE', 'WARN'])}
            if rng.random() < 0.2 and not any(f.get('catch_all') for f in c['info']['fields']):
                c['info']['fields'].append({'name': 'rest_items', 'catch_all': True, 'dflt': ['lit', None], 'factory': False})
                c['ftys'].append(['rest_items', T('any')])
        try:
            built = model.Built(ty)
        except Exception as e:
            ctx.count('build_error')
            ctx.notes.setdefault('build_errors', []).append(repr(e)[:300])
            continue
        try:
            x = gen.gen_instance(rng, ty, built, use_defaults_prob=0.1)
            doc = json.loads(json.dumps(plain_doc(x, ty, built)))
            _strip_key(doc, 'rest_items')
            pos = list(positions(doc))
            r = rng.random()
            bad = copy.deepcopy(doc)
            if r < 0.55:
                bad = replace_at(doc, rng.choice(pos), copy.deepcopy(gen.junk(rng)))
            elif r < 0.75:
                dpos = [p for p in pos if p and isinstance(p[-1], str)]
                if dpos:
                    p_ = rng.choice(dpos)
                    cur = _at(bad, p_[:-1])
                    if isinstance(cur, dict):
                        cur.pop(p_[-1], None)
            else:
                dpos = [p for p in pos if isinstance(_at(bad, p), dict)]
                tpath = rng.choice(dpos) if dpos else ()
                tgt = _at(bad, tpath) if dpos else bad
                if isinstance(tgt, dict):
                    ins_key = rng.choice(['zzz_unknown', 'Extra-Key', '', 'q'])
                    tgt[ins_key] = 1
                    ins_path = tuple(tpath)
            if not ctx.begin_case(i):
                continue
            case = {'ty': ty, 'doc': repr(bad)[:600], 'engine': 'v1'}
            out = load_outcome(lambda: fromdict(built.root, copy.deepcopy(bad)))
            ctx.seen('err:v1:features', case, nontrivial=(out[0] == 'err'))
            src = dict(src=built.source)
            check_mapping_types(ctx, random.Random(f'{ctx.prop_id}:{ctx.seed}:v1-features:mapping-type:{j}'), 'err:v1:features', case, built.root, 'v1',
                                bad, out, src, lambda dd: fromdict(built.root, dd), ty=ty)
            if out[0] == 'err':
                e = out[1]
                ctx.count('raised:v1:features:' + type(e).__name__)
                if not isinstance(e, JSONWizardError):
                    ctx.fail('err:v1:not-library-error', case, f'v1 load raised a bare {type(e).__name__}: {str(e)[:200]}', detail=src)
                else:
                    try:
                        assert isinstance(str(e), str)
                    except BaseException as ee:
                        ctx.fail('err:v1:render', case, f'str({type(e).__name__}) raised {type(ee).__name__}: {ee}', detail=src)
            st = model.StdTables()
            st.add_json(bad)
            try:
                reqs.append({'op': 'loadv1', 'ty': model.enc_ty(ty), 'doc': model.enc_j(bad), 'std': st.build()})
                pend.append((case, out))
            except TypeError:
                ctx.count('not_encodable')
        finally:
            built.close()
    if ctx.model_available:
        outs = ctx.driver.run(reqs)
        for (case, out), o_ in zip(pend, outs):
            if 'err' in o_ and 'r' not in o_:
                ctx.agree('attr:v1:features', case, 'impl', {'driver_error': o_['err']})
                continue
            r = o_['r']
            if model.has_miss(r):
                ctx.count('std_miss')
                continue
            if 'err' in r and r['err'][0] == 'unsupported':
                ctx.count('model_unsupported')
                continue
            impl = {'ok': True} if out[0] == 'ok' else {'err': attribution(out[1])}
            m = {'ok': True} if 'ok' in r else {'err': model_attr(r['err'])}
            ctx.agree('attr:v1:features', case, impl, m)


def _strip_key(doc, key):
    if isinstance(doc, dict):
        doc.pop(key, None)
        for v in doc.values():
            _strip_key(v, key)
    elif isinstance(doc, list):
        for v in doc:
            _strip_key(v, key)
