"""C15 — spelling never changes behaviour, over HISTORIES of use (stream `hist`, case indices BASE + i).

The renaming oracle of harness/props/c15.py builds a model and uses it through its root only.  A library that caches what it
generates per class (compiled loaders / dumpers saved on the class, per-class registries) can take another path through its
generators when a nested class has been used ON ITS OWN before the class that contains it — and names derived from `__name__`
are spliced on that path too.  This stream quantifies over that dimension:

  model     a root wizard class (v1 engine / default engine) × Meta.recursive (default / False) over 2–4 nested definitions
            (wizard dataclasses carrying their OWN Meta, plain dataclasses, NamedTuples, TypedDicts), structurally different, each
            reached through one or two positions (bare / list / dict value / Optional / tuple), nested classes also containing
            earlier nested classes (shared);
  naming    the benign spelling vs an adversarial one (`c15.rename`: one `__name__` for several definitions with high probability,
            generator-internal names, hostile field names) and, in addition, `__name__`s of the form <shared name><small number> — the
            shape of the names a generator makes up itself when it resolves a collision;
  history   before the root is used: any subset of the nested classes, in any order, each loaded / dumped / both on its own; then the
            root is loaded (conforming, key-dropped, junk documents) and dumped; then the nested classes are used on their own
            again.

Both spellings are driven through the SAME history (documents are prepared on separate scout copies of the two models, so that
preparing them is not part of the history) and every step must correspond: results position by position with classes by identity
(`c15.canon_obj`), errors by type.  Functions generated on the way are checked to compile and to be well scoped by the caller's
capture.
"""
from __future__ import annotations

import copy
import json
import random

from harness import common as C
from harness import gen, model

BASE = 400000


def _cls(rng, fields, wizard, meta):
    return {'k': 'cls', 'info': {'name': model.fresh('H'), 'fields': [{'name': n} for n, _ in fields], 'wizard': wizard, 'meta': meta},
            'ftys': [[n, ft] for n, ft in fields]}


def _scalar_fields(rng, lo=1, hi=3):
    T = model.T
    return [(model.fresh('hf_') + '_x', T(rng.choice(['int', 'str', 'float', 'bool', 'int', 'str']))) for _ in range(rng.randint(lo, hi))]


def make_model(rng, engine):
    T = model.T
    v1 = engine == 'v1'
    n = rng.randint(2, 4)
    nested = []
    for j in range(n):
        kind = rng.choice(['cls', 'cls', 'cls', 'cls', 'td', 'nt'])
        if kind == 'td':
            nested.append(T('typeddict', name=model.fresh('HTD'), fields=[[nm, ft, True] for nm, ft in _scalar_fields(rng)]))
        elif kind == 'nt':
            nested.append(T('namedtuple', name=model.fresh('HNT'), fields=[[nm, ft, None] for nm, ft in _scalar_fields(rng)]))
        else:
            fields = _scalar_fields(rng)
            if nested and rng.random() < 0.3:      # a nested class that itself contains an earlier definition (shared below the root)
                fields.insert(rng.randrange(len(fields) + 1), (model.fresh('hsub_') + '_x', rng.choice(nested)))
            if v1:
                meta = rng.choice([None, {'v1': True}, {'v1': True}, {'v1': True, 'v1_key_case': 'AUTO'}])
            else:
                meta = rng.choice([None, {}, {}, {'key_transform_with_dump': 'SNAKE'}])
            nested.append(_cls(rng, fields, True if meta is not None else rng.random() < 0.5, meta))
    # every definition is reached from the root (or from a nested class that is)
    fields = []
    for d in nested:
        for _ in range(rng.choice([1, 1, 2])):
            pos = rng.choice(['bare', 'bare', 'list', 'dict', 'optional', 'tuple'])
            ft = {'bare': lambda: d, 'list': lambda: T('list', d), 'dict': lambda: T('dict', T('str'), d),
                  'optional': lambda: T('optional', d), 'tuple': lambda: T('tuple', T('int'), d)}[pos]()
            fields.append((model.fresh('hr_') + '_x', ft))
    rng.shuffle(fields)
    if rng.random() < 0.5:
        fields.insert(rng.randrange(len(fields) + 1), (model.fresh('hr_') + '_x', T('int')))
    meta = {'v1': True, 'v1_key_case': 'AUTO'} if v1 else {}
    recursive = rng.random() < 0.5
    if not recursive:
        meta['recursive'] = False
    root = _cls(rng, fields, True, meta)
    root['_directed'] = 'hist'        # c15.rename: one shared __name__ with probability 0.8 per definition
    return root, nested


def make_history(rng, nested):
    """-> (pre, post): lists of [op, index of the nested definition]; op in load / dump / both"""
    cls_ix = [j for j, d in enumerate(nested) if d['k'] == 'cls']
    r = rng.random()
    if r < 0.15:
        pre = []
    elif r < 0.3:
        pre = list(cls_ix)
    else:
        pre = [j for j in cls_ix if rng.random() < 0.5]
    rng.shuffle(pre)
    pre = [[rng.choice(['load', 'load', 'load', 'dump', 'both']), j] for j in pre]
    post = [['load', j] for j in cls_ix if rng.random() < 0.5]
    return pre, post


def suffix_names(rng, R, maps):
    """some of the renamed definitions get <a __name__ used in the model><small number>: the shape of a name the generators make up
    when two definitions share one"""
    from harness.props import c15
    defs = []
    c15.walk_defs(R, defs, set())
    used = sorted(set(maps['pynames'].values()))
    hit = False
    for d in defs[1:]:
        if rng.random() < 0.3:
            pn = rng.choice(used) + str(rng.randint(1, 6))
            bind = d['info']['name'] if d['k'] == 'cls' else d['name']
            maps['pynames'][bind] = pn
            if d['k'] == 'cls':
                d['info']['pyname'] = pn
            else:
                d['pyname'] = pn
            hit = True
    return hit


KEY_SUFFIX = 'v1-collision-suffix-not-rechecked'      # findings/v1-collision-suffix-not-rechecked.py


def suffix_collision_shape(R, maps):
    """the recorded shape: among the TypedDicts (or among the NamedTuples) of a v1 model two share a __name__ P and a third one is
    named P<digits> — the name the generator makes up for the second P"""
    import re
    from harness.props import c15
    if not (R['info'].get('meta') or {}).get('v1'):
        return False
    defs = []
    c15.walk_defs(R, defs, set())
    for kind in ('typeddict', 'namedtuple'):
        pn = [maps['pynames'][d['name']] for d in defs if d['k'] == kind]
        for p in set(pn):
            if pn.count(p) >= 2 and any(re.fullmatch(re.escape(p) + r'\d+', x) for x in pn):
                return True
    return False


def ident_maps(side):
    return {'fields': {b: {f['name']: f['name'] for f in d['info']['fields']} for b, d in side.by_bind.items() if d['k'] == 'cls'},
            'ntfields': {}, 'text': {}, 'pynames': {}}


def run_hist(ctx: C.Ctx, fld_pool, cls_pool, cap, check_generated):
    if ctx.only is not None and not (BASE <= ctx.only < BASE + 100000):
        return
    from dataclass_wizard import fromdict, asdict
    from harness.props import c15
    n_cases = ctx.quick(160, 3000)
    for i in range(n_cases):
        idx = BASE + i
        if ctx.only is not None and idx != ctx.only:
            continue
        if ctx.only is None and ctx.deadline is not None and ctx.done(idx):
            break
        rng = random.Random(f'C15hist:{ctx.seed}:{i}')
        engine = 'v1' if i % 3 else 'default'
        M, nested = make_model(rng, engine)
        R, maps = c15.rename(M, rng, fld_pool, cls_pool)
        suffixed = suffix_names(rng, R, maps) if rng.random() < 0.5 else False
        pre, post = make_history(rng, nested)
        ctx.current = idx
        binds = [(d['info']['name'] if d['k'] == 'cls' else d['name']) for d in nested]
        case = {'hist': True, 'engine': engine, 'ty': M, 'pynames': maps['pynames'], 'fields': maps['fields'],
                'pre': [[op, binds[j]] for op, j in pre], 'post': [[op, binds[j]] for op, j in post]}
        n_before = len(cap.batches)
        sides = []
        try:
            # ---- scouts: instances and documents, prepared away from the models under test
            try:
                sa = c15.Side(M)
                sides.append(sa)
            except Exception:      # noqa
                ctx.count('hist_build_error_base')
                continue
            try:
                sb = c15.Side(R)
                sides.append(sb)
            except Exception as e:      # noqa
                ctx.count('hist_build_error_renamed')
                ctx.notes.setdefault('hist_build_errors_renamed', []).append(repr(e)[:200])
                continue
            try:
                xs = {'root': gen.gen_instance(rng, M, sa.built)}
                for j, d in enumerate(nested):
                    if d['k'] == 'cls':
                        xs[j] = gen.gen_instance(rng, d, sa.built)
                docs = {}
                for k, x in xs.items():
                    xr = c15.transport(x, sa, sb, maps)
                    da, db = asdict(x), asdict(xr)
                    _c, doc_a = c15.canon_dump(x, da, sa)
                    _c, doc_b = c15.canon_dump(xr, db, sb)
                    docs[k] = (json.loads(json.dumps(doc_a)), json.loads(json.dumps(doc_b)))
            except Exception as e:      # noqa
                ctx.count('hist_prepare_error')
                ctx.notes.setdefault('hist_prepare_errors', []).append(repr(e)[:200])
                continue
            ctx.seen('hist:' + engine, case)
            ctx.count('dim:hist-recursive-false' if (M['info']['meta'] or {}).get('recursive') is False else 'dim:hist-recursive-default')
            if pre:
                ctx.count('dim:hist-nested-used-first')
            pn = [maps['pynames'][b] for b in binds]
            if len(set(pn)) < len(pn):
                ctx.count('dim:hist-shared-name')
            if suffixed:
                ctx.count('dim:hist-name-with-number-suffix')
            # ---- the models under test: fresh definitions, the same history on both
            a, b = c15.Side(M), c15.Side(R)
            sides += [a, b]
            det = {'src': b.built.source[-6000:], 'base_src': a.built.source[-3000:]}
            ida = ident_maps(sa)

            def step(what, op, k, da_, db_):
                """one step of the history on both sides; True when the outcomes correspond"""
                if op == 'load':
                    ca = a.built.root if k == 'root' else a.built.get(binds[k])
                    cb = b.built.root if k == 'root' else b.built.get(binds[k])
                    oa = c15.outcome(lambda: fromdict(ca, copy.deepcopy(da_)), a)
                    ob = c15.outcome(lambda: fromdict(cb, copy.deepcopy(db_)), b)
                else:
                    xa, xb = c15.transport(xs[k], sa, a, ida), c15.transport(xs[k], sa, b, maps)
                    oa, ob = c15.outcome_dump(lambda: asdict(xa)), c15.outcome_dump(lambda: asdict(xb))
                    if oa[0] == 'ok' and ob[0] == 'ok':
                        oa, ob = ['ok', c15.canon_dump(xa, oa[1], a)[0]], ['ok', c15.canon_dump(xb, ob[1], b)[0]]
                ctx.count('hist_steps')
                if C.canon(oa) != C.canon(ob):
                    ctx.fail('hist:' + what, dict(case, step=[what, op, 'root' if k == 'root' else binds[k]], doc=db_),
                             f'history {case["pre"]} then the root: step {what} ({op} of {"the root" if k == "root" else binds[k]}) by the renamed '
                             f'model: {json.dumps(ob, default=repr)[:400]}; by the benign spelling after the same history: '
                             f'{json.dumps(oa, default=repr)[:400]}', detail=det,
                             key=KEY_SUFFIX if op == 'load' and suffix_collision_shape(R, maps) else None)
                    return False
                return True

            ok = True
            for op, j in pre:
                for o in (['load', 'dump'] if op == 'both' else [op]):
                    ok = ok and step('nested-first', o, j, *docs[j])
            if ok:
                ra, rb = docs['root']
                rdocs = [('roundtrip', ra, rb)] + c15.mutate_docs(random.Random(f'C15hist:{ctx.seed}:{i}:mutate'), ra, rb)
                for kind, d1, d2 in rdocs:
                    ok = ok and step('root-' + kind, 'load', 'root', d1, d2)
                ok = ok and step('root-dump', 'dump', 'root', None, None)
            if ok:
                for op, j in post:
                    ok = ok and step('nested-after', op, j, *docs[j])
        finally:
            for s in sides:
                s.close()
        check_generated(case, n_before, sides[-1].built.source[-4000:] if sides else '')
        del cap.batches[n_before:]
