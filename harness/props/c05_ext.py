"""C05, further streams (run after the historical ones; own case-index ranges and own generators, so the case sequence
of the historical streams and every replay file naming one of their indices is untouched).

  ENUM_BASE   Enum families: plain Enum, `class E(str, Enum)`, `class E(int, Enum)`, IntEnum, StrEnum × position (bare,
              Optional, list / tuple element, dict value / key, nested dataclass) × junk (null, '', 0, False, [], {}, values of
              the mixed-in type that are no member, member *names*, numeric strings of member values, …) and valid values.
  EXT_BASE    the random junk stream again over an extended type grammar: Enum leaves frequent and mostly with a data-type
              mix-in; user-defined subclasses of date / datetime next to the plain types.
  PAT_BASE    classes whose fields are `Annotated[<date | time | datetime, or a container of them>, Pattern(fmt)]`, one
              Pattern object possibly shared by positions of different types; documents in the pattern's format, ISO
              documents, junk.
  V1_BASE     the junk stream on the v1 engine (Meta.v1 = True) over the composite fragment (no Union / Literal, which have
              their own recorded shapes) with user-defined subclasses of date / datetime next to the plain types and
              mix-in Enums; exact-type conformance.
  TD_BASE     TypedDict declarations: one class body (total / total=False, Required / NotRequired markers) and inheritance from
              one or two bases of the same or the *other* totality, up to three levels; a key is required according to the body
              that declares it (model.td_fields, the documented rule) × position × documents (complete, required keys only,
              one / every required key omitted - inherited or own -, empty, extra key, junk value, no mapping) × both engines.
  INH_BASE    families of dataclasses related by inheritance (harness/inherit.py: a base class and 1-3 derived classes adding
              fields; JSONWizard hierarchy or plain dataclasses; both engines) used in one *history*: the classes are loaded in a
              random order with repeats — base before the first load of a derived class and the other way round — through
              fromdict / Cls.from_dict / fromlist / Cls.from_list / Cls.from_json, with well-typed documents of that class or of
              another member of the family, one position possibly replaced by junk.  Every step returns an instance of exactly the
              class asked for (every field of it, own and inherited, conforming) or raises; Python-object inputs are untouched.
  DFL_BASE    documents that *lean on declared defaults*, both engines: a well-typed document of a random class model is reduced —
              at NamedTuple positions (bare, in lists / dict values / tuples / Optional, inside nested classes and TypedDicts) trailing
              elements whose fields have defaults are cut off, defaulted dataclass keys and not-required TypedDict keys are dropped —
              and then possibly gets junk at one position.  What the library fills in for the caller must go into the *result*: a
              conforming instance (or an exception), the caller's dict and every list inside it exactly as they were.
  LIT_BASE    `Literal` positions, mostly on the v1 engine: member lists drawn from *families of equal values under different
              types* (False / 0 / 0.0, True / 1 / 1.0, 2 / 2.0, ..., 10**20 / 1e20) next to fractions, strings and None, so most lists
              mix member types and some hold two members that are == to each other; one or two Literal types per class (two fields,
              or both inside one tuple) × positions (field, Optional, list / set / variadic tuple element among members, fixed
              tuple, dict value, nested dataclass, list of nested) × inputs: a member exactly, a value == to a member that carries
              the type of *another* member, a value == to a member under a type no member has, a non-member of a member's type,
              junk (unhashable values, nan, numeric strings) × fromdict / Cls.from_dict / Cls.from_json (the JSON text decides
              between `1` and `1.0`).  A Literal position of the result holds a member by value *and* type, or the call raises.
  -O          a sample of the cases of *every* stream (historical junk / near-miss streams included; all of the v1 and TypedDict
              cases, about a third of the others) is loaded again in a child interpreter started with `-O` (assert statements
              compiled away, __debug__ False): harness/optchild.py rebuilds the classes from the class model and applies the
              same oracle there. The property is stated for every input, not for an interpreter setting.
The oracle is c05.conforms (exact types: `type(x) is T` for every leaf, subclass or not) + the input-mutation monitor.
"""
from __future__ import annotations

import copy
import datetime as dt
import json
import os
import random

from harness import gen, model
from harness.model import T
from harness.props.c01 import load_outcome

RULE = ('Enum families (plain, str / int mix-in, IntEnum, StrEnum) × 10 positions × falsy / near-member junk; the junk stream over an extended '
        'grammar (mix-in Enums, user-defined subclasses of date / datetime next to the plain types); Annotated[.., Pattern(fmt)] positions with '
        'Pattern objects shared between positions of different types; the junk stream on the v1 engine (composite fragment, subclasses, '
        'mix-in Enums); TypedDict declarations (one body or inherited from bases of the same / the other totality, Required / NotRequired '
        'markers; requiredness by the declaring body) × positions × documents omitting required / optional keys × both engines; families '
        'of dataclasses related by inheritance (base + 1-3 derived classes adding fields, JSONWizard hierarchy / plain dataclasses, both '
        'engines) loaded in a random order with repeats (base before derived and derived before base) through fromdict / from_dict / '
        'fromlist / from_list / from_json with documents of that class or of a relative, one position possibly junk: an instance of '
        'exactly the class asked for, conforming in every own and inherited field, or an exception; documents leaning on declared '
        'defaults (trailing defaulted NamedTuple elements cut off at any depth, defaulted dataclass keys and not-required TypedDict keys '
        'dropped, then possibly junk at one position) on both engines: conforming instance or exception, input untouched; Literal '
        'positions (v1 engine mostly) whose member lists mix types within families of equal values (False / 0 / 0.0, True / 1 / 1.0, '
        '2 / 2.0, 10**20 / 1e20, ...), one or two Literal types per class, × 11 positions × inputs that are a member, == to a member '
        'under the type of another member, == to a member under a foreign type, a non-member of a member type, junk × fromdict / '
        'from_dict / from_json: a member by value and type at every Literal position, or an exception; a sample of '
        'the cases of every stream loaded again under `python -O` with the same oracle applied in the child; conforms() is exact-type for '
        'every leaf.')

ENUM_BASE = 2_000_000
EXT_BASE = 3_000_000
PAT_BASE = 4_000_000
V1_BASE = 5_000_000
TD_BASE = 6_000_000
INH_BASE = 7_000_000
DFL_BASE = 8_000_000
LIT_BASE = 9_000_000

RUN_TAG = ''

# cases to be loaded again under `python -O`: [index, kind, case, ty, document]
OPT_CASES = []
OPT_RATE = {'junk:v1': 1.0, 'typeddict': 1.0, 'literal': 0.5}
OPT_RATE_DEFAULT = 0.35


def collect(ctx, kind, case, ty, doc):
    """remember an evaluated case for the `-O` stage; the decision is a function of (seed, case index), so a replay of the
    case takes the same one"""
    rate = OPT_RATE.get(kind, OPT_RATE_DEFAULT)
    if rate < 1.0 and random.Random(f'{ctx.prop_id}:{ctx.seed}:opt:{ctx.current}').random() >= rate:
        return
    try:
        text = json.dumps(doc)          # NaN / Infinity travel as the json module writes them
        json.dumps(ty)
    except (TypeError, ValueError):
        ctx.count('optimized:not_serialisable')
        return
    OPT_CASES.append([ctx.current, kind, case, ty, json.loads(text)])


def sub_rng(ctx, tag):
    return random.Random(f'{ctx.prop_id}:{ctx.seed}:{tag}')


def has_kind(t, kinds):
    if t['k'] in kinds:
        return True
    if t['k'] == 'cls':
        return any(has_kind(ft, kinds) for _, ft in t['ftys'])
    if t['k'] in ('namedtuple', 'typeddict'):
        return any(has_kind(f[1], kinds) for f in t['fields'])
    return any(has_kind(x, kinds) for x in t.get('a', []))


def one_field(ft, meta=None, wizard=False):
    return {'k': 'cls', 'info': {'name': model.fresh('C'), 'fields': [{'name': 'fld'}], 'wizard': wizard, 'meta': meta},
            'ftys': [['fld', ft]]}


def judge(ctx, c05, kind, case, ty, built, bad, engine, reqs, pend, model_ok=True):
    """load `bad` through the root class of `built`; conforming instance or an exception; input untouched"""
    from dataclass_wizard import fromdict
    before = copy.deepcopy(bad)
    collect(ctx, kind, case, ty, before)
    out = load_outcome(lambda: fromdict(built.root, bad))
    src = dict(src=built.source)
    if not c05.strict_eq(bad, before):
        ctx.fail('junk:input-mutated', case, f'fromdict changed its input: before {before!r}, after {bad!r}'[:1500], detail=src)
    if out[0] == 'ok':
        ctx.count('returned')
        try:
            okc = c05.conforms(out[1], ty, built)
        except Exception:
            okc = False
        if not okc:
            ctx.fail('junk:nonconforming', case, f'fromdict({bad!r}) returned a non-conforming object {out[1]!r}'[:1500],
                     key=c05._known(out[1], ty, built), detail=src)
    else:
        ctx.count('raised:' + type(out[1]).__name__)
    if model_ok and not has_kind(ty, ('sub', 'annpat')):
        st = model.StdTables()
        st.add_json(bad)
        try:
            reqs.append({'op': 'load' if engine == 'default' else 'loadv1', 'ty': model.enc_ty(ty), 'doc': model.enc_j(bad), 'std': st.build()})
            pend.append((kind, case, out, built, engine))
        except TypeError:
            ctx.count('not_encodable')
    return out


# --------------------------------------------------------------------------- Enum families

def enum_ty(rng):
    mixin = rng.choice([None, 'str', 'int', 'IntEnum', 'StrEnum', 'str', 'IntEnum'])
    n = rng.randint(1, 4)
    if mixin in ('int', 'IntEnum'):
        vals = rng.sample([1, 2, 3, 5, 7, 10, -1, 100], n)
    elif mixin in ('str', 'StrEnum'):
        vals = rng.sample(['red', 'blue', 'x y', 'M0', '2', 'None', 'a'], n)
    else:
        vals = rng.sample([2, 5, 'bee', 'x y', 8, 'red'], n)
    t = T('enum', name=model.fresh('E'), members=[[f'M{i}', v] for i, v in enumerate(vals)])
    if mixin:
        t['mixin'] = mixin
    return t


ENUM_JUNK = [None, '', 0, False, [], {}, 0.0, 'M0', 'm0', 'purple', 99, -1, 1.5, True, [1], ['red'], {'red': 1}, '1', '2.0', ' ', 'nan', '0',
             10 ** 30, float('nan')]


def enum_wrap(rng, et):
    ck = rng.choice(['bare', 'bare', 'optional', 'list', 'vtuple', 'tuple', 'dictval', 'dictkey', 'nested', 'list-nested'])
    strkey = all(isinstance(v, str) for _, v in et['members'])
    if ck == 'dictkey' and not strkey:
        ck = 'dictval'
    inner = lambda: {'k': 'cls', 'info': {'name': model.fresh('N'), 'fields': [{'name': 'inner_val'}], 'wizard': False, 'meta': None},
                     'ftys': [['inner_val', et]]}
    ty = {'bare': lambda: et, 'optional': lambda: T('optional', et), 'list': lambda: T('list', et), 'vtuple': lambda: T('vtuple', et),
          'tuple': lambda: T('tuple', T('str'), et), 'dictval': lambda: T('dict', T('str'), et), 'dictkey': lambda: T('dict', et, T('int')),
          'nested': inner, 'list-nested': lambda: T('list', inner())}[ck]()
    doc = {'bare': lambda v: v, 'optional': lambda v: v, 'list': lambda v: [v], 'vtuple': lambda v: [v], 'tuple': lambda v: ['s', v],
           'dictval': lambda v: {'k': v}, 'dictkey': lambda v: {v: 1}, 'nested': lambda v: {'inner_val': v},
           'list-nested': lambda v: [{'inner_val': v}]}[ck]
    return ck, ty, doc


def run_enum(ctx, c05, reqs, pend):
    rng = sub_rng(ctx, 'enum')
    n = ctx.quick(500, 6000)
    for j in range(n):
        i = ENUM_BASE + j
        if ctx.done(i):
            break
        et = enum_ty(rng)
        ck, ft, mk = enum_wrap(rng, et)
        if rng.random() < 0.2:
            v = rng.choice(et['members'])[1]
        else:
            v = rng.choice(ENUM_JUNK)
        if ck == 'dictkey' and not isinstance(v, str):
            v = str(v)
        v = copy.deepcopy(v)
        ty = one_field(ft)
        if not ctx.begin_case(i):
            continue
        built = model.Built(ty)
        try:
            bad = {'fld': mk(v)}
            case = {'ty': ty, 'doc': repr(bad), 'enum': et.get('mixin') or 'Enum', 'context': ck}
            ctx.seen('enum:' + (et.get('mixin') or 'Enum'), case)
            judge(ctx, c05, 'enum', case, ty, built, bad, 'default', reqs, pend, model_ok=not (isinstance(v, float) and v != v))
        finally:
            built.close()


# --------------------------------------------------------------------------- extended random stream (default engine)

def run_ext(ctx, c05, reqs, pend):
    rng = sub_rng(ctx, 'ext')
    n = ctx.quick(500, 8000)
    o = gen.Opts(meta_keys=['key_transform_with_load', 'raise_on_unknown_json_key'], leaves=gen.LEAVES_DEFAULT, meta_prob=0.2,
                 enum_prob=0.3, enum_mixin_prob=0.7, sub_leaf_prob=0.12, allow_tagged_union=False)
    random_stream(ctx, c05, rng, o, n, EXT_BASE, 'default', 'ext', reqs, pend)


def random_stream(ctx, c05, rng, o, n, base, engine, kind, reqs, pend, depths=(0, 1, 1, 2, 2, 3)):
    for j in range(n):
        i = base + j
        if ctx.done(i):
            break
        ty = gen.gen_cls(rng, rng.choice(depths), o)
        if engine == 'v1':
            ty['info']['wizard'] = True
            ty['info']['meta'] = {'v1': True}
        try:
            built = model.Built(ty)
        except Exception as e:
            ctx.count('build_error')
            ctx.notes.setdefault('build_errors', []).append(repr(e)[:200])
            continue
        try:
            x = gen.gen_instance(rng, ty, built)
            try:
                doc = json.loads(json.dumps(c05.plain_doc(x, ty, built)))
            except Exception as e:
                ctx.count('doc_error')
                ctx.notes.setdefault('doc_errors', []).append(repr(e)[:200])
                continue
            pos = list(c05.positions(doc))
            path = rng.choice(pos) if rng.random() < 0.9 else ()
            jv = gen.junk(rng)
            if rng.random() < 0.3:
                bad, path, jv = copy.deepcopy(doc), None, None          # a control: the well-typed document
            else:
                bad = c05.replace_at(doc, path, copy.deepcopy(jv))
            if not ctx.begin_case(i):
                continue
            case = {'engine': engine, 'ty': ty, 'doc': repr(bad)[:600], 'path': repr(path), 'junk': repr(jv)}
            ctx.seen(kind, case)
            judge(ctx, c05, kind, case, ty, built, bad, engine, reqs, pend)
        finally:
            built.close()


# --------------------------------------------------------------------------- patterned positions

FMTS = ['%m/%d/%Y', '%d.%m.%Y', '%Y/%m/%d %H:%M', '%m/%d/%Y %H.%M.%S', '%H-%M', '%Hh%Mm%S', '%B %d, %Y', '%d %b %y %I.%M %p']
DT = ('date', 'time', 'datetime')


def pat_field(rng, consts):
    """(type, document builder): a patterned position"""
    a, b = rng.choice(DT), rng.choice(DT)
    shape = rng.choice(['bare', 'bare', 'optional', 'list', 'vtuple', 'dictval', 'dict', 'pair'])
    inner = {'bare': T(a), 'optional': T('optional', T(a)), 'list': T('list', T(a)), 'vtuple': T('vtuple', T(a)),
             'dictval': T('dict', T('str'), T(a)), 'dict': T('dict', T(a), T(b)), 'pair': T('tuple', T(a), T(b))}[shape]
    if consts and rng.random() < 0.65:
        name, fmt = rng.choice(consts)
    else:
        name, fmt = None, rng.choice(FMTS)
    mk = {'bare': lambda s: s, 'optional': lambda s: s, 'list': lambda s: [s, s], 'vtuple': lambda s: [s], 'dictval': lambda s: {'k': s},
          'dict': lambda s: {s: s}, 'pair': lambda s: [s, s]}[shape]
    return T('annpat', inner, fmt=fmt, const=name), fmt, mk, shape


def run_patterned(ctx, c05, reqs, pend):
    rng = sub_rng(ctx, 'pat')
    n = ctx.quick(250, 4000)
    for j in range(n):
        i = PAT_BASE + j
        if ctx.done(i):
            break
        consts = [(f'PAT_{model.fresh("p")}', rng.choice(FMTS)) for _ in range(rng.randint(0, 2))]
        fields, doc = [], {}
        moment = dt.datetime(rng.choice([1999, 2021, 2024]), rng.randint(1, 12), rng.randint(1, 28), rng.randint(0, 23), rng.randint(0, 59), rng.randint(0, 59))
        for f in range(rng.randint(1, 4)):
            if rng.random() < 0.2:
                a = rng.choice(DT)
                fields.append((f'f{f}', T(a)))
                doc[f'f{f}'] = {'date': moment.date(), 'time': moment.time(), 'datetime': moment}[a].isoformat()
                continue
            ft, fmt, mk, shape = pat_field(rng, consts)
            fields.append((f'f{f}', ft))
            r = rng.random()
            s = moment.strftime(fmt) if r < 0.75 else moment.isoformat() if r < 0.85 else gen.junk(rng)
            if shape == 'dict' and not isinstance(s, str):
                s = 'x'          # a JSON object key is text
            doc[f'f{f}'] = mk(copy.deepcopy(s))
        ty = {'k': 'cls', 'info': {'name': model.fresh('C'), 'fields': [{'name': nme} for nme, _ in fields], 'wizard': rng.random() < 0.5, 'meta': None},
              'ftys': [[nme, t] for nme, t in fields]}
        if not ctx.begin_case(i):
            continue
        built = model.Built(ty)
        try:
            case = {'ty': ty, 'doc': repr(doc)}
            ctx.seen('patterned', case)
            judge(ctx, c05, 'patterned', case, ty, built, doc, 'default', reqs, pend, model_ok=False)
        finally:
            built.close()


# --------------------------------------------------------------------------- v1 engine

def run_v1(ctx, c05, reqs, pend):
    rng = sub_rng(ctx, 'v1')
    n = ctx.quick(500, 8000)
    o = gen.Opts(meta_keys=[], leaves=gen.LEAVES_DEFAULT, meta_prob=0.0, py_wizard_prob=0.0, wizard_prob=0.5,
                 allow_union=False, allow_literal=False, allow_tagged_union=False,
                 enum_prob=0.15, enum_mixin_prob=0.5, sub_leaf_prob=0.2)
    random_stream(ctx, c05, rng, o, n, V1_BASE, 'v1', 'junk:v1', reqs, pend, depths=(0, 0, 1, 1, 2))


# --------------------------------------------------------------------------- TypedDict declarations

TD_KEYS = ['id', 'kind', 'text', 'tags', 'size', 'when', 'note', 'flag', 'ratio', 'label']
TD_LEAVES = [(lambda: T('int'), [1, 0, '7']), (lambda: T('str'), ['hi', '']), (lambda: T('float'), [2.5, 1]), (lambda: T('bool'), [True, False]),
             (lambda: T('list', T('str')), [['a'], []]), (lambda: T('optional', T('int')), [None, 3]), (lambda: T('date'), ['2021-03-04']),
             (lambda: T('dict', T('str'), T('int')), [{'a': 1}, {}])]


def td_body(rng, names, total, bases=()):
    own = []
    for n in names:
        mk_ty, _vals = rng.choice(TD_LEAVES)
        own.append([n, mk_ty(), rng.choice([None, None, None, 'req', 'notreq'])])
    t = T('typeddict', name=model.fresh('TD'), own=own, total=total, bases=list(bases))
    t['fields'] = model.td_fields(t)
    return t


def td_decl(rng):
    """(shape name, TypedDict node in declaration form)"""
    names = rng.sample(TD_KEYS, len(TD_KEYS))
    take = lambda lo, hi: [names.pop() for _ in range(rng.randint(lo, hi))]
    shape = rng.choice(['single', 'child-other', 'child-other', 'child-other', 'child-same', 'two-bases', 'grandchild'])
    total = rng.random() < 0.5
    if shape == 'single':
        return shape, td_body(rng, take(1, 4), total)
    if shape in ('child-other', 'child-same'):
        base = td_body(rng, take(1, 3), total)
        return shape, td_body(rng, take(0, 2), (not total) if shape == 'child-other' else total, [base])
    if shape == 'two-bases':
        b1, b2 = td_body(rng, take(1, 2), total), td_body(rng, take(1, 2), not total)
        return shape, td_body(rng, take(0, 2), rng.random() < 0.5, [b1, b2])
    g = td_body(rng, take(1, 2), total)
    m = td_body(rng, take(1, 2), not total, [g])
    return shape, td_body(rng, take(0, 2), rng.random() < 0.5, [m])


def td_value(rng, ft):
    for mk_ty, vals in TD_LEAVES:
        if mk_ty() == {k_: v for k_, v in ft.items() if k_ != 'falsy'}:
            return copy.deepcopy(rng.choice(vals))
    raise ValueError(ft)


TD_POS = [('field', lambda u: u, lambda v: v), ('list', lambda u: T('list', u), lambda v: [v]),
          ('list2', lambda u: T('list', u), lambda v: [v, copy.deepcopy(v)]), ('dictval', lambda u: T('dict', T('str'), u), lambda v: {'k': v}),
          ('optional', lambda u: T('optional', u), lambda v: v), ('tuple', lambda u: T('tuple', T('int'), u), lambda v: [1, v])]


def run_typeddict(ctx, c05, reqs, pend):
    rng = sub_rng(ctx, 'typeddict')
    n = ctx.quick(400, 5000)
    for j in range(n):
        i = TD_BASE + j
        if ctx.done(i):
            break
        shape, td = td_decl(rng)
        pos, wrap, mk = rng.choice(TD_POS)
        engine = rng.choice(['default', 'v1'])
        nested = rng.random() < 0.25
        fields = td['fields']
        required = [f for f in fields if f[2]]
        optional = [f for f in fields if not f[2]]
        full = {f[0]: td_value(rng, f[1]) for f in fields}
        mode = rng.choice(['complete', 'required-only', 'omit-required', 'omit-required', 'omit-required', 'optional-only', 'empty',
                           'extra-key', 'junk-value', 'no-mapping', 'some-optional'])
        if mode in ('omit-required', 'optional-only') and not required:
            mode = 'some-optional'
        if mode == 'complete':
            val = full
        elif mode == 'required-only':
            val = {k_: v for k_, v in full.items() if any(k_ == f[0] for f in required)}
        elif mode == 'omit-required':
            gone = rng.choice(required)[0]
            val = {k_: v for k_, v in full.items() if k_ != gone and (any(k_ == f[0] for f in required) or rng.random() < 0.6)}
        elif mode == 'optional-only':
            val = {k_: v for k_, v in full.items() if any(k_ == f[0] for f in optional)}
        elif mode == 'empty':
            val = {}
        elif mode == 'extra-key':
            val = dict(full, **{rng.choice(['extra', 'ID', 'Kind', 'total']): rng.choice([1, 'x', None])})
        elif mode == 'junk-value':
            val = dict(full)
            val[rng.choice(fields)[0]] = copy.deepcopy(gen.junk(rng))
        elif mode == 'no-mapping':
            val = copy.deepcopy(rng.choice([None, [], 'id', 5, [['id', 1]], sorted(full)]))
        else:
            val = {k_: v for k_, v in full.items() if any(k_ == f[0] for f in required) or rng.random() < 0.5}
        ft = wrap(td)
        inner_doc = mk(val)
        if nested:
            ft = {'k': 'cls', 'info': {'name': model.fresh('N'), 'fields': [{'name': 'inner_val'}], 'wizard': False, 'meta': None},
                  'ftys': [['inner_val', ft]]}
            inner_doc = {'inner_val': inner_doc}
        ty = one_field(ft, meta={'v1': True} if engine == 'v1' else None, wizard=(engine == 'v1') or rng.random() < 0.5)
        if not ctx.begin_case(i):
            continue
        built = model.Built(ty)
        try:
            # the reference's key classification against CPython's own bookkeeping of the same declaration (harness self-check)
            TD = built.get(td['name'])
            if (set(TD.__required_keys__), set(TD.__optional_keys__)) != ({f[0] for f in required}, {f[0] for f in optional}):
                ctx.notes.setdefault('td_reference_mismatch', []).append([td['name'], built.source[-600:]])
                ctx.fail('typeddict:reference', {'ty': ty}, 'model.td_fields disagrees with __required_keys__ / __optional_keys__ (harness)',
                         detail=dict(src=built.source))
                continue
            bad = {'fld': inner_doc}
            case = {'engine': engine, 'ty': ty, 'doc': repr(bad)[:600], 'shape': shape, 'position': pos, 'mode': mode}
            ctx.seen('typeddict:' + shape, case)
            jv = json.dumps(bad, default=repr)
            judge(ctx, c05, 'typeddict', case, ty, built, bad, engine, reqs, pend, model_ok='NaN' not in jv and 'Infinity' not in jv)
        finally:
            built.close()


# --------------------------------------------------------------------------- documents leaning on declared defaults

def reduce_doc(rng, doc, t, stats):
    """`doc` (a well-typed JSON document of type `t`) with parts left to the declared defaults: trailing defaulted NamedTuple
    elements, defaulted dataclass keys, not-required TypedDict keys.  Still a valid document of `t`."""
    k = t['k']
    a = t.get('a', [])
    if k == 'cls' and isinstance(doc, dict):
        ftys = dict((n, ft) for n, ft in t['ftys'])
        out = {}
        for f in t['info']['fields']:
            n = f['name']
            if n not in doc:
                continue
            if f.get('dflt') is not None and rng.random() < 0.25:
                stats['key'] = stats.get('key', 0) + 1
                continue
            out[n] = reduce_doc(rng, doc[n], ftys[n], stats)
        for kk, v in doc.items():          # a tag key and the like
            if kk not in ftys:
                out[kk] = v
        return out
    if k == 'namedtuple' and isinstance(doc, list):
        fields = t['fields']
        req = sum(1 for _n, _ft, d in fields if d is None)
        vals = [reduce_doc(rng, v, ft, stats) for v, (_n, ft, _d) in zip(doc, fields)]
        if req < len(vals) and rng.random() < 0.75:
            vals = vals[:rng.randint(req, len(vals) - 1)]
            stats['nt'] = stats.get('nt', 0) + 1
        return vals
    if k == 'typeddict' and isinstance(doc, dict):
        spec = {n: (ft, r) for n, ft, r in t['fields']}
        out = {}
        for kk, v in doc.items():
            if kk in spec and not spec[kk][1] and rng.random() < 0.3:
                stats['td'] = stats.get('td', 0) + 1
                continue
            out[kk] = reduce_doc(rng, v, spec[kk][0], stats) if kk in spec else v
        return out
    if k in ('list', 'set', 'frozenset', 'deque', 'vtuple') and isinstance(doc, list):
        return [reduce_doc(rng, v, a[0], stats) for v in doc]
    if k == 'tuple' and isinstance(doc, list) and len(doc) == len(a):
        return [reduce_doc(rng, v, m, stats) for v, m in zip(doc, a)]
    if k in ('dict', 'defaultdict', 'ordereddict') and isinstance(doc, dict):
        return {kk: reduce_doc(rng, v, a[1], stats) for kk, v in doc.items()}
    if k == 'optional' and doc is not None:
        return reduce_doc(rng, doc, a[0], stats)
    if k == 'annpat':
        return reduce_doc(rng, doc, a[0], stats)
    return doc


def run_defaults(ctx, c05, reqs, pend):
    rng = sub_rng(ctx, 'defaults')
    n = ctx.quick(500, 8000)
    common = dict(meta_keys=[], meta_prob=0.0, leaves=gen.LEAVES_DEFAULT, allow_tagged_union=False, nt_weight=5, nt_default_prob=0.6,
                  defaults_prob=0.5, containers=['list', 'deque', 'tuple', 'vtuple', 'dict', 'defaultdict'])
    o_default = gen.Opts(**common)
    o_v1 = gen.Opts(py_wizard_prob=0.0, wizard_prob=0.5, allow_union=False, allow_literal=False, **common)
    for j in range(n):
        i = DFL_BASE + j
        if ctx.done(i):
            break
        engine = rng.choice(['default', 'v1'])
        ty = gen.gen_cls(rng, rng.choice([1, 1, 2, 2, 3]), o_v1 if engine == 'v1' else o_default)
        if engine == 'v1':
            ty['info']['wizard'] = True
            ty['info']['meta'] = {'v1': True}
        try:
            built = model.Built(ty)
        except Exception as e:
            ctx.count('build_error')
            ctx.notes.setdefault('build_errors', []).append(repr(e)[:200])
            continue
        try:
            x = gen.gen_instance(rng, ty, built, use_defaults_prob=0.0)
            try:
                full = json.loads(json.dumps(c05.plain_doc(x, ty, built)))
            except Exception as e:
                ctx.count('doc_error')
                ctx.notes.setdefault('doc_errors', []).append(repr(e)[:200])
                continue
            stats = {}
            doc = reduce_doc(rng, full, ty, stats)
            if rng.random() < 0.25:
                path, jv = rng.choice(list(c05.positions(doc))), gen.junk(rng)
                bad = c05.replace_at(doc, path, copy.deepcopy(jv))
            else:
                bad, path, jv = doc, None, None
            if not ctx.begin_case(i):
                continue
            case = {'engine': engine, 'ty': ty, 'doc': repr(bad)[:600], 'left_to_defaults': stats, 'path': repr(path), 'junk': repr(jv)}
            ctx.seen('defaults', case, nontrivial=bool(stats))
            for w in stats:
                ctx.count('defaults:' + w + ':' + engine)
            out = judge(ctx, c05, 'defaults', case, ty, built, bad, engine, reqs, pend)
            if out[0] == 'ok' and path is None:
                ctx.count('defaults:loaded:' + engine)
        finally:
            built.close()


# --------------------------------------------------------------------------- families related by inheritance, call histories

INH_APIS = ['fromdict', 'fromdict', 'from_dict', 'from_dict', 'fromlist', 'from_list', 'from_json']


def inh_load(api, Cls, doc):
    """-> (callable, the Python object handed to the library or None, result is a list)"""
    import dataclass_wizard as dw
    if api == 'fromdict':
        return (lambda: dw.fromdict(Cls, doc)), doc, False
    if api == 'from_dict':
        return (lambda: Cls.from_dict(doc)), doc, False
    if api in ('fromlist', 'from_list'):
        docs = [doc, copy.deepcopy(doc)]
        return ((lambda: dw.fromlist(Cls, docs)) if api == 'fromlist' else (lambda: Cls.from_list(docs))), docs, True
    text = json.dumps(doc)
    return (lambda: Cls.from_json(text)), None, False


def run_inherit(ctx, c05, reqs, pend):
    from harness import inherit
    rng = sub_rng(ctx, 'inherit')
    n = ctx.quick(220, 3000)
    o_default = gen.Opts(meta_keys=[], leaves=gen.LEAVES_DEFAULT, meta_prob=0.0, wizard_prob=0.0, py_wizard_prob=0.0, max_fields=3,
                         allow_tagged_union=False, enum_prob=0.15, enum_mixin_prob=0.5)
    o_v1 = gen.Opts(meta_keys=[], leaves=gen.LEAVES_DEFAULT, meta_prob=0.0, wizard_prob=0.0, py_wizard_prob=0.0, max_fields=3,
                    allow_union=False, allow_literal=False, allow_tagged_union=False, enum_prob=0.15, enum_mixin_prob=0.5)
    for j in range(n):
        i = INH_BASE + j
        if ctx.done(i):
            break
        engine = rng.choice(['default', 'v1', 'v1'])
        o = o_v1 if engine == 'v1' else o_default
        chain, style = inherit.family(rng, lambda: gen.gen_cls(rng, rng.choice([0, 0, 1, 1, 2]), o), {'v1': True} if engine == 'v1' else None)
        steps = inherit.history(rng, chain)
        hold = inherit.holder(chain)
        try:
            built = model.Built(hold)
        except Exception as e:
            ctx.count('build_error')
            ctx.notes.setdefault('build_errors', []).append(repr(e)[:200])
            continue
        try:
            plan = []
            for k in steps:
                # the document: of the class asked for, or of another member of the family (a relative's document holds more /
                # fewer keys than the class has fields: unknown keys, absent keys)
                src_k = k if rng.random() < 0.75 else rng.randrange(len(chain))
                try:
                    x = gen.gen_instance(rng, chain[src_k], built)
                    doc = json.loads(json.dumps(c05.plain_doc(x, chain[src_k], built)))
                except Exception as e:
                    ctx.count('doc_error')
                    ctx.notes.setdefault('doc_errors', []).append(repr(e)[:200])
                    doc = {}
                if rng.random() < 0.45:
                    path, jv = rng.choice(list(c05.positions(doc))), gen.junk(rng)
                    doc = c05.replace_at(doc, path, copy.deepcopy(jv))
                else:
                    path, jv = None, None
                api = rng.choice(INH_APIS)
                plan.append((k, src_k, doc, path, jv, api))
            if not ctx.begin_case(i):
                continue
            base, order = inherit.describe(chain, steps)
            base = dict(base, engine=engine, style=style)
            ctx.seen('inherit-history', dict(base, tys=chain, docs=[repr(p[2])[:200] for p in plan]))
            ctx.count('inherit-history:' + order)
            src = dict(src=built.source)
            for step, (k, src_k, doc, path, jv, api) in enumerate(plan):
                ty = chain[k]
                Cls = built.get(ty['info']['name'])
                if api in ('from_dict', 'from_list', 'from_json') and not hasattr(Cls, api):
                    api = 'fromdict' if api != 'from_list' else 'fromlist'
                if not isinstance(doc, dict) and api == 'from_json':
                    api = 'fromdict'
                case = dict(base, step=step, cls=ty['info']['name'], api=api, doc_of=chain[src_k]['info']['name'], ty=ty,
                            doc=repr(doc)[:600], path=repr(path), junk=repr(jv))
                ctx.seen('inherit', [case['cls'], api, case['doc']], nontrivial=False)
                call, handed, many = inh_load(api, Cls, doc)
                before = copy.deepcopy(handed)
                out = load_outcome(call)
                pre = f'step {step} of {base["steps"]} ({engine}, {style}, derives_from {base["derives_from"]}): {api} on {case["cls"]}'
                if handed is not None and not c05.strict_eq(handed, before):
                    ctx.fail('junk:input-mutated', case, f'{pre} changed its input: before {before!r}, after {handed!r}'[:1500], detail=src)
                if out[0] == 'ok':
                    ctx.count('returned')
                    ys = out[1] if many else [out[1]]
                    if many and (type(out[1]) is not list or len(ys) != 2):
                        ctx.fail('inherit:nonconforming', case, f'{pre}: a list of 2 documents gave {out[1]!r}'[:1500], detail=src)
                        continue
                    for y in ys:
                        try:
                            okc = c05.conforms(y, ty, built)
                        except Exception:
                            okc = False
                        if not okc:
                            what = f'{pre}({doc!r}) returned a non-conforming object {y!r}'
                            if type(y) is not Cls:
                                what = f'{pre}({doc!r}) returned an instance of {type(y).__name__}, not of {case["cls"]}: {y!r}'
                            ctx.fail('inherit:nonconforming', case, what[:1500], key=c05._known(y, ty, built) if type(y) is Cls else None, detail=src)
                            break
                else:
                    ctx.count('raised:' + type(out[1]).__name__)
                if not many and api != 'from_json' and not has_kind(ty, ('sub', 'annpat')):
                    st = model.StdTables()
                    st.add_json(doc)
                    try:
                        reqs.append({'op': 'load' if engine == 'default' else 'loadv1', 'ty': model.enc_ty(ty), 'doc': model.enc_j(doc), 'std': st.build()})
                        pend.append(('inherit', case, out, built, engine))
                    except TypeError:
                        ctx.count('not_encodable')
        finally:
            built.close()


# --------------------------------------------------------------------------- Literal positions: member lists that mix types

# families of values that are == (and hash alike) under different JSON types
LIT_FAMILIES = [[False, 0, 0.0], [True, 1, 1.0], [2, 2.0], [3, 3.0], [4, 4.0], [-1, -1.0], [7, 7.0], [12, 12.0], [10 ** 20, 1e20],
                [0.5], [0.25], [2.5], [-7.5]]
LIT_TEXT = ['auto', 'on', '', '1', 'True', 'x y', '0.5', 'inherit']
LIT_JUNK = [[], {}, [1], [True], {'a': 1}, None, float('nan'), float('inf'), -0.0, '1', '1.0', 'True', 'AUTO', ' ', 10 ** 30, -2, 0.1]
LIT_APIS = ['fromdict', 'fromdict', 'from_dict', 'from_dict', 'from_json']


def typed_eq(v, w):
    return type(v) is type(w) and v == w


def lit_members(rng):
    """a member list as `typing.Literal` keeps it (duplicates by value *and* type dropped)"""
    r = rng.random()
    nums = [v for fam in LIT_FAMILIES for v in fam]
    if r < 0.55:
        pool = nums
    elif r < 0.9:
        pool = nums + LIT_TEXT + [None]
    else:
        one = rng.choice([bool, int, float, str])          # the control: one member type only
        pool = [v for v in nums + LIT_TEXT if type(v) is one]
    vs = []
    for v in rng.sample(pool, min(len(pool), rng.randint(1, 5))):
        if not any(typed_eq(v, w) for w in vs):
            vs.append(v)
    if r < 0.9 and rng.random() < 0.35:
        # two members that are == to each other under different types
        fam = rng.choice([f for f in LIT_FAMILIES if len(f) > 1])
        for v in rng.sample(fam, 2):
            if not any(typed_eq(v, w) for w in vs):
                vs.insert(rng.randint(0, len(vs)), v)
    return vs


def lit_twins(v):
    """the values == to `v` under the other JSON types"""
    if isinstance(v, (bool, int, float)) and v == v and abs(v) != float('inf'):
        out = []
        if v in (0, 1):
            out.append(bool(v))
        if v == int(v):
            out.append(int(v))
        out.append(float(v))
        return [w for w in out if type(w) is not type(v) and w == v]
    return []


def lit_input(rng, vs):
    """-> (kind of input, value)"""
    is_member = lambda w: any(typed_eq(w, m) for m in vs)
    twins = [w for m in vs for w in lit_twins(m) if not is_member(w)]
    typed = [w for w in twins if any(type(w) is type(m) for m in vs)]
    kind = rng.choice(['member', 'twin-typed', 'twin-typed', 'twin-typed', 'twin', 'twin', 'non-member', 'junk'])
    if kind == 'twin-typed' and not typed:
        kind = 'twin'
    if kind == 'twin' and not twins:
        kind = 'non-member'
    if kind == 'member':
        return kind, rng.choice(vs)
    if kind == 'twin-typed':
        return kind, rng.choice(typed)
    if kind == 'twin':
        return kind, rng.choice(twins)
    if kind == 'non-member':
        cands = [w for fam in LIT_FAMILIES for w in fam if any(type(w) is type(m) for m in vs) and not any(w == m for m in vs)]
        cands += [w for w in LIT_TEXT if any(type(m) is str for m in vs) and w not in vs]
        if cands:
            return kind, rng.choice(cands)
        kind = 'junk'
    return kind, copy.deepcopy(rng.choice(LIT_JUNK) if rng.random() < 0.7 else gen.junk(rng))


def lit_twin_members(vs):
    return any(a == b and type(a) is not type(b) for a in vs for b in vs)


def lit_collide(vs, ws):
    """the recorded shape `v1-literal-helper-shared-by-equal-args` (findings/v1-literal-helper-shared-by-equal-args.py): two
    Literal types of one class whose member tuples are == position by position without being the same members"""
    return len(vs) == len(ws) and all(a == b for a, b in zip(vs, ws)) and not all(typed_eq(a, b) for a, b in zip(vs, ws))


LIT_POS = ['field', 'field', 'optional', 'list', 'set', 'vtuple', 'tuple', 'tuple2', 'dictval', 'nested', 'list-nested', 'two-fields']


def run_literal(ctx, c05, reqs, pend):
    import dataclass_wizard as dw
    rng = sub_rng(ctx, 'literal')
    n = ctx.quick(600, 9000)
    for j in range(n):
        i = LIT_BASE + j
        if ctx.done(i):
            break
        engine = rng.choice(['v1', 'v1', 'v1', 'default'])
        vs = lit_members(rng)
        lt = T('literal', vs=vs)
        pos = rng.choice(LIT_POS)
        kind, v = lit_input(rng, vs)
        others = [copy.deepcopy(rng.choice(vs)) for _ in range(rng.randint(0, 2))]
        at = rng.randint(0, len(others))
        row = others[:at] + [v] + others[at:]
        other_field = None
        all_members = [vs]
        if pos in ('tuple2', 'two-fields'):
            ws = lit_members(rng)
            while lit_collide(vs, ws):          # kept out of the stream: recorded, observed by its directed reproduction
                ws = lit_members(rng)
            lt2 = T('literal', vs=ws)
            all_members.append(ws)
            kind2, w = lit_input(rng, ws)
            if rng.random() < 0.5:
                kind2, w = 'member', rng.choice(ws)
            kind = kind + '+' + kind2
        inner = lambda: {'k': 'cls', 'info': {'name': model.fresh('N'), 'fields': [{'name': 'inner_val'}], 'wizard': False, 'meta': None},
                         'ftys': [['inner_val', lt]]}
        if pos == 'field':
            ft, doc = lt, v
        elif pos == 'optional':
            ft, doc = T('optional', lt), v
        elif pos in ('list', 'set', 'vtuple'):
            ft, doc = T(pos, lt), row
        elif pos == 'tuple':
            ft, doc = T('tuple', T('str'), lt), ['s', v]
        elif pos == 'tuple2':
            ft, doc = T('tuple', lt, lt2), [v, w]
        elif pos == 'dictval':
            ft, doc = T('dict', T('str'), lt), {f'k{q}': e for q, e in enumerate(row)}
        elif pos == 'nested':
            ft, doc = inner(), {'inner_val': v}
        elif pos == 'list-nested':
            ft, doc = T('list', inner()), [{'inner_val': e} for e in row]
        else:
            ft, doc, other_field = lt, v, (lt2, w)
        wizard = engine == 'v1' or rng.random() < 0.5
        ty = one_field(ft, meta={'v1': True} if engine == 'v1' else None, wizard=wizard)
        bad = {'fld': doc}
        if other_field:
            ty['info']['fields'].append({'name': 'other'})
            ty['ftys'].append(['other', other_field[0]])
            bad['other'] = other_field[1]
        bad = copy.deepcopy(bad)
        api = rng.choice(LIT_APIS)
        if not wizard:
            api = 'fromdict'
        if api == 'from_json':
            try:
                text = json.dumps(bad)
                if not c05.strict_eq(json.loads(text), bad):
                    api = 'from_dict'
            except (TypeError, ValueError):
                api = 'from_dict'
        if not ctx.begin_case(i):
            continue
        built = model.Built(ty)
        try:
            types = {type(m).__name__ for m in vs}
            case = {'engine': engine, 'ty': ty, 'doc': repr(bad), 'api': api, 'position': pos, 'input': kind, 'members': repr(vs)}
            ctx.seen('literal:' + engine, case)
            ctx.count('literal:input:' + kind.split('+')[0])
            ctx.count('literal:member-types:' + ('mixed' if len(types) > 1 else 'one'))
            Cls = built.root
            before = copy.deepcopy(bad)
            collect(ctx, 'literal', case, ty, before)
            if api == 'fromdict':
                out = load_outcome(lambda: dw.fromdict(Cls, bad))
            elif api == 'from_dict':
                out = load_outcome(lambda: Cls.from_dict(bad))
            else:
                out = load_outcome(lambda: Cls.from_json(text))
            src = dict(src=built.source)
            if not c05.strict_eq(bad, before):
                ctx.fail('junk:input-mutated', case, f'{api} changed its input: before {before!r}, after {bad!r}'[:1500], detail=src)
            if out[0] == 'ok':
                ctx.count('returned')
                ctx.count('literal:returned:' + kind.split('+')[0])
                try:
                    okc = c05.conforms(out[1], ty, built)
                except Exception:
                    okc = False
                if not okc:
                    ctx.fail('literal:nonconforming', case, f'{engine} engine, {api}({bad!r}) returned {out[1]!r}: a Literal position '
                             f'holds a value that is no member by value and type (members {vs!r}; input kind {kind})'[:1500],
                             key=c05._known(out[1], ty, built), detail=src)
            else:
                ctx.count('raised:' + type(out[1]).__name__)
                if kind == 'member' and pos != 'set':
                    # a member itself is a value of the annotation: rejecting it is not what C05 speaks about, but it tells that the
                    # stream (or the library) is off: count it, visible in the evidence
                    ctx.count('literal:member-rejected')
            jv = json.dumps(bad, default=repr)
            if engine == 'default' and any(lit_twin_members(m) for m in all_members):
                # LiteralParser keeps {member: type(member)}: of two members that are == the *later* one's type is demanded and the
                # earlier member itself is rejected (an exception: nothing C05 forbids); DW.Model.Load.asLiteral describes member
                # lists without such pairs (the lists of the C01 grammar), so only the oracle above speaks here
                ctx.count('literal:model-skipped:default-engine-equal-members')
            elif 'NaN' not in jv and 'Infinity' not in jv:
                st = model.StdTables()
                st.add_json(bad)
                try:
                    reqs.append({'op': 'load' if engine == 'default' else 'loadv1', 'ty': model.enc_ty(ty), 'doc': model.enc_j(bad), 'std': st.build()})
                    pend.append(('literal', case, out, built, engine))
                except TypeError:
                    ctx.count('not_encodable')
        finally:
            built.close()


# --------------------------------------------------------------------------- the same cases under `python -O`

def run_optimized(ctx, c05, flags=('-O',), min_optimize=1):
    """load the collected cases again in a child interpreter started with `flags`; same oracle, applied in the child"""
    import subprocess
    from harness import common as C
    cases, OPT_CASES[:] = list(OPT_CASES), []
    if not cases:
        return
    payload = json.dumps({'min_optimize': min_optimize, 'cases': [{'i': i, 'ty': ty, 'doc': doc} for i, _k, _c, ty, doc in cases]})
    env = dict(os.environ, VERIF_REPO=str(C.REPO))
    env.pop('PYTHONOPTIMIZE', None)
    p = subprocess.run(['/venv/bin/python', *flags, '-m', 'harness.optchild'], input=payload.encode(), capture_output=True,
                       cwd=str(C.VERIF), env=env, timeout=900)
    lines = [json.loads(ln) for ln in p.stdout.decode('utf-8', 'replace').splitlines() if ln.startswith('{')]
    if p.returncode != 0 or not lines or 'done' not in lines[-1] or lines[-1].get('optimize', 0) < min_optimize:
        raise RuntimeError(f'harness.optchild ({" ".join(flags)}) exited {p.returncode}: {p.stderr.decode("utf-8", "replace")[-1500:]}')
    by_index = {}
    for r in lines[:-1]:
        by_index.setdefault(r['i'], []).append(r)
    for i, kind, case, ty, doc in cases:
        rs = by_index.get(i)
        if not rs:
            raise RuntimeError(f'harness.optchild: no result for case {i}')
        r = rs.pop(0)
        ctx.current = i
        ocase = dict(case, interpreter='python ' + ' '.join(flags))
        ctx.seen('optimized:' + kind, ocase)
        if 'build_error' in r:
            ctx.count('optimized:build_error')
            ctx.notes.setdefault('optimized_build_errors', []).append(r['build_error'])
            continue
        if 'mutated' in r:
            ctx.fail('junk:input-mutated', ocase, f'under python {" ".join(flags)}: fromdict changed its input: before {r["mutated"][0]}, '
                     f'after {r["mutated"][1]}'[:1500])
        if r.get('returned'):
            ctx.count('optimized:returned')
            if not r['conforms']:
                ctx.fail('junk:nonconforming', ocase, f'under python {" ".join(flags)}: fromdict({doc!r}) returned a non-conforming object '
                         f'{r["repr"]}'[:1500], key=r.get('key'))
        else:
            ctx.count('optimized:raised')


def run(ctx, c05):
    from harness.props import c01, c02
    reqs, pend = [], []
    run_enum(ctx, c05, reqs, pend)
    run_ext(ctx, c05, reqs, pend)
    run_patterned(ctx, c05, reqs, pend)
    run_v1(ctx, c05, reqs, pend)
    run_typeddict(ctx, c05, reqs, pend)
    run_inherit(ctx, c05, reqs, pend)
    run_defaults(ctx, c05, reqs, pend)
    run_literal(ctx, c05, reqs, pend)
    run_optimized(ctx, c05)
    if ctx.model_available:
        outs = ctx.driver.run(reqs)
        for (kind, case, out, built, engine), o_ in zip(pend, outs):
            (c01 if engine == 'default' else c02).compare_load(ctx, kind, case, out, o_, built)
