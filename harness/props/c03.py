"""C03 — dump emits the documented wire encoding, JSON-safe, fresh and side-effect free."""
from __future__ import annotations

import contextlib
import copy
import datetime as dt
import json
import keyword
import os
import random
import time

from harness import common as C
from harness import failfirst, gen, model, ref
from harness.nestfirst import effective_table
from harness.model import T

OPTS = dict(meta_keys=['key_transform_with_dump', 'marshal_date_time_as', 'skip_defaults', 'recursive'],
            leaves=gen.LEAVES_DEFAULT + ['bytes', 'bytearray', 'none'])


def make_case(rng, i):
    o = gen.Opts(**OPTS)
    ty = gen.gen_cls(rng, rng.choice([0, 1, 2, 2, 3]), o)
    return ty


# --------------------------------------------------------------------------- local time zone (a process setting)
# marshal_date_time_as = TIMESTAMP writes naive datetimes and dates as epoch seconds of *local* time, so the zone of the
# process is part of the input.  POSIX rule strings only (no tz database needed); every DST switch is at 02:00 / 03:00,
# so local midnight always exists exactly once.
TZS = ['EST5EDT,M3.2.0,M11.1.0', 'IST-5:30', 'NZST-12NZDT,M9.5.0,M4.1.0/3', 'CET-1CEST,M3.5.0,M10.5.0/3', 'HST10',
       'LINT-14', '<-03>3', 'NST3:30NDT,M3.2.0,M11.1.0']


@contextlib.contextmanager
def local_tz(tz):
    """run the block with the process's local time zone set to `tz` (None: leave it alone); always restored"""
    if tz is None:
        yield
        return
    old = os.environ.get('TZ')
    os.environ['TZ'] = tz
    time.tzset()
    try:
        yield
    finally:
        if old is None:
            os.environ.pop('TZ', None)
        else:
            os.environ['TZ'] = old
        time.tzset()


# --------------------------------------------------------------------------- key transforms of *any* field name
# harness/ref.py spells the transforms for canonical snake_case names only (the names the round trip of C01 is claimed for).
# The dump side is claimed for every field name, so here are the documented transforms in full, written without `re`:
# separators '-' and ' ' count as '_', a run of '_' counts as one; CAMEL / PASCAL change the case of the first character
# only and replace every later "_<char>" by the upper-cased <char> - an underscore with nothing after it (a trailing one:
# `class_`, `from_`) and the first character itself (a leading one: `_internal_id`) stay; LISP writes '-' for every '_';
# SNAKE keeps a lower-case name; NONE keeps every name.  (Lower-case names only: the word splitting of LISP / SNAKE on
# capitals is C08's subject.)
def _collapse(s, ch):
    out = []
    for c in s:
        if c == ch and out and out[-1] == ch:
            continue
        out.append(c)
    return ''.join(out)


def _hump(s, first):
    s = _collapse(s.replace('-', '_').replace(' ', '_'), '_')
    if not s:
        return s
    out, i = [first(s[0])], 1
    while i < len(s):
        if s[i] == '_' and i + 1 < len(s):
            out.append(s[i + 1].upper())
            i += 2
        else:
            out.append(s[i])
            i += 1
    return ''.join(out)


def _lower_only(f):
    def g(n):
        assert n == n.lower(), n
        return f(n)
    return g


FULL_KEY_FUNCS = {'CAMEL': lambda n: _hump(n, str.lower), 'PASCAL': lambda n: _hump(n, str.upper),
                  'LISP': _lower_only(lambda n: _collapse(n.replace('_', '-').replace(' ', '-'), '-')),
                  'SNAKE': _lower_only(lambda n: _collapse(n.replace('-', '_').replace(' ', '_'), '_')),
                  'NONE': lambda n: n}

KEYWORDISH = ['class', 'from', 'type', 'id', 'in', 'pass', 'global', 'def']


def odd_name(rng, base):
    """a legal field name outside canonical snake_case, derived from the canonical `base`: leading / trailing / doubled
    underscores, dunder-like, the keyword-avoiding `class_`, digit-only words"""
    shape = rng.choice(['lead', 'trail', 'trail', 'both', 'double', 'dunder', 'kw', 'kw', 'digit', 'digit_mid', 'lead_digit'])
    if shape == 'lead':
        return '_' + base
    if shape == 'trail':
        return base + '_'
    if shape == 'both':
        return '_' + base + '_'
    if shape == 'double':
        return base.replace('_', '__', 1) if '_' in base else base + '__' + rng.choice(['x', 'id', 'v2'])
    if shape == 'dunder':
        return '__' + base + '__'
    if shape == 'kw':
        return rng.choice(['', '', '_']) + rng.choice(KEYWORDISH) + '_'
    if shape == 'digit':
        return base + '_' + str(rng.randint(0, 99))
    if shape == 'digit_mid':
        return base + '_' + str(rng.randint(0, 9)) + '_' + rng.choice(['x', 'count', 'id'])
    return '_' + str(rng.randint(0, 9)) + '_' + base


def _keys_of(name):
    return {k: f(name) for k, f in FULL_KEY_FUNCS.items()}


def odd_field_names(rng, ty, p_cls=0.85, p_field=0.5):
    """rename fields of the dataclasses of `ty` to non-canonical names; sometimes a sibling gets the same word without the
    decoration (`id` next to `id_`).  A new name is taken only when, under every transform, its key differs from the keys of
    the other fields of its class (two fields that documentedly share a key are not a conforming class)."""
    infos = {}
    model._collect_infos(ty, infos)
    for node in infos.values():
        if rng.random() >= p_cls:
            continue
        info = node['info']
        names = [f['name'] for f in info['fields']]

        def rename(i, new):
            if not new.isidentifier() or keyword.iskeyword(new) or new in names or hasattr(type, new):   # `__name__`: an attribute of every class
                return False
            others = [_keys_of(n) for j, n in enumerate(names) if j != i]
            mine = _keys_of(new)
            if any(mine[k] == o[k] for o in others for k in mine):
                return False
            old = names[i]
            names[i] = new
            info['fields'][i]['name'] = new
            for ft in node['ftys']:
                if ft[0] == old:
                    ft[0] = new
            return True

        for i in range(len(names)):
            if info['fields'][i].get('catch_all') or rng.random() >= p_field:
                continue
            new = odd_name(rng, names[i])
            if rename(i, new) and rng.random() < 0.5 and len(names) > 1:
                j = rng.choice([q_ for q_ in range(len(names)) if q_ != i])
                if not info['fields'][j].get('catch_all'):
                    rename(j, new.strip('_') if rng.random() < 0.7 else new.strip('_') + '_x')
    return ty


def make_key_name_case(rng):
    o = gen.Opts(**dict(OPTS, meta_prob=0.8))
    ty = gen.gen_cls(rng, rng.choice([0, 0, 1, 1, 2]), o)
    # the transforms that rewrite names get most of the weight; half of the classes say so in a Meta of their own
    infos = {}
    model._collect_infos(ty, infos)
    for node in infos.values():
        if rng.random() < 0.5:
            if node['info'].get('wizard') == 'py':
                node['info']['wizard'] = True
            meta = dict(node['info'].get('meta') or {})
            meta['key_transform_with_dump'] = rng.choice(['CAMEL', 'CAMEL', 'PASCAL', 'PASCAL', 'LISP', 'SNAKE', 'NONE'])
            node['info']['meta'] = meta
    return odd_field_names(rng, ty)


def _check_full_key_funcs():
    """self-check of the reference: on canonical names it is the table of harness/ref.py"""
    r = random.Random(5)
    for _ in range(300):
        n = gen.field_name(r, set())
        for k, f in FULL_KEY_FUNCS.items():
            assert f(n) == ref.KEY_FUNCS[k](n), (k, n)
    assert FULL_KEY_FUNCS['CAMEL']('_internal_id') == '_internalId' and FULL_KEY_FUNCS['PASCAL']('class_') == 'Class_'


class LocalRef(ref.RefEncoder):
    """the documented TIMESTAMP encoding of a `date`, derived without datetime.timestamp(): the epoch seconds of 00:00
    *local* time of that day (C mktime) - the number date.fromtimestamp maps back to the day, and the number a naive
    datetime at midnight of that day is written as"""
    key_funcs = FULL_KEY_FUNCS

    def enc(self, v, ts, cfg):
        if ts and isinstance(v, dt.date) and not isinstance(v, dt.datetime) and 1902 <= v.year <= 2100:
            n = int(time.mktime((v.year, v.month, v.day, 0, 0, 0, 0, 0, -1)))
            assert dt.date.fromtimestamp(n) == v, (v, n)          # self-check of the reference
            return n
        return super().enc(v, ts, cfg)


# --------------------------------------------------------------------------- CatchAll mappings
CA_KEYS = ['extra_', 'Unknown', 'x-', 'k ']
CA_OPTS = dict(leaves=gen.LEAVES_DEFAULT + ['bytes', 'bytearray', 'none'], allow_enum=False, allow_literal=False,
               allow_nt=False, allow_td=False, allow_cls=False, allow_tagged_union=False)


def json_value(rng, depth):
    """what a JSON document carries under an unknown key"""
    r = rng.random()
    if depth <= 0 or r < 0.35:
        return rng.choice([None, True, False, 0, -3, 2.5, '', 'txt', '2020-01-01', 10 ** 20])
    if r < 0.7:
        return [json_value(rng, depth - 1) for _ in range(rng.randint(0, 3))]
    return {rng.choice(['a', 'b c', 'Key', 'k_1', 'zz']): json_value(rng, depth - 1) for _ in range(rng.randint(0, 3))}


def catch_all_values(rng, t, built, size):
    """the mapping held by a CatchAll field of class node `t`: unknown JSON members as they came in (scalars, lists,
    objects, nested) and values the program put there itself (any supported runtime type at any container position,
    instances of the dataclasses below `t`)"""
    below = {}
    for _n, ft in t['ftys']:
        model._collect_infos(ft, below)
    out = {}
    for j in range(rng.choice([0, 1, 1, 2, 3])):
        key = rng.choice(CA_KEYS) + str(j)
        r = rng.random()
        if r < 0.35:
            out[key] = json_value(rng, rng.choice([0, 1, 2, 3]))
        elif r < 0.85 or not below or size <= 0:
            vt = gen.gen_type(rng, rng.choice([0, 1, 1, 2]), gen.Opts(**CA_OPTS))
            out[key] = gen.gen_value(rng, vt, built)
        else:
            node = below[rng.choice(sorted(below))]
            v = gen.gen_instance(rng, node, built, size - 1)
            out[key] = rng.choice([v, [v], {'in': v}])
    return out


def add_catch_all(rng, ty, p_nested=0.3):
    """give the root class (and some nested ones) a CatchAll field: without default, `= None`, or default_factory=dict"""
    infos = {}
    model._collect_infos(ty, infos)
    for name, node in infos.items():
        if node is not ty and rng.random() >= p_nested:
            continue
        info = node['info']
        if any(f.get('catch_all') for f in info['fields']):
            continue
        fname = next(n for n in ('rest_items', 'extras_fld', 'other_stuff') if n not in {f['name'] for f in info['fields']})
        cf = {'name': fname, 'catch_all': True}
        kind = rng.choice(['nodefault', 'none', 'dict'])
        if kind == 'nodefault':
            idx = next((i for i, f in enumerate(info['fields']) if f.get('dflt') is not None), len(info['fields']))
            info['fields'].insert(idx, cf)
        else:
            cf['dflt'] = ['lit', None] if kind == 'none' else ['dict']
            cf['factory'] = kind == 'dict'
            info['fields'].append(cf)
        node['ftys'].append([fname, T('any')])
    return ty


def make_catch_all_case(rng):
    o = gen.Opts(**OPTS)
    return add_catch_all(rng, gen.gen_cls(rng, rng.choice([0, 1, 1, 2]), o))


# --------------------------------------------------------------------------- histories: nested classes used on their own first
TEMPORAL_OPTS = dict(OPTS, leaves=gen.LEAVES_DEFAULT + ['bytes', 'none'] + ['date', 'datetime'] * 4, defaults_prob=0.55)
NEST_SHAPES = [lambda c: c, lambda c: T('list', c), lambda c: T('optional', c), lambda c: T('dict', T('str'), c),
               lambda c: T('tuple', c, T('int')), lambda c: T('list', T('optional', c))]


def _force_cascading_meta(rng, ty, p_ts=0.5):
    """the root gets a Meta with at least one setting that documentedly cascades to nested classes"""
    meta = dict(ty['info'].get('meta') or {})
    r = rng.random()
    if r < p_ts:
        meta['marshal_date_time_as'] = 'TIMESTAMP'
    elif r < p_ts + 0.3:
        meta['skip_defaults'] = True
    else:
        meta['marshal_date_time_as'] = 'TIMESTAMP'
        meta['skip_defaults'] = True
    if rng.random() < 0.85:
        meta.pop('recursive', None)
    ty['info']['meta'] = meta


def _ensure_nested(rng, ty, o):
    infos = {}
    model._collect_infos(ty, infos)
    if len(infos) > 1:
        return
    c = gen.gen_cls(rng, rng.choice([0, 0, 1]), o, nested=True)
    used = {f['name'] for f in ty['info']['fields']}
    fname = gen.field_name(rng, used)
    idx = next((i for i, f in enumerate(ty['info']['fields']) if f.get('dflt') is not None), len(ty['info']['fields']))
    ty['info']['fields'].insert(idx, {'name': fname})
    ty['ftys'].append([fname, rng.choice(NEST_SHAPES)(c)])


def standalone_first_candidates(ty):
    """nested classes N whose stand-alone dump may precede the first dump of `ty` in a history.

    Kept out (recorded finding `shared-nested-config-leak`, listed for C06 / C07, architectural: caches are keyed by class,
    not by (class, config)): (a) an N that itself cascades a Meta to classes below it - their per-class binding would
    survive into the dump of `ty`; (b) an N, or a class below it, whose dump keys under `ty` differ from the keys of the
    stand-alone dump - the per-class key cache keeps the spelling of the first use."""
    infos = {}
    model._collect_infos(ty, infos)
    under_root = effective_table(ty)
    out = []
    for name, node in infos.items():
        if node is ty:
            continue
        alone = effective_table(node)
        if len(alone) > 1 and ref.root_config(model.own_meta(node['info'])) is not None:
            continue
        same_keys = True
        for n2 in alone:
            ka = ref.KEY_FUNCS[alone[n2].get('key_transform_with_dump') or 'CAMEL']
            kb = ref.KEY_FUNCS[under_root[n2].get('key_transform_with_dump') or 'CAMEL']
            if any(ka(f['name']) != kb(f['name']) for f in infos[n2]['info']['fields']):
                same_keys = False
        if same_keys:
            out.append(name)
    return out


def _has_temporal_sub(v):
    import collections
    import dataclasses
    if isinstance(v, dt.date):
        return type(v) not in (dt.date, dt.datetime)
    if dataclasses.is_dataclass(v) and not isinstance(v, type):
        return any(_has_temporal_sub(getattr(v, f.name)) for f in dataclasses.fields(v) if hasattr(v, f.name))
    if isinstance(v, dict):
        return any(_has_temporal_sub(k) or _has_temporal_sub(y) for k, y in v.items())
    if isinstance(v, (list, tuple, set, frozenset, collections.deque)):
        return any(_has_temporal_sub(y) for y in v)
    return False


def _standalone_instance(rng, node, built):
    """the instance of a nested class that is dumped on its own first.  Kept out for now: values of proper subclasses of
    date / datetime - the hook cached for the subclass on first sight survives the later TIMESTAMP re-binding of the class
    (genuine defect of the unchanged library, findings/stale-subtype-hook-after-timestamp-bind.py)."""
    for _ in range(4):
        y = gen.gen_instance(rng, node, built)
        if not _has_temporal_sub(y):
            return y
    subs, gen.SUBS = gen.SUBS, False
    try:
        return gen.gen_instance(rng, node, built)
    finally:
        gen.SUBS = subs


def make_history_case(rng):
    o = gen.Opts(**TEMPORAL_OPTS)
    ty = gen.gen_cls(rng, rng.choice([1, 2, 2, 3]), o)
    _ensure_nested(rng, ty, o)
    infos = {}
    model._collect_infos(ty, infos)
    # most histories concentrate on the settings whose cascade does not go through the per-class key cache
    if rng.random() < 0.7:
        for node in infos.values():
            if node['info'].get('wizard') == 'py':
                node['info']['wizard'] = True
            if node['info'].get('meta'):
                node['info']['meta'].pop('key_transform_with_dump', None)
    _force_cascading_meta(rng, ty)
    cands = standalone_first_candidates(ty)
    rng.shuffle(cands)
    pre = cands[:rng.randint(1, len(cands))] if cands else []
    return ty, pre


# --------------------------------------------------------------------------- histories: the first use fails and is retried
ALIAS_SPELLINGS = [lambda n: n.upper(), lambda n: 'x-' + n, lambda n: n + ' key', lambda n: '$' + n, lambda n: n.title().replace('_', '')]


def add_dump_declarations(rng, node, p=0.55):
    """per-field declarations that the library's per-class dump setup has to collect: an alias that also applies to dump
    (json_field(.., all=True)), dump=False, a skip_if_field condition, a CatchAll field"""
    info = node['info']
    ftys = dict((n, ft) for n, ft in node['ftys'])
    for f in info['fields']:
        if f.get('ann_str') or f.get('catch_all') or rng.random() >= p:
            continue
        r = rng.random()
        if r < 0.45:
            f['load_keys'] = [rng.choice(ALIAS_SPELLINGS)(f['name'])]
            f['dump_all'] = True
        elif r < 0.75:
            f['dump_skip'] = True
        else:
            k = ftys[f['name']]['k']
            if k in ('int', 'str', 'bool') and rng.random() < 0.5:
                f['skip_if'] = {'op': '==', 'val': {'int': 0, 'str': '', 'bool': False}[k]}
            else:
                f['skip_if'] = {'op': rng.choice(['is', 'is not']), 'val': None}
    if rng.random() < 0.3:
        add_catch_all(rng, node, p_nested=0.0)


def make_failed_first_case(rng):
    """a class whose first use comes before a class named in one of its (string) annotations exists; fields after that one
    carry declarations the per-class setup must still see when the use is repeated"""
    o = gen.Opts(**OPTS)
    ty = gen.gen_cls(rng, rng.choice([0, 1, 1, 2]), o)
    spec = failfirst.add_forward_field(rng, ty, o)
    infos = {}
    model._collect_infos(ty, infos)
    add_dump_declarations(rng, infos[spec['cls']])
    for name, node in infos.items():
        if name != spec['cls'] and rng.random() < 0.3:
            add_dump_declarations(rng, node, p=0.3)
    return ty, spec


def make_tz_case(rng):
    o = gen.Opts(**TEMPORAL_OPTS)
    ty = gen.gen_cls(rng, rng.choice([0, 1, 1, 2]), o)
    if rng.random() < 0.8:
        _force_cascading_meta(rng, ty, p_ts=0.8)
    return ty


# --------------------------------------------------------------------------- values that are class objects
CLSOBJ_OPTS = dict(OPTS, leaves=gen.LEAVES_DEFAULT + ['bytes', 'none'] + ['clsobj'] * 9, allow_literal=False)


def make_class_object_case(rng):
    """positions annotated `type` / `Type[Any]` / `Any` (fields, container elements, mapping keys and values) whose values are
    class objects: builtin and stdlib classes, a plain user class, and the classes of the module itself - dataclasses (JSONWizard
    or plain, also the class being dumped), Enums, NamedTuples - in any order, next to instances of the same classes"""
    o = gen.Opts(**CLSOBJ_OPTS)
    ty = gen.gen_cls(rng, rng.choice([0, 1, 1, 2]), o)
    if not _mentions(ty, 'clsobj'):
        used = {f['name'] for f in ty['info']['fields']}
        fname = gen.field_name(rng, used)
        idx = next((i for i, f in enumerate(ty['info']['fields']) if f.get('dflt') is not None), len(ty['info']['fields']))
        ty['info']['fields'].insert(idx, {'name': fname})
        c = T('clsobj', sp=rng.choice(['type', 'Type', 'Any']))
        ty['ftys'].append([fname, rng.choice(NEST_SHAPES[:4] + [lambda c_: T('vtuple', c_)])(c)])
    return ty


def _mentions(t, kind):
    if t['k'] == kind:
        return True
    if t['k'] == 'cls':
        return any(_mentions(ft, kind) for _n, ft in t['ftys'])
    if t['k'] in ('namedtuple', 'typeddict'):
        return any(_mentions(f[1], kind) for f in t['fields'])
    return any(_mentions(x, kind) for x in t.get('a', []))


# --------------------------------------------------------------------------- the route by which a dump setting reaches a class
# The stream above configures a class through its inner Meta (or a Meta bound to a plain class), which registers the setting on
# the dumper that was created for that class.  The documented alternatives reach the class through dumper-class *inheritance*:
#   own-dumper  the class is its own dumper (`class C(JSONWizard, DumpMixin)` - docs/advanced_usage/type_hooks.rst -, mix-ins before
#               or after the wizard base), so its inner Meta is bound to the class itself while the class is being created;
#   global      a Meta declared at module level ("global settings that will apply to all JSONSerializable sub-classes") is bound to
#               the root dumper; every class - wizard or plain, defined before or after the declaration, not used yet - takes the
#               settings it does not set itself (nor receives from its main class) from there.
# A global Meta changes the library for the rest of the process, so each such case runs in a forked child.
GLOBAL_META_SETTINGS = [('marshal_date_time_as', ['TIMESTAMP'] * 5 + ['ISO_FORMAT'], 0.75), ('key_transform_with_dump', gen.CASES, 0.4),
                        ('skip_defaults', [True, True, False], 0.3)]


def make_route_case(rng):
    o = gen.Opts(**TEMPORAL_OPTS)
    ty = gen.gen_cls(rng, rng.choice([0, 1, 1, 2]), o)
    infos = {}
    model._collect_infos(ty, infos)
    if rng.random() < 0.45:
        if ty['info'].get('wizard') is False:
            ty['info']['wizard'] = True
        _force_cascading_meta(rng, ty, p_ts=0.7)
        for node in infos.values():
            if node['info'].get('wizard') in (True, 'py') and (node is ty or rng.random() < 0.4):
                names = rng.choice([['DumpMixin'], ['DumpMixin'], ['LoadMixin', 'DumpMixin'], ['DumpMixin', 'LoadMixin']])
                node['info']['mixins'] = {'names': names, 'pos': rng.choice(['pre', 'post'])}
        return ty, {'route': 'own-dumper'}
    g = {}
    while not g:
        for k, vals, p in GLOBAL_META_SETTINGS:
            if rng.random() < p:
                g[k] = rng.choice(vals)
    when = rng.choice(['before-classes', 'after-classes'])
    for node in infos.values():
        info = node['info']
        if when == 'after-classes':
            # claimed for classes whose dumper does not exist yet when the global Meta is declared: binding a Meta of its own
            # (an inner Meta, JSONPyWizard's pre-bound DumpMeta) creates the class's dumper on the spot, and the order of two
            # bindings is not documented
            info['meta'] = None
            if info.get('wizard') == 'py':
                info['wizard'] = True
        elif g.get('marshal_date_time_as') == 'TIMESTAMP' and (info.get('meta') or {}).get('marshal_date_time_as') == 'ISO_FORMAT':
            # kept out: recorded finding findings/explicit-iso-format-under-global-timestamp.py (the class's explicit ISO_FORMAT is
            # a no-op in bind_to, the dumper created for it inherits the process-wide TIMESTAMP encoders)
            del info['meta']['marshal_date_time_as']
        if when == 'before-classes' and g.get('key_transform_with_dump') and info.get('wizard') == 'py' and info.get('meta') is not None:
            # kept out: recorded finding findings/pywizard-inner-meta-takes-global-key-transform.py (a JSONPyWizard class with an
            # inner Meta: the inner Meta inherits the process-wide key transform and is bound after JSONPyWizard's own NONE)
            info['wizard'] = True
    return ty, {'route': 'global', 'meta': g, 'when': when}


class _Rec:
    """stands in for the Ctx inside a forked child: records what the case did, the parent repeats it on the real Ctx"""

    def __init__(self):
        self.events, self.notes = [], {}

    def count(self, kind, n=1):
        self.events.append(('count', kind, n))

    def begin_case(self, i):
        return True

    def seen(self, kind, case, nontrivial=True):
        self.events.append(('seen', kind, case, nontrivial))

    def fail(self, kind, case, what, key=None, detail=None):
        self.events.append(('fail', kind, case, what, key, detail))


def _declare_global_meta(g):
    src = ('from dataclass_wizard import JSONWizard\nclass GlobalMeta(JSONWizard.Meta):\n'
           + ''.join(f'    {k} = {v}\n' for k, v in model.meta_items(g)))
    import types
    mod = types.ModuleType(model.fresh('dwv_global_'))
    exec(compile(src, f'<{mod.__name__}>', 'exec', dont_inherit=True), mod.__dict__)
    return src


class _BuiltAfter(model.Built):
    """the classes exist (unused) before the global Meta is declared"""

    def __init__(self, ty, g):
        super().__init__(ty)
        self.source += '\n# ---- declared afterwards, in a module of its own:\n' + _declare_global_meta(g)


def run_global_case(ctx, i, ty, rng, spec, tz, kind):
    """one case under a process-wide Meta, in a forked child (the parent's library state is untouched)"""
    import pickle
    import traceback
    r, w = os.pipe()
    pid = os.fork()
    if pid == 0:
        code = 0
        try:
            os.close(r)
            import logging
            logging.disable(logging.CRITICAL)
            rec = _Rec()
            g = spec['meta']
            orig = model.Built
            try:
                if spec['when'] == 'before-classes':
                    gsrc = _declare_global_meta(g)
                    model.Built = type('_BuiltBefore', (orig,), {'__init__': lambda self, t: (orig.__init__(self, t), setattr(
                        self, 'source', '# ---- declared before, in a module of its own:\n' + gsrc + self.source))[0]})
                else:
                    model.Built = lambda t: _BuiltAfter(t, g)
                LocalRef.global_meta = g
                with local_tz(tz):
                    _run_case(rec, i, ty, rng, [], [], tz, (), kind, None, route=spec)
            finally:
                model.Built = orig
            data = pickle.dumps((rec.events, rec.notes))
        except BaseException:
            data = pickle.dumps(([('error', traceback.format_exc()[-1500:])], {}))
            code = 1
        try:
            with os.fdopen(w, 'wb') as f:
                f.write(data)
        finally:
            os._exit(code)
    os.close(w)
    with os.fdopen(r, 'rb') as f:
        data = f.read()
    os.waitpid(pid, 0)
    events, notes = pickle.loads(data)
    ctx.current = i
    for ev in events:
        if ev[0] == 'count':
            ctx.count(ev[1], ev[2])
        elif ev[0] == 'seen':
            ctx.seen(ev[1], ev[2], nontrivial=ev[3])
        elif ev[0] == 'fail':
            ctx.fail(ev[1], ev[2], ev[3], key=ev[4], detail=ev[5])
        else:
            raise RuntimeError('C03 global-Meta child failed:\n' + ev[1])
    for k, v in notes.items():
        ctx.notes.setdefault(k, []).extend(v)


def run_case(ctx, i, ty, rng, reqs, pend, tz=None, pre=(), kind='dump', first=None):
    """one case = (class model, history, instance, local time zone `tz`); history = stand-alone dumps of the nested classes
    `pre`, or (`first`, see harness/failfirst.py) uses of the class that come before a class it names is defined"""
    with local_tz(tz):
        _run_case(ctx, i, ty, rng, reqs, pend, tz, pre, kind, first)


def _run_case(ctx, i, ty, rng, reqs, pend, tz, pre, kind, first=None, route=None):
    try:
        built = model.Built(ty) if first is None else failfirst.StagedBuilt(ty, first['deferred'])
    except Exception as e:   # the generator produced an unbuildable class: a harness bug, not a finding
        ctx.count('build_error')
        ctx.notes.setdefault('build_errors', []).append(repr(e)[:200])
        return
    try:
        early = None
        if first is not None:
            # ---- history: uses of the class before the class named in its string annotation exists (expected to fail), then
            # that class is defined; everything below is the repeated use
            x0 = failfirst.early_instance(rng, ty, built, first)
            early = failfirst.first_uses(rng, built, x0, first)
            built.define_deferred()
        pre_insts = [_standalone_instance(rng, built.infos[n], built) for n in pre]
        x = gen.gen_instance(rng, ty, built)
        if not ctx.begin_case(i):
            return
        before = copy.deepcopy(x)
        case = {'ty': ty, 'inst': repr(x)[:400]}
        if first is not None:
            case['first_use'] = dict(first, outcome=early)
            ctx.count('failed_first:' + ('failed' if any(o_ != 'ok' for _u, o_ in early) else 'did-not-fail'))
        if tz is not None:
            case['tz'] = tz
        if route is not None:
            case['config_route'] = route
        from dataclass_wizard import asdict
        # ---- history: nested classes dumped on their own before the first dump of the main class
        if pre:
            case['standalone_first'] = [[n, repr(y)[:200]] for n, y in zip(pre, pre_insts)]
        for n, y in zip(pre, pre_insts):
            try:
                exp_y = LocalRef(built.infos).enc_inst(y, None, None, None, top=True)
            except (OverflowError, ValueError, OSError):
                exp_y = None
            try:
                d_y = asdict(y)
            except Exception as e:
                if exp_y is not None:
                    ctx.fail('dump:standalone-first', case, f'asdict of the nested class {n} on its own raised {e!r}', detail=dict(src=built.source))
                continue
            if exp_y is not None and not ref.same_typed(d_y, exp_y):
                ctx.fail('dump:standalone-first', case, f'asdict({y!r:.200}) = {d_y!r} differs from the documented encoding {exp_y!r}',
                         detail=dict(src=built.source))
        # ---- implementation
        try:
            d = asdict(x)
            impl = {'ok': model.enc_d(d)}
        except Exception as e:
            d = None
            impl = {'err': type(e).__name__}
        ctx.seen(kind, case, nontrivial=True)
        # ---- oracle
        try:
            exp = LocalRef(built.infos).enc_inst(x, None, None, None, top=True)
            exp_err = None
        except (OverflowError, ValueError, OSError) as e:
            exp, exp_err = None, e       # timestamp of an out-of-range date (year 1 / 9999 in local time): encoding undefined
        if exp_err is None:
            if d is None:
                ctx.fail('dump', case, f'asdict raised {impl["err"]} for a conforming instance', detail=dict(src=built.source))
            else:
                if not ref.same_typed(d, exp):
                    ctx.fail('dump:encoding', case, f'asdict(x) = {d!r} differs from the documented encoding {exp!r}',
                             detail=dict(src=built.source))
                try:
                    txt = json.dumps(d)
                except Exception as e:
                    ctx.fail('dump:json-safe', case, f'json.dumps(asdict(x)) raised {e!r}', detail=dict(src=built.source))
                    txt = None
                if txt is not None and hasattr(x, 'to_json'):
                    if json.loads(x.to_json()) != json.loads(txt):
                        ctx.fail('dump:to_json', case, 'to_json(x) differs from json.dumps(asdict(x))', detail=dict(src=built.source))
                shared = ref.mutable_ids(d) & ref.mutable_ids(x)
                if shared:
                    ctx.fail('dump:fresh', case, f'asdict result shares {len(shared)} mutable container(s) with the instance',
                             detail=dict(src=built.source))
                if not ref.same_typed(x, before):
                    ctx.fail('dump:side-effect', case, 'the instance changed during asdict', detail=dict(src=built.source))
        # ---- model (class objects are outside the value grammar of the Lean model: oracle only)
        if kind == 'class-objects' or (route or {}).get('route') == 'global':
            return
        st = model.StdTables()
        st.add_py(x)
        reqs.append({'op': 'dump', 'inst': model.enc_py(x, built), 'std': st.build(), 'exclude': None, 'skip_defaults': None})
        pend.append((case, impl))
    finally:
        built.close()


def _probe_tz(ctx):
    """the zone switch must really take effect, or the dimension silently disappears"""
    offs = []
    for tz in TZS:
        with local_tz(tz):
            offs.append(time.localtime(1_600_000_000).tm_gmtoff)
    with local_tz(None):
        here = time.localtime(1_600_000_000).tm_gmtoff
    ctx.notes['tz_offsets_s'] = dict(zip(TZS, offs))
    if len(set(offs)) < len(TZS) - 1 or all(o == here for o in offs):
        raise RuntimeError(f'time.tzset() has no effect here: {offs}')


def run(ctx: C.Ctx):
    rng = ctx.rng
    gen.SUBS = True
    ctx.rule = ('random class models (depth ≤ 3, ≤ 5 fields, every leaf/container constructor, Meta over dump key transform × '
                'ISO/TIMESTAMP × skip_defaults × recursive) with one conforming instance each; asdict output compared type-exactly '
                'with the Lean model and with an independent reference encoder; plus json.dumps, to_json, aliasing and '
                'side-effect monitors. Non-trivial = distinct (class model, instance).')
    ctx.rule += (' Further dimensions: the local time zone of the process (a third of the stream and a TIMESTAMP-heavy family run '
                 'under rotating non-UTC POSIX zones; date reference = C mktime of local midnight); CatchAll fields (no default / None '
                 '/ default_factory) whose mapping holds JSON containers, every supported runtime type and nested instances; '
                 'histories in which nested classes are dumped on their own before the first dump of a main class with a cascading Meta; '
                 'field names outside canonical snake_case (leading / trailing / doubled underscores, dunder-like, `class_` next to '
                 '`class`-like siblings, digit-only words) under every dump key transform, reference = the documented transforms in full; '
                 'histories in which the first dump / load of a class fails inside the per-class setup (a string annotation names a class '
                 'defined only afterwards) and is repeated, with alias / dump=False / skip_if / CatchAll declarations on the other fields; '
                 'values that are class objects (positions annotated type / Type[Any] / Any, also as container elements and mapping keys: '
                 'builtin, plain, Enum, NamedTuple and dataclass classes incl. the class being dumped; reference str(cls); oracle only); '
                 'the route by which a dump setting reaches a class: classes that are their own dumper (DumpMixin before / after the wizard '
                 'base, inner Meta) and a process-wide module-level Meta declared before / after the (unused) classes, each such case in a '
                 'forked child, reference = own setting, else the main class\'s, else the global one.')
    n = ctx.quick(1500, 8000)
    reqs, pend = [], []
    _probe_tz(ctx)
    for i in range(n):
        if ctx.done(i):
            break
        ty = make_case(rng, i)
        # the zone is a function of the case index only, so the seeded stream itself is the one of earlier versions
        run_case(ctx, i, ty, rng, reqs, pend, tz=TZS[(i // 3) % len(TZS)] if i % 3 == 2 else None)
    # ---- directed families; each case has its own RNG (seed, family, j), so a replay regenerates just that case
    base = n
    gen.CATCH_ALL_VALUES = catch_all_values
    _check_full_key_funcs()
    for fam, count in (('catch-all', ctx.quick(450, 2000)), ('standalone-first', ctx.quick(450, 2000)), ('local-tz', ctx.quick(350, 2000)),
                       ('key-names', ctx.quick(400, 2000)), ('failed-first', ctx.quick(400, 2000)),
                       ('class-objects', ctx.quick(400, 2000)), ('config-route', ctx.quick(400, 2000))):
        for j in range(count):
            idx = base + j
            if ctx.done(idx):
                break
            if ctx.only is not None and ctx.only != idx:
                continue
            crng = random.Random(f'C03:{ctx.seed}:{fam}:{j}')
            if fam == 'catch-all':
                run_case(ctx, idx, make_catch_all_case(crng), crng, reqs, pend, tz=TZS[j % len(TZS)] if j % 4 == 3 else None, kind=fam)
            elif fam == 'failed-first':
                ty, spec = make_failed_first_case(crng)
                run_case(ctx, idx, ty, crng, reqs, pend, kind=fam, first=spec)
            elif fam == 'key-names':
                run_case(ctx, idx, make_key_name_case(crng), crng, reqs, pend, kind=fam)
            elif fam == 'config-route':
                ty, spec = make_route_case(crng)
                tz = TZS[j % len(TZS)] if j % 3 == 2 else None
                if spec['route'] == 'global':
                    if ctx.begin_case(idx):
                        run_global_case(ctx, idx, ty, crng, spec, tz, fam)
                else:
                    with local_tz(tz):
                        _run_case(ctx, idx, ty, crng, reqs, pend, tz, (), fam, None, route=spec)
            elif fam == 'class-objects':
                run_case(ctx, idx, make_class_object_case(crng), crng, reqs, pend, kind=fam)
            elif fam == 'standalone-first':
                ty, pre = make_history_case(crng)
                run_case(ctx, idx, ty, crng, reqs, pend, tz=TZS[j % len(TZS)] if j % 4 == 3 else None, pre=pre, kind=fam)
            else:
                run_case(ctx, idx, make_tz_case(crng), crng, reqs, pend, tz=TZS[j % len(TZS)], kind=fam)
        base += count
    if ctx.model_available:
        outs = ctx.driver.run(reqs)
        for (case, impl), o in zip(pend, outs):
            if 'err' in o and 'r' not in o:
                ctx.agree('dump', case, impl, {'driver_error': o['err']})
                continue
            r = o['r']
            if model.has_miss(r):
                ctx.count('std_miss')
                continue
            if 'ok' in r:
                m = {'ok': r['ok']}
            else:
                m = {'err': 'raw' if r['err'][0] in ('raw', 'std') else r['err'][0]}
            if 'err' in impl:
                impl = {'err': 'raw'}
            ctx.agree('dump', case, impl, m)


