"""C03 — dump emits the documented wire encoding, JSON-safe, fresh and side-effect free."""
from __future__ import annotations

import copy
import json

from harness import common as C
from harness import gen, model, ref

OPTS = dict(meta_keys=['key_transform_with_dump', 'marshal_date_time_as', 'skip_defaults', 'recursive'],
            leaves=gen.LEAVES_DEFAULT + ['bytes', 'bytearray', 'none'])


def make_case(rng, i):
    o = gen.Opts(**OPTS)
    ty = gen.gen_cls(rng, rng.choice([0, 1, 2, 2, 3]), o)
    return ty


def run_case(ctx, i, ty, rng, reqs, pend):
    try:
        built = model.Built(ty)
    except Exception as e:   # the generator produced an unbuildable class: a harness bug, not a finding
        ctx.count('build_error')
        ctx.notes.setdefault('build_errors', []).append(repr(e)[:200])
        return
    try:
        x = gen.gen_instance(rng, ty, built)
        if not ctx.begin_case(i):
            return
        before = copy.deepcopy(x)
        case = {'ty': ty, 'inst': repr(x)[:400]}
        # ---- implementation
        from dataclass_wizard import asdict
        try:
            d = asdict(x)
            impl = {'ok': model.enc_d(d)}
        except Exception as e:
            d = None
            impl = {'err': type(e).__name__}
        ctx.seen('dump', case, nontrivial=True)
        # ---- oracle
        try:
            exp = ref.RefEncoder(built.infos).enc_inst(x, None, None, None, top=True)
            exp_err = None
        except (OverflowError, ValueError, OSError) as e:
            exp, exp_err = None, e       # timestamp of an out-of-range date (year 1 / 9999 in local time): encoding undefined
        if exp_err is None:
            if d is None:
                ctx.fail('dump', case, f'asdict raised {impl["err"]} for a conforming instance', detail=dict(src=built.source))
            else:
                if not ref.same_typed(d, exp):
                    ctx.fail('dump:encoding', case, f'asdict(x) = {d!r} differs from the documented encoding {exp!r}',
                             detail=dict(src=built.source))
                try:
                    txt = json.dumps(d)
                except Exception as e:
                    ctx.fail('dump:json-safe', case, f'json.dumps(asdict(x)) raised {e!r}', detail=dict(src=built.source))
                    txt = None
                if txt is not None and hasattr(x, 'to_json'):
                    if json.loads(x.to_json()) != json.loads(txt):
                        ctx.fail('dump:to_json', case, 'to_json(x) differs from json.dumps(asdict(x))', detail=dict(src=built.source))
                shared = ref.mutable_ids(d) & ref.mutable_ids(x)
                if shared:
                    ctx.fail('dump:fresh', case, f'asdict result shares {len(shared)} mutable container(s) with the instance',
                             detail=dict(src=built.source))
                if not ref.same_typed(x, before):
                    ctx.fail('dump:side-effect', case, 'the instance changed during asdict', detail=dict(src=built.source))
        # ---- model
        st = model.StdTables()
        st.add_py(x)
        reqs.append({'op': 'dump', 'inst': model.enc_py(x, built), 'std': st.build(), 'exclude': None, 'skip_defaults': None})
        pend.append((case, impl))
    finally:
        built.close()


def run(ctx: C.Ctx):
    rng = ctx.rng
    gen.SUBS = True
    ctx.rule = ('random class models (depth ≤ 3, ≤ 5 fields, every leaf/container constructor, Meta over dump key transform × '
                'ISO/TIMESTAMP × skip_defaults × recursive) with one conforming instance each; asdict output compared type-exactly '
                'with the Lean model and with an independent reference encoder; plus json.dumps, to_json, aliasing and '
                'side-effect monitors. Non-trivial = distinct (class model, instance).')
    n = ctx.quick(1500, 20000)
    reqs, pend = [], []
    for i in range(n):
        if ctx.done(i):
            break
        ty = make_case(rng, i)
        run_case(ctx, i, ty, rng, reqs, pend)
    if ctx.model_available:
        outs = ctx.driver.run(reqs)
        for (case, impl), o in zip(pend, outs):
            if 'err' in o and 'r' not in o:
                ctx.agree('dump', case, impl, {'driver_error': o['err']})
                continue
            r = o['r']
            if model.has_miss(r):
                ctx.count('std_miss')
                continue
            if 'ok' in r:
                m = {'ok': r['ok']}
            else:
                m = {'err': 'raw' if r['err'][0] in ('raw', 'std') else r['err'][0]}
            if 'err' in impl:
                impl = {'err': 'raw'}
            ctx.agree('dump', case, impl, m)


