"""C14, further stream — positional types (NamedTuple, fixed-length tuple) and *compound* damage.

The other streams damage a well-typed document in one place.  A value that is loaded by position (the list given for a
NamedTuple or a fixed-length tuple) can be defective in two ways at once: it can be too short for the required members
AND hold an element that cannot be converted.  Elements are converted in order, so "the first offending value" of the
statement is then the bad element, not the absent tail: the error has to name the innermost dataclass on the path to that
element (the dataclass nested in the element when the defect sits there — its ParseError / MissingFields must survive —,
otherwise the dataclass whose field holds the positional value) and must not present members that were given as missing.

A case is a v1 root dataclass holding a positional type P (directly, in a list, under Optional, as dict value, or inside a
nested dataclass); the members of P are scalars, Optional, list / dict of scalars, nested dataclasses (plain or lists of
them) and (for NamedTuples) further NamedTuples, trailing members of a NamedTuple may have defaults.  A history of 3..6
documents is loaded through the same classes (the generated loaders are cached on first use, so the order is part of the
input); every document is one of
  valid            complete, or without some of the trailing defaulted members  -> loads
  short            cut after c < (number of required members) good elements     -> NamedTuple: MissingFields naming the
                   NamedTuple and exactly the required members that are absent; tuple: ParseError naming the holding field
  bad              complete, one element damaged                                -> the element's own attribution (below)
  short+bad        cut after c >= 1 elements, one of the elements kept damaged   -> the same attribution as `bad`
  not-a-sequence   a dict / number / null in place of the list                  -> a library error whose str() returns
Element damage and its attribution (the reference; it does not consult the Lean model):
  scalar / Optional / list / dict element unconvertible   ParseError (holder class, holder field)
  nested dataclass: a required field unconvertible        ParseError (that dataclass, that field)
  nested dataclass: a required key deleted                MissingFields (that dataclass, [that key])
  nested NamedTuple element cut short                     MissingFields (that NamedTuple, its absent required members)
The same documents also go to the Lean model (driver op loadv1) for the full (type, class, field / missing) correspondence.
"""
from __future__ import annotations

import copy
import json

from harness import model
from harness.model import T
from harness.props import v1streams

# leaf kind -> (valid document values, values no documented v1 coercion accepts)
LEAVES = {
    'int': ([3, -4, '12', 0], ['oops', [1, 2], {'a': 1}]),
    'float': ([1.5, 2, '2.5'], ['oops', [1.5], {'a': 1}]),
    'date': (['2021-03-04', '1999-12-31'], ['oops', 'yesterday']),
    'decimal': (['1.50', 7], ['oops', [1]]),
}
WORDS = ['ab', 'lo', 'hi', 'id', 'txt', 'val', 'name', 'count', 'item', 'key', 'unit', 'flag', 'size', 'zone', 'span', 'note']
LINKS = ['direct', 'direct', 'list', 'optional', 'dict', 'nested', 'nested']


def _fname(rng, used):
    while True:
        n = '_'.join(rng.choice(WORDS) for _ in range(rng.randint(1, 2)))
        if n not in used:
            used.add(n)
            return n


def _cls(name, fields, wizard=False, meta=None):
    """fields: [(name, type node, default-or-None)] -> class type node of the shared grammar (harness/model.py)"""
    info_fields, ftys = [], []
    for n, t, d in fields:
        f = {'name': n}
        if d is not None:
            f['dflt'] = d
            f['factory'] = False
        info_fields.append(f)
        ftys.append([n, t])
    return {'k': 'cls', 'info': {'name': name, 'fields': info_fields, 'wizard': wizard, 'meta': meta}, 'ftys': ftys}


def gen_leaf(rng):
    return T(rng.choice(['int', 'int', 'int', 'float', 'float', 'date', 'decimal']))


def gen_dc(rng, nm):
    used = set()
    fields = [(_fname(rng, used), gen_leaf(rng), None) for _ in range(rng.randint(1, 2))]
    if rng.random() < 0.5:
        fields.append((_fname(rng, used), T('str'), ['lit', rng.choice(['K', '', 'dflt'])]))
    return _cls(nm('D'), fields, wizard=rng.random() < 0.25)


def gen_member(rng, nm, allow_nt):
    r = rng.random()
    if r < 0.34:
        return gen_leaf(rng)
    if r < 0.60:
        return gen_dc(rng, nm)
    if r < 0.68:
        return T('list', gen_dc(rng, nm))
    if r < 0.76:
        return T('list', gen_leaf(rng))
    if r < 0.84:
        return T('optional', gen_leaf(rng))
    if r < 0.91 or not allow_nt:
        return T('dict', T('str'), gen_leaf(rng))
    return gen_nt(rng, nm, nested=True)


def gen_nt(rng, nm, nested=False):
    used = set()
    n = rng.choice([2, 2, 3] if nested else [2, 3, 3, 4])
    n_dflt = rng.choice([0, 0, 1, 1, 2]) if not nested else 0
    n_dflt = min(n_dflt, n - (1 if rng.random() < 0.15 else 2))
    fields = []
    for k in range(n):
        if k >= n - n_dflt:
            v = rng.choice([0, 'dflt', 2.5, ''])
            fields.append([_fname(rng, used), T({int: 'int', str: 'str', float: 'float'}[type(v)]), ['lit', v]])
        else:
            fields.append([_fname(rng, used), gen_leaf(rng) if nested else gen_member(rng, nm, allow_nt=True), None])
    return T('namedtuple', name=nm('NT'), fields=fields)


def gen_model(rng, nm):
    if rng.random() < 0.72:
        P = gen_nt(rng, nm)
    else:
        P = T('tuple', *[gen_member(rng, nm, allow_nt=False) for _ in range(rng.randint(2, 4))])
    link = rng.choice(LINKS)
    used = set()
    hf = _fname(rng, used)
    wrapped = {'list': lambda: T('list', P), 'optional': lambda: T('optional', P), 'dict': lambda: T('dict', T('str'), P)}.get(link, lambda: P)()
    carrier = [(hf, wrapped, None)]
    if rng.random() < 0.5:
        carrier.insert(0, (_fname(rng, used), T('int'), None))
    if rng.random() < 0.5:
        carrier.append((_fname(rng, used), T('str'), ['lit', 'd']))
    meta = {'v1': True}
    if link == 'nested':
        mid = _cls(nm('M'), carrier, wizard=rng.random() < 0.3)
        used2 = set()
        rf = _fname(rng, used2)
        rfields = [(rf, mid, None)]
        if rng.random() < 0.4:
            rfields.append((_fname(rng, used2), T('int'), ['lit', 0]))
        root = _cls(nm('R'), rfields, wizard=True, meta=meta)
        holder, to_holder = mid['info']['name'], [rf]
    else:
        root = _cls(nm('R'), carrier, wizard=True, meta=meta)
        holder, to_holder = root['info']['name'], []
    return {'ty': root, 'P': P, 'link': link, 'holder': [holder, hf], 'to_holder': to_holder}


# --------------------------------------------------------------------------- documents

def valid_doc(rng, t):
    k = t['k']
    if k in LEAVES:
        return rng.choice(LEAVES[k][0])
    if k == 'str':
        return rng.choice(['s', '', 'x y'])
    if k == 'optional':
        return None if rng.random() < 0.25 else valid_doc(rng, t['a'][0])
    if k == 'list':
        return [valid_doc(rng, t['a'][0]) for _ in range(rng.randint(1, 2))]
    if k == 'dict':
        return {kk: valid_doc(rng, t['a'][1]) for kk in rng.sample(['k', 'k2', 'a b'], rng.randint(1, 2))}
    if k == 'tuple':
        return [valid_doc(rng, m) for m in t['a']]
    if k == 'namedtuple':
        return [valid_doc(rng, ft) for _n, ft, _d in t['fields']]
    if k == 'cls':
        ftys = dict((n, ft) for n, ft in t['ftys'])
        out = {}
        for f in t['info']['fields']:
            if f.get('dflt') is not None and rng.random() < 0.4:
                continue
            out[f['name']] = valid_doc(rng, ftys[f['name']])
        return out
    raise ValueError(k)


def n_required(P):
    if P['k'] == 'tuple':
        return len(P['a'])
    return sum(1 for _n, _t, d in P['fields'] if d is None)


def members(P):
    return list(P['a']) if P['k'] == 'tuple' else [ft for _n, ft, _d in P['fields']]


def damage_elem(rng, t, doc, hold):
    """damage the (valid) document of one element in place of its type -> (new document, expectation); `hold` = the
    (class, field) of the dataclass field holding the positional value"""
    k = t['k']
    if k in LEAVES:
        return rng.choice(LEAVES[k][1]), ['parse', hold]
    if k == 'optional':
        return rng.choice(LEAVES[t['a'][0]['k']][1]), ['parse', hold]
    if k == 'list':
        i = rng.randrange(len(doc))
        new = list(doc)
        new[i], exp = damage_elem(rng, t['a'][0], doc[i], hold)
        return new, exp
    if k == 'dict':
        kk = rng.choice(sorted(doc))
        new = dict(doc)
        new[kk], exp = damage_elem(rng, t['a'][1], doc[kk], hold)
        return new, exp
    if k == 'namedtuple':
        req = [n for n, _t, d in t['fields'] if d is None]
        if rng.random() < 0.5:
            c = rng.randrange(len(req))
            return doc[:c], ['missing', [t['name'], req[c:]]]
        i = rng.randrange(len(req))
        new = list(doc)
        new[i], exp = damage_elem(rng, t['fields'][i][1], doc[i], hold)
        return new, exp
    if k == 'cls':
        reqf = [f['name'] for f in t['info']['fields'] if f.get('dflt') is None]
        g = rng.choice(reqf)
        new = dict(doc)
        if rng.random() < 0.5:
            del new[g]
            return new, ['missing', [t['info']['name'], [g]]]
        gt = dict((n, ft) for n, ft in t['ftys'])[g]
        new[g], _ = damage_elem(rng, gt, doc[g], hold)
        return new, ['parse', [t['info']['name'], g]]
    raise ValueError(k)


def gen_step(rng, m):
    P = m['P']
    hold = m['holder']
    nreq = n_required(P)
    nall = len(members(P))
    kind = rng.choice(['valid', 'short', 'bad', 'bad', 'short+bad', 'short+bad', 'short+bad', 'not-a-sequence'])
    seq = valid_doc(rng, P)
    exp = ['ok']
    if kind == 'valid':
        if nall > nreq and rng.random() < 0.6:
            seq = seq[:rng.randint(nreq, nall)]
    elif kind == 'short':
        c = rng.randrange(nreq)
        seq = seq[:c]
        if P['k'] == 'namedtuple':
            exp = ['missing', [P['name'], [n for n, _t, d in P['fields'] if d is None][c:]]]
        else:
            exp = ['parse', hold]
    elif kind in ('bad', 'short+bad'):
        if kind == 'short+bad':
            if nreq < 2:
                kind = 'bad'
            else:
                seq = seq[:rng.randint(1, nreq - 1)]
        j = rng.randrange(min(len(seq), nreq) if kind == 'bad' else len(seq))
        seq[j], exp = damage_elem(rng, members(P)[j], seq[j], hold)
    else:
        seq = rng.choice([{'a': 1}, 5, None, True, {}])
        exp = ['lib'] if not (seq is None and m['link'] == 'optional') else ['ok']
    # wrap up to the root document
    link = m['link']
    if link == 'list':
        others = [valid_doc(rng, P) for _ in range(rng.randint(0, 2))]
        at = rng.randint(0, len(others))
        val = others[:at] + [seq] + others[at:]
    elif link == 'dict':
        val = {'k': seq}
        if rng.random() < 0.4:
            val = {'first': valid_doc(rng, P), 'k': seq}
    else:
        val = seq
    root = m['ty']
    doc = valid_doc(rng, root)
    cur = doc
    for s in m['to_holder']:
        cur = cur[s]
    # every field of the holder class is present (valid_doc may have left defaulted ones out: fine), the carrier gets the value
    cur[hold[1]] = val
    return {'kind': kind, 'doc': doc, 'expect': exp}


def gen_case(rng, nm):
    m = gen_model(rng, nm)
    m['steps'] = [gen_step(rng, m) for _ in range(rng.randint(3, 6))]
    return m


# --------------------------------------------------------------------------- judging

def judge(exp, out):
    """-> None or the reason the outcome contradicts the statement"""
    from dataclass_wizard.errors import JSONWizardError, ParseError, MissingFields
    if exp[0] == 'ok':
        if out[0] == 'err':
            return f'a document with a convertible value for every member failed: {type(out[1]).__name__}: {str(out[1])[:300]}'
        return None
    if out[0] == 'ok':
        return f'the defective document was accepted: {out[1]!r}'[:600]
    e = out[1]
    if not isinstance(e, JSONWizardError):
        return f'v1 load raised a bare {type(e).__name__}: {str(e)[:200]}'
    try:
        assert isinstance(str(e), str)
    except BaseException as ee:                    # noqa
        return f'str({type(e).__name__}) raised {type(ee).__name__}: {ee}'
    if getattr(e, 'class_name', None) is None:
        return f'{type(e).__name__} names no class'
    if exp[0] == 'parse':
        cls, fld = exp[1]
        if isinstance(e, MissingFields):
            return (f'the first offending value is an element that was GIVEN and cannot be converted (innermost dataclass field: {cls}.{fld}), '
                    f'yet MissingFields(class={e.class_name}, missing={e.missing_fields}) was raised')
        if type(e).__name__ == 'ParseError' and (e.class_name, e.field_name) != (cls, fld):
            return (f'ParseError names ({e.class_name!r}, {e.field_name!r}), the innermost (class, field) on the path to the first '
                    f'offending value is ({cls!r}, {fld!r})')
    elif exp[0] == 'missing':
        cls, names = exp[1]
        if not (isinstance(e, MissingFields) and e.class_name == cls and sorted(e.missing_fields or []) == sorted(names)):
            return (f'expected MissingFields naming {cls} and exactly the absent required members {names}, got {type(e).__name__} naming '
                    f'({e.class_name!r}, {getattr(e, "field_name", None)!r}, missing={getattr(e, "missing_fields", None)!r})')
    return None


def run_case(m, fail, seen=None):
    """build the classes of the case and load its documents in order; -> (built source, [outcome per step])"""
    from dataclass_wizard import fromdict
    built = model.Built(m['ty'])
    outs = []
    try:
        for si, st in enumerate(m['steps']):
            doc = json.loads(json.dumps(st['doc']))
            try:
                out = ('ok', fromdict(built.root, copy.deepcopy(doc)))
            except Exception as e:                 # noqa
                out = ('err', e)
            outs.append(out)
            if seen:
                seen(si, st, out)
            why = judge(st['expect'], out)
            if why:
                fail(si, f'step {si + 1}/{len(m["steps"])} [{st["kind"]}] loading {doc!r}: {why}', built.source)
    finally:
        built.close()
    return outs


def run(ctx, base):
    from harness.props.c14 import attribution, model_attr
    rng = v1streams.sub_rng(ctx, 'v1-positional')
    ctx.rule = ('positional types: a v1 root holding a NamedTuple (2..4 members, trailing defaults) or fixed-length tuple directly / in a list / '
                'under Optional / as dict value / inside a nested dataclass, members scalar / Optional / list / dict / nested dataclass / list of '
                'dataclasses / nested NamedTuple; histories of 3..6 documents: valid (also without trailing defaulted members), cut short, one '
                'element damaged (unconvertible scalar, nested dataclass with an unconvertible field or a deleted required key, nested NamedTuple cut '
                'short), BOTH cut short and an earlier element damaged, not a sequence: the error is a library error that renders and names the '
                'innermost dataclass / field of the first offending value — the damaged element when there is one, never "missing" for members '
                'that were given (reference independent of the Lean model, plus loadv1 correspondence).')
    n = ctx.quick(400, 5000)
    reqs, pend = [], []
    for j in range(n):
        i = base + j
        if ctx.done(i):
            break
        m = gen_case(rng, v1streams.Namer(j))
        if not ctx.begin_case(i):
            continue
        case = {'ty': m['ty'], 'link': m['link'], 'holder': m['holder'], 'engine': 'v1'}

        def fail(si, what, src, case=case, m=m):
            st = m['steps'][si]
            ctx.fail('err:v1:positional', dict(case, step=si, kind=st['kind'], doc=repr(st['doc'])[:600], expect=st['expect']), what,
                     detail=dict(src=src))

        def seen(si, st, out, case=case):
            ctx.seen('err:v1:positional:' + st['kind'], [case, si, repr(st['doc'])], nontrivial=(out[0] == 'err'))
        try:
            outs = run_case(m, fail, seen)
        except Exception as e:                     # noqa
            ctx.count('positional:build_error')
            ctx.notes.setdefault('positional_build_errors', []).append(repr(e)[:300])
            continue
        for si, (st, out) in enumerate(zip(m['steps'], outs)):
            tab = model.StdTables()
            tab.add_json(st['doc'])
            try:
                reqs.append({'op': 'loadv1', 'ty': model.enc_ty(m['ty']), 'doc': model.enc_j(st['doc']), 'std': tab.build()})
                pend.append((dict(case, step=si, kind=st['kind'], doc=repr(st['doc'])[:600]), out))
            except TypeError:
                ctx.count('not_encodable')
    if ctx.model_available and reqs:
        res = ctx.driver.run(reqs)
        for (case, out), o_ in zip(pend, res):
            if 'err' in o_ and 'r' not in o_:
                ctx.agree('attr:v1:positional', case, 'impl', {'driver_error': o_['err']})
                continue
            r = o_['r']
            if model.has_miss(r):
                ctx.count('std_miss')
                continue
            if 'err' in r and r['err'][0] == 'unsupported':
                ctx.count('model_unsupported')
                continue
            impl = {'ok': True} if out[0] == 'ok' else {'err': attribution(out[1])}
            mo = {'ok': True} if 'ok' in r else {'err': model_attr(r['err'])}
            ctx.agree('attr:v1:positional', case, impl, mo)
