"""C14, further stream — class *families* x entry points x histories.

The other streams of C14 load one freshly built root class once, through the module-level `fromdict`.  Which class is
"the dataclass being built" is however also a matter of
  * inheritance: a chain Base <- Sub <- Sub2 of JSONWizard dataclasses, each adding fields, each with or without a Meta of
    its own, optionally held by a further main class (direct / list / dict value);
  * the entry point: `Cls.from_dict`, `fromdict(Cls, ..)`, `Cls.from_json`, `Cls.from_list`;
  * the history: the library installs generated functions on classes at first use, so the order in which the classes of a
    family are first loaded (and through which entry point) is part of the input.
A case is a family plus a seeded history of 4..9 loads (valid documents, one unconvertible value in one field, one or more
required keys deleted), each step judged on its own:
  v1        a failing load raises a JSONWizardError whose str() returns; ParseError names the class the document was loaded
            as (or the held class / nested class when the value sits there) and the field holding the value; MissingFields
            names that class and exactly the deleted required fields; an unconvertible value is never accepted; a valid
            document loads as an instance of exactly the class asked for;
  default   the attribution clause whenever a ParseError is raised (the property's last sentence).
Oracle only: the Lean model has no notion of inheritance or entry point (a subclass is just a class with more fields).
"""
from __future__ import annotations

import copy
import json

from harness import model
from harness.model import T
from harness.props import v1streams

# type key -> (annotation, valid document values, junk values that no documented coercion accepts, default literal source)
FTYPES = {
    'int': ('int', [3, -4, '12'], ['oops', [1, 2], {'a': 1}], '0'),
    'float': ('float', [1.5, 2], ['oops', [1.5], {'a': 1}], '0.5'),
    'optint': ('Optional[int]', [5, None], ['oops', {'a': 1}], 'None'),
    'listint': ('list[int]', [[1, 2], []], [['x'], [[1]], [{'a': 1}]], 'field(default_factory=list)'),
    'dictint': ('dict[str, int]', [{'k': 1}, {}], [{'k': 'x'}, {'k': [1]}], 'field(default_factory=dict)'),
    'str': ('str', ['s', ''], [], "'d'"),
    'nested': (None, None, None, None),
}
WORDS = ['ab', 'my', 'id', 'txt', 'val', 'name', 'count', 'data', 'item', 'key', 'user', 'flag', 'size', 'zone']
APIS = ['from_dict', 'from_dict', 'fromdict', 'from_json', 'from_list']


def _fname(rng, used):
    while True:
        n = '_'.join(rng.choice(WORDS) for _ in range(rng.randint(1, 2)))
        if n not in used:
            used.add(n)
            return n


def gen_family(rng, nm, engine):
    used = set()
    depth = rng.choice([1, 2, 2, 2, 3, 3])
    nested_cls = nm('G')
    classes = []
    have_default = False
    for lvl in range(depth):
        fields = []
        for _ in range(rng.randint(1, 3) if lvl == 0 else rng.randint(1, 2)):
            tk = rng.choice(['int', 'int', 'float', 'optint', 'listint', 'dictint', 'str', 'nested'])
            req = (not have_default) and rng.random() < (0.7 if lvl == 0 else 0.4)
            fields.append({'name': _fname(rng, used), 'ty': tk, 'req': req})
        fields.sort(key=lambda f: not f['req'])
        if any(not f['req'] for f in fields):
            have_default = True
        # a class without a Meta takes the Meta its *immediate* base class declares (class_helper.call_meta_initializer_if_needed);
        # a grandchild of the declaring class without a Meta of its own is NOT bound to it and loads through the default
        # engine (noted in DESIGN.md 9.5: a grandchild class does not inherit its grandparent's Meta) — so never two classes without Meta in a row
        own_meta = lvl == 0 or not classes[-1]['own_meta'] or rng.random() < 0.5
        classes.append({'name': nm('F'), 'fields': fields, 'own_meta': own_meta})
    meta = []
    if engine == 'v1':
        meta = ['v1 = True']
        if rng.random() < 0.3:
            meta.append("v1_key_case = 'AUTO'")
    holder = None
    if rng.random() < 0.35:
        holder = {'name': nm('H'), 'of': rng.randrange(depth), 'shape': rng.choice(['direct', 'list', 'dict'])}
    fam = {'engine': engine, 'classes': classes, 'meta': meta, 'holder': holder, 'nested': nested_cls}
    # history
    steps = []
    targets = list(range(depth)) + ([-1] if holder else [])
    for _ in range(rng.randint(4, 9)):
        tgt = rng.choice(targets)
        ci = holder['of'] if tgt < 0 else tgt
        allf = [f for c in classes[:ci + 1] for f in c['fields']]
        kind = rng.choice(['valid', 'junk', 'junk', 'junk', 'missing'])
        st = {'target': tgt, 'api': rng.choice(APIS), 'kind': kind, 'vals': {}}
        for f in allf:
            if f['ty'] == 'nested':
                st['vals'][f['name']] = {'n_val': rng.choice([1, 2])}
            else:
                st['vals'][f['name']] = copy.deepcopy(rng.choice(FTYPES[f['ty']][1]))
        if kind == 'junk':
            cand = [f for f in allf if f['ty'] == 'nested' or FTYPES[f['ty']][2]]
            if not cand:
                st['kind'] = 'valid'
            else:
                f = rng.choice(cand)
                st['field'] = f['name']
                if f['ty'] == 'nested':
                    st['vals'][f['name']] = {'n_val': rng.choice(['oops', [1], {'a': 1}])}
                else:
                    st['vals'][f['name']] = copy.deepcopy(rng.choice(FTYPES[f['ty']][2]))
        elif kind == 'missing':
            reqs = [f['name'] for f in allf if f['req']]
            if not reqs:
                st['kind'] = 'valid'
            else:
                st['deleted'] = sorted(rng.sample(reqs, rng.randint(1, len(reqs))))
        steps.append(st)
    fam['steps'] = steps
    return fam


def render(fam):
    L = ['@dataclass', f'class {fam["nested"]}:', '    n_val: int', '']
    prev = 'JSONWizard'
    for c in fam['classes']:
        L += ['@dataclass', f'class {c["name"]}({prev}):']
        if c['own_meta'] and fam['meta']:
            L.append('    class _(JSONWizard.Meta):')
            L += ['        ' + m for m in fam['meta']]
        for f in c['fields']:
            if f['ty'] == 'nested':
                ann, d = fam['nested'], f'field(default_factory=lambda: {fam["nested"]}(0))'
            else:
                ann, d = FTYPES[f['ty']][0], FTYPES[f['ty']][3]
            L.append(f'    {f["name"]}: {ann}' + ('' if f['req'] else f' = {d}'))
        L.append('')
        prev = c['name']
    h = fam['holder']
    if h:
        held = fam['classes'][h['of']]['name']
        ann = {'direct': held, 'list': f'list[{held}]', 'dict': f'dict[str, {held}]'}[h['shape']]
        L += ['@dataclass', f'class {h["name"]}(JSONWizard):']
        if fam['meta']:
            L.append('    class _(JSONWizard.Meta):')
            L += ['        ' + m for m in fam['meta']]
        L += [f'    held: {ann}', '']
    return '\n'.join(L) + '\n'


def _call(Cls, api, doc):
    from dataclass_wizard import fromdict
    doc = copy.deepcopy(doc)
    if api == 'from_dict':
        return Cls.from_dict(doc)
    if api == 'fromdict':
        return fromdict(Cls, doc)
    if api == 'from_json':
        return Cls.from_json(json.dumps(doc))
    return Cls.from_list([doc])[0]


def run_family(fam, fail, seen=None):
    from dataclass_wizard.errors import JSONWizardError, ParseError, MissingFields
    src = render(fam)
    dummy = {'k': 'cls', 'info': {'name': fam['nested'] + 'z', 'fields': [{'name': 'a'}], 'wizard': False, 'meta': None}, 'ftys': [['a', T('int')]]}
    built = model.Built(dummy, extra_src=src)
    v1 = fam['engine'] == 'v1'
    try:
        for si, st in enumerate(fam['steps']):
            h = fam['holder']
            tgt = st['target']
            ci = h['of'] if tgt < 0 else tgt
            cdef = fam['classes'][ci]
            Cls = built.get(cdef['name'])
            Entry = built.get(h['name']) if tgt < 0 else Cls
            inner = {k: v for k, v in st['vals'].items() if k not in st.get('deleted', [])}
            doc = inner if tgt >= 0 else {'held': {'direct': inner, 'list': [inner], 'dict': {'k': inner}}[h['shape']]}
            where = (f'step {si + 1}/{len(fam["steps"])}: {Entry.__name__}.{st["api"]}' if st['api'] != 'fromdict' else
                     f'step {si + 1}/{len(fam["steps"])}: fromdict({Entry.__name__}, ..)') + f' of {doc!r} [{st["kind"]}]'
            if seen:
                seen(si, st)
            try:
                res = _call(Entry, st['api'], doc)
                err = None
            except Exception as e:                 # noqa
                res, err = None, e
            if err is not None:
                if v1 and not isinstance(err, JSONWizardError):
                    fail(si, f'{where}: raised a bare {type(err).__name__}: {str(err)[:200]}', src)
                    continue
                if isinstance(err, JSONWizardError):
                    try:
                        assert isinstance(str(err), str)
                    except BaseException as ee:    # noqa
                        fail(si, f'{where}: str({type(err).__name__}) raised {type(ee).__name__}: {ee}', src)
            if st['kind'] == 'valid':
                if err is not None:
                    fail(si, f'{where}: a document with a convertible value for every field failed: {type(err).__name__}: {str(err)[:300]}', src)
                    continue
                obj = res if tgt >= 0 else {'direct': lambda v: v, 'list': lambda v: v[0], 'dict': lambda v: v['k']}[h['shape']](res.held)
                if type(obj) is not Cls:
                    fail(si, f'{where}: the document was loaded as {type(obj).__name__}, the dataclass being built is {Cls.__name__}: {obj!r}'[:700], src)
                continue
            if st['kind'] == 'junk':
                fdef = next(f for c in fam['classes'][:ci + 1] for f in c['fields'] if f['name'] == st['field'])
                exp = (fam['nested'], 'n_val') if fdef['ty'] == 'nested' else (Cls.__name__, st['field'])
                if err is None:
                    if v1:
                        fail(si, f'{where}: the value of field {st["field"]} cannot be converted, yet the load returned {res!r} '
                                 f'(the dataclass being built is {Cls.__name__})'[:800], src)
                    continue
                if isinstance(err, ParseError) and type(err).__name__ == 'ParseError':
                    if (err.class_name, err.field_name) != exp:
                        fail(si, f'{where}: ParseError names ({err.class_name!r}, {err.field_name!r}), the innermost (class, field) on the '
                                 f'path to the offending value is {exp!r}', src)
                elif v1 and isinstance(err, MissingFields):
                    fail(si, f'{where}: every required key is present, yet MissingFields(class={err.class_name}, missing={err.missing_fields}) '
                             f'was raised for the unconvertible value of {st["field"]}', src)
                continue
            # missing
            if err is None:
                if v1:
                    fail(si, f'{where}: required field(s) {st["deleted"]} deleted, yet the load returned {res!r}'[:800], src)
                continue
            if v1:
                if not isinstance(err, MissingFields):
                    fail(si, f'{where}: required field(s) {st["deleted"]} deleted: expected MissingFields, got {type(err).__name__}: {str(err)[:200]}', src)
                elif err.class_name != Cls.__name__ or sorted(err.missing_fields) != st['deleted']:
                    fail(si, f'{where}: MissingFields names class {err.class_name!r} and {sorted(err.missing_fields)}, the dataclass being '
                             f'built is {Cls.__name__!r} and the deleted required fields are {st["deleted"]}', src)
    finally:
        built.close()


def run(ctx, base):
    rng = v1streams.sub_rng(ctx, 'v1-family')
    ctx.rule = ('class families: chains of 1..3 JSONWizard dataclasses by inheritance (each adding int / float / Optional / list / dict / str / '
                'nested-dataclass fields, with or without a Meta of its own), optionally held by a further main class; histories of 4..9 loads '
                'over the classes of the family through from_dict / fromdict / from_json / from_list with valid documents, one unconvertible '
                'value, or deleted required keys: library error, str(e) returns, (class, field) / (class, missing) name the class the document '
                'was loaded as, unconvertible values are never accepted, valid documents load as exactly that class (oracle only).')
    n = ctx.quick(450, 5000)
    for j in range(n):
        i = base + j
        if ctx.done(i):
            break
        nm = v1streams.Namer(j)
        fam = gen_family(rng, nm, 'v1' if rng.random() < 0.8 else 'default')
        if not ctx.begin_case(i):
            continue
        case = {'family': fam}

        def fail(si, what, src, case=case):
            ctx.fail('err:family:' + case['family']['engine'], dict(case, step=si), what, detail=dict(src=src))
        try:
            run_family(fam, fail, seen=lambda si, st, fam=fam: ctx.seen('err:family:' + fam['engine'], [fam['classes'], fam['holder'], si, st],
                                                                       nontrivial=st['kind'] != 'valid'))
        except Exception as e:                     # noqa
            ctx.count('family:build_error')
            ctx.notes.setdefault('family_build_errors', []).append(repr(e)[:300])
